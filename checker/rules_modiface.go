package main

// MOD-IFACE (C20, C07, C15): the application discovers what a module can do by asserting SDK interfaces on the value
// the module hands over (appmodule.AppModule in the depinject outputs). A method with a pointer receiver is not in
// the method set of a module handed over by value: the assertion fails silently and the capability — the module's
// commands, its block hook, its genesis handling, its services — simply is not there.

import (
	"fmt"
	"go/types"
	"sort"
	"strings"

	"golang.org/x/tools/go/ssa"
)

var moduleCapabilities = map[string]string{
	"AutoCLIOptions":     "no tx/query command of the module is registered (autocli.HasAutoCLIConfig)",
	"RegisterServices":   "the message and query services are not registered: every message and query of the module is unroutable",
	"BeginBlock":         "the block hook never runs: auctions never open, settle or vest",
	"EndBlock":           "the end-block hook never runs",
	"InitGenesis":        "genesis state is not imported",
	"ExportGenesis":      "the module's state is missing from an exported genesis",
	"DefaultGenesis":     "the module has no default genesis",
	"ValidateGenesis":    "the module's genesis state is not validated",
	"RegisterInterfaces": "the module's message types are not registered with the interface registry",
	"ConsensusVersion":   "the module's consensus version is not reported",
}

func checkModuleIface(w *World, r *Report, rule string, only ...string) {
	r.Rule(rule, "the module value handed to the application has every capability method in its method set", 1)
	p := w.Repo[modulePath]
	if p == nil {
		r.Fail(rule, "module-package", modulePath, "the module package is part of the build", "package not loaded")
		return
	}
	// the concrete type converted to appmodule.AppModule in the module package (depinject outputs)
	var handed types.Type
	where := modulePath
	for _, fn := range w.Funcs {
		if pk := pkgOf(fn); pk == nil || pk.Path() != modulePath || w.isGenerated(fn) {
			continue
		}
		for _, b := range fn.Blocks {
			for _, in := range b.Instrs {
				mi, ok := in.(*ssa.MakeInterface)
				if !ok {
					continue
				}
				n, ok := mi.Type().(*types.Named)
				if !ok || n.Obj().Pkg() == nil || n.Obj().Pkg().Path() != appmodulePath || n.Obj().Name() != "AppModule" {
					continue
				}
				if handed == nil {
					handed, where = mi.X.Type(), w.instrPos(in)
				}
			}
		}
	}
	if handed == nil {
		r.Fail(rule, "handed-over", modulePath, "the module package converts its module type to appmodule.AppModule for the application", "no conversion to appmodule.AppModule found in the module package")
		return
	}
	base := handed
	if pt, ok := base.(*types.Pointer); ok {
		base = pt.Elem()
	}
	have := types.NewMethodSet(handed)
	full := types.NewMethodSet(types.NewPointer(base))
	want := map[string]bool{}
	for _, o := range only {
		want[o] = true
	}
	var names []string
	for n := range moduleCapabilities {
		if len(want) == 0 || want[n] {
			names = append(names, n)
		}
	}
	sort.Strings(names)
	for _, n := range names {
		var sel *types.Selection
		for i := 0; i < full.Len(); i++ {
			if full.At(i).Obj().Name() == n {
				sel = full.At(i)
			}
		}
		if sel == nil {
			continue // the module does not declare it at all (other rules demand the ones that must exist)
		}
		ok := false
		for i := 0; i < have.Len(); i++ {
			if have.At(i).Obj().Name() == n {
				ok = true
			}
		}
		r.Check(ok, rule, "method:"+n, where,
			fmt.Sprintf("%s is in the method set of %s, the value handed to the application", n, strings.TrimPrefix(types.TypeString(handed, nil), modPath+"/")),
			fmt.Sprintf("%s is declared with a pointer receiver but the module is handed to the application as the value %s, whose method set does not contain it: the interface assertion fails silently and %s", n, types.TypeString(handed, nil), moduleCapabilities[n]))
	}
}
