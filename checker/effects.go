package main

// effects.go — E2 effect atoms: every SSA call is classified by the resolved
// callee's types.Func object, never by the name of a repository helper.

import (
	"go/types"
	"strings"

	"golang.org/x/tools/go/ssa"
)

type EffKind int

const (
	EffNone        EffKind = iota
	EffTransfer            // invoke on types.BankKeeper that moves coins
	EffBankRead            // invoke on types.BankKeeper that only reads
	EffFee                 // invoke on types.DistrKeeper
	EffStoreWrite          // collections write on a Keeper collection field
	EffStoreRead           // collections read on a Keeper collection field
	EffHook                // invoke on types.FundraisingHooks
	EffEvent               // EventManager emit
	EffStatusWrite         // BaseAuction.SetStatus / store to BaseAuction.Status
)

func (k EffKind) String() string {
	return [...]string{"none", "Transfer", "BankRead", "Fee", "StoreWrite", "StoreRead", "Hook", "Event", "StatusWrite"}[k]
}

type Effect struct {
	Kind   EffKind
	Method string // bank/distr/hook method, collection op
	Coll   string // Keeper collection field name (store effects)
	Instr  ssa.Instruction
}

var collWriteOps = map[string]bool{"Set": true, "Remove": true, "Clear": true, "Next": true}
var collReadOps = map[string]bool{"Get": true, "Has": true, "Walk": true, "Iterate": true, "IterateRaw": true, "Peek": true}

// collFieldOfValue: if v denotes (a copy of / pointer to) a collection field of
// a keeper.Keeper value, return the field name.
func (w *World) collFieldOfValue(v ssa.Value) string {
	for depth := 0; depth < 6; depth++ {
		switch x := v.(type) {
		case *ssa.UnOp:
			v = x.X
			continue
		case *ssa.MakeInterface:
			v = x.X
			continue
		case *ssa.ChangeInterface:
			v = x.X
			continue
		case *ssa.FieldAddr:
			if n := namedOf(x.X.Type()); n == w.Keeper {
				st := w.Keeper.Underlying().(*types.Struct)
				f := st.Field(x.Field)
				if w.CollFields[f.Name()] == f {
					return f.Name()
				}
			}
			return ""
		case *ssa.Field:
			if n := namedOf(x.X.Type()); n == w.Keeper {
				st := w.Keeper.Underlying().(*types.Struct)
				f := st.Field(x.Field)
				if w.CollFields[f.Name()] == f {
					return f.Name()
				}
			}
			return ""
		case *ssa.Parameter:
			// a collection handed to a helper (e.g. a generic collector instantiated for one value type): the
			// collection every caller passes, if they all pass the same one
			fn := x.Parent()
			if fn == nil || collParamBusy[x] {
				return ""
			}
			idx := -1
			for i, p := range fn.Params {
				if p == x {
					idx = i
				}
			}
			if idx < 0 {
				return ""
			}
			collParamBusy[x] = true
			defer delete(collParamBusy, x)
			name := ""
			for _, cs := range w.callSitesOf(fn) {
				cc := cs.Common()
				var args []ssa.Value
				if cc.IsInvoke() {
					args = append(args, cc.Value)
				}
				args = append(args, cc.Args...)
				if idx >= len(args) {
					return ""
				}
				c := w.collFieldOfValue(args[idx])
				if c == "" || (name != "" && c != name) {
					return ""
				}
				name = c
			}
			return name
		}
		break
	}
	return ""
}

var collParamBusy = map[*ssa.Parameter]bool{}

// EffectOf classifies one instruction.
func (w *World) EffectOf(in ssa.Instruction) *Effect {
	switch x := in.(type) {
	case *ssa.Store:
		if fa, ok := x.Addr.(*ssa.FieldAddr); ok && namedOf(fa.X.Type()) == w.BaseAuction {
			st := w.BaseAuction.Underlying().(*types.Struct)
			if st.Field(fa.Field).Name() == "Status" {
				// the setter's own body is reported at its call sites instead
				if obj, _ := x.Parent().Object().(*types.Func); obj != nil && recvNamed(obj) == w.BaseAuction && x.Parent().Name() == "SetStatus" {
					return nil
				}
				return &Effect{Kind: EffStatusWrite, Method: "store", Instr: in}
			}
		}
		return nil
	case ssa.CallInstruction:
		cc := x.Common()
		if cc.IsInvoke() {
			n := namedOf(cc.Value.Type())
			switch n {
			case w.BankKeeper:
				switch cc.Method.Name() {
				case "SpendableCoins", "GetBalance", "GetAllBalances":
					return &Effect{Kind: EffBankRead, Method: cc.Method.Name(), Instr: in}
				}
				return &Effect{Kind: EffTransfer, Method: cc.Method.Name(), Instr: in}
			case w.DistrKeeper:
				return &Effect{Kind: EffFee, Method: cc.Method.Name(), Instr: in}
			case w.Hooks:
				return &Effect{Kind: EffHook, Method: cc.Method.Name(), Instr: in}
			case w.AuctionI:
				if cc.Method.Name() == "SetStatus" {
					return &Effect{Kind: EffStatusWrite, Method: "SetStatus", Instr: in}
				}
			}
			return nil
		}
		obj := staticCalleeObj(cc)
		if obj == nil {
			return nil
		}
		key := calleeKey(obj)
		if rn := recvNamed(obj); rn != nil && rn.Obj().Pkg() != nil {
			switch {
			case rn.Obj().Pkg().Path() == collPath && len(cc.Args) > 0:
				if f := w.collFieldOfValue(cc.Args[0]); f != "" {
					op := obj.Name()
					if collWriteOps[op] {
						return &Effect{Kind: EffStoreWrite, Method: op, Coll: f, Instr: in}
					}
					return &Effect{Kind: EffStoreRead, Method: op, Coll: f, Instr: in}
				}
			case rn == w.BaseAuction && obj.Name() == "SetStatus":
				return &Effect{Kind: EffStatusWrite, Method: "SetStatus", Instr: in}
			case rn.Obj().Name() == "EventManager" && rn.Obj().Pkg().Path() == sdkPath && strings.HasPrefix(obj.Name(), "Emit"):
				return &Effect{Kind: EffEvent, Method: obj.Name(), Instr: in}
			}
		}
		// helpers of the query package that read a whole collection
		if strings.HasPrefix(key, "github.com/cosmos/cosmos-sdk/types/query.Collection") {
			for _, a := range cc.Args {
				if f := w.collFieldOfValue(a); f != "" {
					return &Effect{Kind: EffStoreRead, Method: obj.Name(), Coll: f, Instr: in}
				}
			}
		}
	}
	return nil
}

// callGraph edges inside the repository: static callees with bodies, AuctionI
// invokes, closures created in the function (they run under Walk/sort/etc.).
func (w *World) callees(fn *ssa.Function) []*ssa.Function {
	seen := map[*ssa.Function]bool{}
	var out []*ssa.Function
	add := func(f *ssa.Function) {
		if f != nil && f.Blocks != nil && !seen[f] && w.isRepoPkg(pkgOf(f)) {
			seen[f] = true
			out = append(out, f)
		}
	}
	for _, b := range fn.Blocks {
		for _, in := range b.Instrs {
			switch x := in.(type) {
			case ssa.CallInstruction:
				add(w.calleeBody(x.Common()))
				for _, a := range x.Common().Args {
					if mc, ok := a.(*ssa.MakeClosure); ok {
						add(mc.Fn.(*ssa.Function))
					}
					if f, ok := a.(*ssa.Function); ok {
						add(f)
					}
				}
			case *ssa.MakeClosure:
				add(x.Fn.(*ssa.Function))
			}
		}
	}
	return out
}

// reachableFrom returns the repository functions reachable from the roots.
func (w *World) reachableFrom(roots ...*ssa.Function) map[*ssa.Function]bool {
	seen := map[*ssa.Function]bool{}
	var rec func(f *ssa.Function)
	rec = func(f *ssa.Function) {
		if f == nil || seen[f] {
			return
		}
		seen[f] = true
		for _, c := range w.callees(f) {
			rec(c)
		}
	}
	for _, r := range roots {
		rec(r)
	}
	return seen
}

// methodImpl finds the repository method named `name` on a type that
// implements the given interface, declared in package pkgPath.
func (w *World) implementors(iface *types.Named, pkgPath string) []*types.Named {
	var out []*types.Named
	p := w.Repo[pkgPath]
	if p == nil {
		return nil
	}
	it := iface.Underlying().(*types.Interface)
	sc := p.Types.Scope()
	for _, name := range sc.Names() {
		tn, ok := sc.Lookup(name).(*types.TypeName)
		if !ok {
			continue
		}
		n, ok := tn.Type().(*types.Named)
		if !ok {
			continue
		}
		if _, isIface := n.Underlying().(*types.Interface); isIface {
			continue
		}
		if types.Implements(n, it) || types.Implements(types.NewPointer(n), it) {
			out = append(out, n)
		}
	}
	return out
}

// methodOf returns the SSA function of method `name` of named type n (value or pointer receiver).
func (w *World) methodOf(n *types.Named, name string) *ssa.Function {
	for _, t := range []types.Type{n, types.NewPointer(n)} {
		ms := types.NewMethodSet(t)
		for i := 0; i < ms.Len(); i++ {
			if ms.At(i).Obj().Name() == name {
				if f := w.FuncOf(ms.At(i).Obj().(*types.Func)); f != nil {
					return f
				}
			}
		}
	}
	return nil
}
