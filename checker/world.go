package main

// world.go — E1: loads /repo's current working tree, type-checks it, builds
// go/ssa for the repository's own packages and indexes the API anchors that
// the rules refer to (all resolved through go/types objects).

import (
	"fmt"
	"go/ast"
	"go/token"
	"go/types"
	"os"
	"sort"
	"strings"

	"golang.org/x/tools/go/packages"
	"golang.org/x/tools/go/ssa"
	"golang.org/x/tools/go/ssa/ssautil"
)

const (
	modPath    = "github.com/tendermint/fundraising"
	typesPath  = modPath + "/x/fundraising/types"
	keeperPath = modPath + "/x/fundraising/keeper"
	modulePath = modPath + "/x/fundraising/module"
	simPath    = modPath + "/x/fundraising/simulation"
	appPath    = modPath + "/app"
	cmdPath    = modPath + "/cmd/fundraisingd/cmd"
	mainPath   = modPath + "/cmd/fundraisingd"
	collPath   = "cosmossdk.io/collections"
	mathPath   = "cosmossdk.io/math"
	sdkPath    = "github.com/cosmos/cosmos-sdk/types"
)

// CheckerError is raised (via panic) for infrastructure failures: they give
// exit status 2 and never a VIOLATION line.
type CheckerError struct{ Msg string }

func (e CheckerError) Error() string { return e.Msg }

func fatalf(format string, a ...any) { panic(CheckerError{fmt.Sprintf(format, a...)}) }

type World struct {
	RepoDir string
	Fset    *token.FileSet
	All     []*packages.Package          // every loaded package (closure)
	ByPath  map[string]*packages.Package // all, by import path
	Repo    map[string]*packages.Package // repository packages
	Prog    *ssa.Program
	SSA     map[string]*ssa.Package // repository packages
	Funcs   []*ssa.Function         // every source function (incl. closures) of repository packages, sorted

	// anchors
	Keeper      *types.Named
	CollFields  map[string]*types.Var // Keeper collection fields by name
	BankKeeper  *types.Named
	DistrKeeper *types.Named
	Hooks       *types.Named
	AuctionI    *types.Named
	MsgServer   *types.Named
	QueryServer *types.Named
	BaseAuction *types.Named

	fnByObj map[*types.Func]*ssa.Function
	declOf  map[*ssa.Function]*ast.FuncDecl
}

func repoDir() string {
	if d := os.Getenv("VERIF_REPO"); d != "" {
		return d
	}
	return "/repo"
}

// curWorld: the loaded program, for helpers that are plain functions over terms.
var curWorld *World

func LoadWorld() *World {
	w := &World{RepoDir: repoDir()}
	curWorld = w
	os.Unsetenv("GOWORK")
	cfg := &packages.Config{
		Mode:  packages.LoadAllSyntax,
		Dir:   w.RepoDir,
		Tests: false,
		Env: append(os.Environ(), "GOFLAGS=-mod=mod", "GOPROXY=off", "GOSUMDB=off",
			"GOTOOLCHAIN=local", "GOWORK=off"),
	}
	if tags := os.Getenv("VERIF_TAGS"); tags != "" {
		cfg.BuildFlags = []string{"-tags=" + tags}
	}
	pkgs, err := packages.Load(cfg, "./x/...", "./app/...", "./cmd/...")
	if err != nil {
		fatalf("packages.Load: %v", err)
	}
	if len(pkgs) == 0 {
		fatalf("no packages loaded from %s", w.RepoDir)
	}
	w.ByPath = map[string]*packages.Package{}
	w.Repo = map[string]*packages.Package{}
	var errs []string
	packages.Visit(pkgs, nil, func(p *packages.Package) {
		w.All = append(w.All, p)
		w.ByPath[p.PkgPath] = p
		for _, e := range p.Errors {
			errs = append(errs, fmt.Sprintf("%s: %s", p.PkgPath, e.Error()))
		}
	})
	if len(errs) > 0 {
		sort.Strings(errs)
		if len(errs) > 10 {
			errs = errs[:10]
		}
		fatalf("package load/type errors:\n  %s", strings.Join(errs, "\n  "))
	}
	sort.Slice(w.All, func(i, j int) bool { return w.All[i].PkgPath < w.All[j].PkgPath })
	for _, p := range pkgs {
		w.Repo[p.PkgPath] = p
		w.Fset = p.Fset
	}
	for _, need := range []string{typesPath, keeperPath, modulePath, simPath, appPath, cmdPath, mainPath} {
		if w.Repo[need] == nil {
			fatalf("repository package %s not loaded", need)
		}
	}
	prog, spkgs := ssautil.Packages(pkgs, ssa.InstantiateGenerics)
	w.Prog = prog
	w.SSA = map[string]*ssa.Package{}
	for i, sp := range spkgs {
		if sp == nil {
			fatalf("no SSA package for %s", pkgs[i].PkgPath)
		}
		sp.Build()
		w.SSA[pkgs[i].PkgPath] = sp
	}
	w.indexFuncs()
	w.indexAnchors()
	theWorld = w
	return w
}

func (w *World) isRepoPkg(p *types.Package) bool {
	return p != nil && w.Repo[p.Path()] != nil
}

func (w *World) indexFuncs() {
	w.fnByObj = map[*types.Func]*ssa.Function{}
	w.declOf = map[*ssa.Function]*ast.FuncDecl{}
	seen := map[*ssa.Function]bool{}
	var add func(fn *ssa.Function)
	add = func(fn *ssa.Function) {
		if fn == nil || seen[fn] {
			return
		}
		seen[fn] = true
		if fn.Blocks == nil {
			return
		}
		w.Funcs = append(w.Funcs, fn)
		if obj, ok := fn.Object().(*types.Func); ok && obj != nil {
			w.fnByObj[obj] = fn
		}
		if d, ok := fn.Syntax().(*ast.FuncDecl); ok {
			w.declOf[fn] = d
		}
		for _, a := range fn.AnonFuncs {
			add(a)
		}
	}
	for _, sp := range w.SSA {
		for _, m := range sp.Members {
			switch m := m.(type) {
			case *ssa.Function:
				add(m)
			case *ssa.Type:
				nt, ok := m.Type().(*types.Named)
				if !ok {
					continue
				}
				for _, t := range []types.Type{nt, types.NewPointer(nt)} {
					ms := w.Prog.MethodSets.MethodSet(t)
					for i := 0; i < ms.Len(); i++ {
						sel := ms.At(i)
						fobj := sel.Obj().(*types.Func)
						if !w.isRepoPkg(fobj.Pkg()) {
							continue
						}
						// the declared method, not a promotion wrapper
						add(w.Prog.FuncValue(fobj))
					}
				}
			}
		}
	}
	sort.Slice(w.Funcs, func(i, j int) bool {
		a, b := w.Funcs[i], w.Funcs[j]
		if a.String() != b.String() {
			return a.String() < b.String()
		}
		return a.Pos() < b.Pos()
	})
}

// isGenerated: the function is declared in generated code (*.pb.go, *.pb.gw.go, *.pulsar.go).
func (w *World) isGenerated(fn *ssa.Function) bool {
	for fn.Parent() != nil {
		fn = fn.Parent()
	}
	if !fn.Pos().IsValid() {
		return false
	}
	f := w.Fset.Position(fn.Pos()).Filename
	return strings.HasSuffix(f, ".pb.go") || strings.HasSuffix(f, ".pb.gw.go") || strings.HasSuffix(f, ".pulsar.go")
}

// FuncOf returns the SSA function for a declared function/method object of a
// repository package (nil when it has no body in the analysed packages).
func (w *World) FuncOf(obj *types.Func) *ssa.Function {
	if obj == nil {
		return nil
	}
	if f := w.fnByObj[obj]; f != nil {
		return f
	}
	if o := obj.Origin(); o != obj {
		return w.fnByObj[o]
	}
	return nil
}

func (w *World) lookupNamed(pkgPath, name string) *types.Named {
	p := w.ByPath[pkgPath]
	if p == nil {
		fatalf("package %s not loaded", pkgPath)
	}
	o := p.Types.Scope().Lookup(name)
	if o == nil {
		fatalf("anchor %s.%s not found", pkgPath, name)
	}
	n, ok := o.Type().(*types.Named)
	if !ok {
		fatalf("anchor %s.%s is not a named type", pkgPath, name)
	}
	return n
}

func (w *World) indexAnchors() {
	w.Keeper = w.lookupNamed(keeperPath, "Keeper")
	w.BankKeeper = w.lookupNamed(typesPath, "BankKeeper")
	w.DistrKeeper = w.lookupNamed(typesPath, "DistrKeeper")
	w.Hooks = w.lookupNamed(typesPath, "FundraisingHooks")
	w.AuctionI = w.lookupNamed(typesPath, "AuctionI")
	w.MsgServer = w.lookupNamed(typesPath, "MsgServer")
	w.QueryServer = w.lookupNamed(typesPath, "QueryServer")
	w.BaseAuction = w.lookupNamed(typesPath, "BaseAuction")
	w.CollFields = map[string]*types.Var{}
	st, ok := w.Keeper.Underlying().(*types.Struct)
	if !ok {
		fatalf("keeper.Keeper is not a struct")
	}
	for i := 0; i < st.NumFields(); i++ {
		f := st.Field(i)
		if n := namedOf(f.Type()); n != nil && n.Obj().Pkg() != nil && n.Obj().Pkg().Path() == collPath {
			switch n.Obj().Name() {
			case "Map", "Item", "Sequence", "KeySet", "IndexedMap":
				w.CollFields[f.Name()] = f
			}
		}
	}
	if len(w.CollFields) == 0 {
		fatalf("no collection fields found in keeper.Keeper")
	}
}

func namedOf(t types.Type) *types.Named {
	for {
		switch x := t.(type) {
		case *types.Named:
			return x
		case *types.Pointer:
			t = x.Elem()
		case *types.Alias:
			t = types.Unalias(x)
		default:
			return nil
		}
	}
}

// isNamed reports whether t (possibly behind pointers) is the named type pkg.name.
func isNamed(t types.Type, pkg, name string) bool {
	n := namedOf(t)
	return n != nil && n.Obj().Name() == name && n.Obj().Pkg() != nil && n.Obj().Pkg().Path() == pkg
}

func (w *World) pos(p token.Pos) string {
	if !p.IsValid() {
		return "?"
	}
	ps := w.Fset.Position(p)
	f := ps.Filename
	if strings.HasPrefix(f, w.RepoDir+"/") {
		f = f[len(w.RepoDir)+1:]
	}
	return fmt.Sprintf("%s:%d", f, ps.Line)
}

// instrPos gives the best available source position for an instruction.
func (w *World) instrPos(in ssa.Instruction) string {
	if in == nil {
		return "?"
	}
	if p := in.Pos(); p.IsValid() {
		return w.pos(p)
	}
	if c, ok := in.(ssa.CallInstruction); ok {
		if p := c.Common().Pos(); p.IsValid() {
			return w.pos(p)
		}
	}
	// fall back to the nearest instruction with a position in the same block
	if b := in.Block(); b != nil {
		for _, x := range b.Instrs {
			if x.Pos().IsValid() {
				return w.pos(x.Pos()) + "~"
			}
		}
		return w.pos(b.Parent().Pos()) + "~"
	}
	return "?"
}

// fnName is a stable, human-readable, position-independent function name.
func fnName(fn *ssa.Function) string {
	if fn == nil {
		return "?"
	}
	s := fn.String()
	s = strings.ReplaceAll(s, modPath+"/x/fundraising/", "")
	s = strings.ReplaceAll(s, modPath+"/", "")
	return s
}

// methodsOf returns the method names of a named interface, sorted.
func methodsOf(n *types.Named) []string {
	it, ok := n.Underlying().(*types.Interface)
	if !ok {
		return nil
	}
	var out []string
	for i := 0; i < it.NumMethods(); i++ {
		out = append(out, it.Method(i).Name())
	}
	sort.Strings(out)
	return out
}

// recvNamed returns the named receiver type of a method (nil for functions).
func recvNamed(f *types.Func) *types.Named {
	if f == nil {
		return nil
	}
	sig, ok := f.Type().(*types.Signature)
	if !ok || sig.Recv() == nil {
		return nil
	}
	return namedOf(sig.Recv().Type())
}

// calleeKey gives "pkgpath.Recv.Name" / "pkgpath.Name" for a function object,
// using the generic origin for instantiated methods.
func calleeKey(f *types.Func) string {
	if f == nil {
		return ""
	}
	f = f.Origin()
	pkg := ""
	if f.Pkg() != nil {
		pkg = f.Pkg().Path()
	}
	if r := recvNamed(f); r != nil {
		return pkg + "." + r.Obj().Name() + "." + f.Name()
	}
	return pkg + "." + f.Name()
}

// staticCalleeObj resolves the *types.Func of a call (static calls, method
// calls, interface invokes). nil for dynamic calls through function values.
func staticCalleeObj(c *ssa.CallCommon) *types.Func {
	if c.IsInvoke() {
		return c.Method
	}
	switch v := c.Value.(type) {
	case *ssa.Function:
		if o, ok := v.Object().(*types.Func); ok {
			return o
		}
		if v.Origin() != nil {
			if o, ok := v.Origin().Object().(*types.Func); ok {
				return o
			}
		}
	case *ssa.MakeClosure:
		if fn, ok := v.Fn.(*ssa.Function); ok {
			if o, ok := fn.Object().(*types.Func); ok {
				return o
			}
		}
	}
	return nil
}

// callKey is calleeKey of the resolved callee of a call instruction; for an
// interface invoke it is "ifacepkg.Iface.Method".
func callKey(c *ssa.CallCommon) string {
	if c.IsInvoke() {
		if n := namedOf(c.Value.Type()); n != nil && n.Obj().Pkg() != nil {
			return n.Obj().Pkg().Path() + "." + n.Obj().Name() + "." + c.Method.Name()
		}
		return calleeKey(c.Method)
	}
	if o := staticCalleeObj(c); o != nil {
		return calleeKey(o)
	}
	if b, ok := c.Value.(*ssa.Builtin); ok {
		return "builtin." + b.Name()
	}
	return ""
}
