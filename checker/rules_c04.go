package main

// C04 — one uniform price, never above the limit, rounding in the auctioneer's favour.
//   RD-DIR       every Dec→Int money excursion has the direction its role requires
//   RD-SIB       sibling excursions of one role have the same operator skeleton
//   UNI-PRICE    payment and quantity of every matched bid use the one match-price parameter
//   INCL-GUARD   a price level is processed only if its price ≥ the match price
//   REFUND-PROV  refund = (reservation rebuilt over all of the bidder's bids) − payment; full reservation for non-winners

import (
	"fmt"
	"go/types"
	"sort"
	"strings"

	"golang.org/x/tools/go/ssa"
)

func init() { register("C04", checkC04) }

// loadedFieldName: v is a load of (or the value of) a struct field; returns the field's name.
func loadedFieldName(v ssa.Value) string {
	switch x := v.(type) {
	case *ssa.UnOp:
		if fa, ok := x.X.(*ssa.FieldAddr); ok {
			if st := structOf(fa.X.Type()); st != nil {
				return st.Field(fa.Field).Name()
			}
		}
	case *ssa.Field:
		if st := structOf(x.X.Type()); st != nil {
			return st.Field(x.Field).Name()
		}
	}
	return ""
}

func funcObj(fn *ssa.Function) *types.Func {
	if o, ok := fn.Object().(*types.Func); ok {
		return o
	}
	return nil
}

// excursion: one Dec→Int conversion site. The arithmetic is described in every calling context in which the site is
// reached from the module's API (so that operands handed in through helper parameters are what the callers pass) and,
// for code no API function reaches, on its own.
type excursion struct {
	fn   *ssa.Function
	in   *ssa.Call
	t    *Term // first context
	dir  Dir
	skel string
	role string
	alts []exCtx
}

type exCtx struct {
	root *ssa.Function // the API function (or the function itself) from which the site was reached
	t    *Term
	dir  Dir
	skel string
	role string
}

func excursionRole(skel string) string {
	switch {
	case strings.Contains(skel, "WEIGHT"):
		return "vest-share"
	case strings.Contains(skel, "Quo"):
		return "quantity" // paying → selling: what a bidder is given
	case strings.Contains(skel, "Mul"):
		return "payment" // selling → paying: what a bidder is charged
	}
	return "other"
}

func isDecToInt(in ssa.Instruction) (*ssa.Call, bool) {
	c, ok := in.(*ssa.Call)
	if !ok {
		return nil, false
	}
	switch callKey(&c.Call) {
	case mathPath + ".LegacyDec.TruncateInt", mathPath + ".LegacyDec.RoundInt", mathPath + ".LegacyDec.TruncateInt64", mathPath + ".LegacyDec.RoundInt64":
		return c, true
	}
	return nil, false
}

// bidConverters: the methods of types.Bid with the signature (denom string) math.Int.
func bidConverters(w *World) []*ssa.Function {
	bidT := w.lookupNamed(typesPath, "Bid")
	var out []*ssa.Function
	for _, fn := range w.Funcs {
		obj := funcObj(fn)
		if obj == nil || recvNamed(obj) != bidT || fn.Parent() != nil {
			continue
		}
		sig := fn.Signature
		if sig.Params().Len() == 1 && sig.Results().Len() == 1 && isNamed(sig.Results().At(0).Type(), mathPath, "Int") {
			if b, ok := sig.Params().At(0).Type().Underlying().(*types.Basic); ok && b.Kind() == types.String {
				out = append(out, fn)
			}
		}
	}
	return out
}

// moneyExcursions: every Dec→Int conversion in the non-generated, non-simulation repository code.
func moneyExcursions(w *World, tm *Terms) []excursion {
	byIn := map[*ssa.Call]*excursion{}
	var order []*ssa.Call
	add := func(root *ssa.Function, fr *Frame, c *ssa.Call) {
		t := tm.Of(fr, c)
		x := exCtx{root: root, t: t, dir: dirOf(t), skel: skeleton(t)}
		x.role = excursionRole(x.skel)
		e := byIn[c]
		if e == nil {
			e = &excursion{fn: c.Parent(), in: c, t: t, dir: x.dir, skel: x.skel, role: x.role}
			byIn[c] = e
			order = append(order, c)
		}
		for _, y := range e.alts {
			if y.root == root && y.t.Key() == t.Key() {
				return
			}
		}
		e.alts = append(e.alts, x)
	}
	inScope := func(fn *ssa.Function) bool {
		p := pkgOf(fn)
		return p != nil && (p.Path() == typesPath || p.Path() == keeperPath) && !w.isGenerated(fn)
	}
	roots := append(w.apiRoots(), bidConverters(w)...)
	for _, root := range roots {
		root := root
		tm.walkContexts([]*ssa.Function{root}, func(fr *Frame, in ssa.Instruction) {
			if c, ok := isDecToInt(in); ok && inScope(fr.Fn) {
				add(root, fr, c)
			}
		})
	}
	// code not reached from the API is described on its own
	for _, fn := range w.Funcs {
		if !inScope(fn) {
			continue
		}
		for _, b := range fn.Blocks {
			for _, in := range b.Instrs {
				if c, ok := isDecToInt(in); ok && byIn[c] == nil {
					add(fn, tm.Root(fn), c)
				}
			}
		}
	}
	var out []excursion
	for _, c := range order {
		out = append(out, *byIn[c])
	}
	sort.Slice(out, func(i, j int) bool {
		if out[i].fn.String() != out[j].fn.String() {
			return out[i].fn.String() < out[j].fn.String()
		}
		return out[i].in.Pos() < out[j].in.Pos()
	})
	return out
}

// convPayingSkeleton: the operator skeleton of the bid type's own to-paying conversion — the payment excursion reached
// from one of the Bid converter methods (wherever the arithmetic itself is written).
func convPayingSkeleton(w *World, exs []excursion) string {
	conv := map[*ssa.Function]bool{}
	for _, f := range bidConverters(w) {
		conv[f] = true
	}
	for _, e := range exs {
		for _, x := range e.alts {
			if conv[x.root] && x.role == "payment" {
				return x.skel
			}
		}
	}
	return ""
}

func checkC04(w *World, r *Report) {
	r.Explanation = "Decides: (RD-DIR) every Dec→Int conversion in the module is classified by its operator skeleton — division by a price (paying→selling: a quantity given to a bidder) must round FLOOR, multiplication by a price (selling→paying: an amount charged) must round CEIL or be a difference of two ceilings, a weight share must round FLOOR — using an operator table over the resolved cosmossdk.io/math callees (Mul with an integer-valued operand and MulInt are exact at 18 decimals; Quo/Mul of two non-integers round to nearest; QuoTruncate/MulTruncate/TruncateInt floor; Ceil ceils); (RD-SIB) the two ceilings of the modification difference and the reservation rebuilt at settlement have exactly the operator skeleton of the bid's own to-paying conversion, so charged differences telescope to the ceiling of the final terms; (UNI-PRICE) in the matching routine the multiplier of every payment and the divisor of every quantity is the one match-price parameter, which is also what the result publishes; (INCL-GUARD) evaluating the routine with 'level price < match price' makes every accumulation unreachable; (REFUND-PROV) the refund stored for a matched bidder is reservation[bidder] − payment[bidder] with the reservation accumulated by the to-paying conversion over the auction's complete bid list, and bidders without a match get the whole reservation."
	r.NotDecided = "the tight bounds (< 1 unit per matched bid) and the lower bound price×quantity as numbers; non-terminating ratios."
	r.Rule("RD-DIR", "rounding direction per role", 3)
	r.Rule("RD-SIB", "sibling excursions share their operator skeleton", 1)
	r.Rule("UNI-PRICE", "one match price for payment and quantity of every bid", 1)
	r.Rule("INCL-GUARD", "levels below the match price are not matched", 2)
	r.Rule("REFUND-PROV", "refund = full reservation − payment", 2)
	tm := NewTerms(w)
	tree := settlementTree(w)

	// ---------------------------------------------------------------- RD-DIR
	exs := moneyExcursions(w, tm)
	seenN := map[string]int{}
	var convPaying string // skeleton of the to-paying conversion (declared on the bid type)
	for _, e := range exs {
		if e.role == "vest-share" {
			continue // how the proceeds are split over instalments is C09's (VEST-SHARE); it moves nothing between bidders and auctioneer
		}
		base := fmt.Sprintf("%s:%s", fnName(e.fn), e.role)
		seenN[base]++
		construct := fmt.Sprintf("%s#%d", base, seenN[base])
		what := fmt.Sprintf("%s excursion %s in %s rounds in the required direction", e.role, e.skel, fnName(e.fn))
		var bad []string
		for _, x := range e.alts {
			switch x.role {
			case "quantity", "vest-share":
				if !(x.dir == DFloor || x.dir == DExact) {
					bad = append(bad, fmt.Sprintf("%s: direction is %s: a bidder can be given more selling coin than the paying amount buys (or instalments can exceed the proceeds)", x.skel, x.dir))
				}
			case "payment":
				if !(x.dir == DCeil || x.dir == DCeilDiff || x.dir == DExact) {
					bad = append(bad, fmt.Sprintf("%s: direction is %s: a bidder can be charged/reserved less than price × quantity, so the escrow cannot cover the payment and rounding no longer favours the auctioneer", x.skel, x.dir))
				}
			default:
				if x.dir == DTop || x.dir == DNearest {
					bad = append(bad, fmt.Sprintf("%s: unclassified Dec→Int conversion with direction %s", x.skel, x.dir))
				}
			}
		}
		r.Check(len(bad) == 0, "RD-DIR", construct, w.instrPos(e.in), what+" ["+e.dir.String()+"]", strings.Join(dedupe(bad), "; "))
	}
	bidT := w.lookupNamed(typesPath, "Bid")
	convPaying = convPayingSkeleton(w, exs)
	if convPaying == "" {
		r.Fail("RD-SIB", "converter", typesPath, "the bid type has a to-paying conversion (anchor)", "no payment excursion declared on types.Bid")
	}
	// ---------------------------------------------------------------- RD-SIB
	strip := func(s string) string { return strings.TrimSuffix(strings.TrimPrefix(s, "TruncateInt("), ")") }
	ms := w.msgServerMethods()
	_ = bidT
	// the extra reservation of a modified how-many bid, described on the path of that bid type from the message handler
	// (wherever the arithmetic is written): ceil(new) − ceil(old), as a difference of Decs or of Ints
	{
		mod := ms["ModifyBid"]
		storedMany := func(x *Explorer, fr *Frame, v ssa.Value) AV {
			if isNamed(v.Type(), typesPath, "BidType") {
				if t := x.TM.Of(fr, v); isField(t, "Type") && fromColl(t, "Bid") {
					return Int(3)
				}
			}
			return Unknown
		}
		var res []TransferInst
		for _, ti := range transfersUnder(w, tm, mod, "Msg.ModifyBid", storedMany) {
			if ti.Method == "SendCoins" {
				res = append(res, ti)
			}
		}
		construct := "ModifyBid:difference-of-ceilings"
		ok, why := distinctSites(res) == 1, fmt.Sprintf("%d reservation transfer sites for a how-many bid", distinctSites(res))
		where := w.pos(mod.Pos())
		for ri := 0; ok && ri < len(res); ri++ {
			where = w.instrPos(res[ri].Site)
			amt := innerAmount(res[ri].Amount)
			var newT, oldT *Term
			switch {
			case amt.Op == "call" && mathName(amt) == "LegacyDec.TruncateInt" && len(amt.Args) == 1 && amt.Args[0].Op == "call" && mathName(amt.Args[0]) == "LegacyDec.Sub" && len(amt.Args[0].Args) == 2:
				newT, oldT = amt.Args[0].Args[0], amt.Args[0].Args[1]
			case amt.Op == "call" && mathName(amt) == "Int.Sub" && len(amt.Args) == 2:
				unwrap := func(t *Term) *Term {
					if t.Op == "call" && mathName(t) == "LegacyDec.TruncateInt" && len(t.Args) == 1 {
						return t.Args[0]
					}
					return t
				}
				newT, oldT = unwrap(amt.Args[0]), unwrap(amt.Args[1])
			default:
				ok, why = false, "the charged amount is not a difference of two conversions: "+skeleton(amt)
			}
			if ok {
				a, b := skeleton(newT), skeleton(oldT)
				want := strip(convPaying)
				if a != want || b != want {
					ok, why = false, fmt.Sprintf("new term %s / old term %s differ from the reservation conversion %s: the sum of charged differences no longer equals the ceiling of the final terms", a, b, want)
				}
				// new term from the message, old term from the stored bid
				if ok && !(containsFieldOfParam(newT, "Coin") && containsFieldOfParam(newT, "Price") && fromColl(oldT, "Bid") && !containsFieldOfParam(oldT, "Price")) {
					ok, why = false, "the difference is not (message terms) − (stored bid terms): "+amt.String()
				}
			}
		}
		r.Check(ok, "RD-SIB", construct, where, "the charged difference is ceil(new amount×new price) − ceil(old amount×old price) with the conversion's own operators", why)
	}

	// ---------------------------------------------------------------- UNI-PRICE / INCL-GUARD
	acc := accumulationSites(w, tree)
	matchFns := map[*ssa.Function]bool{}
	for _, a := range acc {
		matchFns[a.fn] = true
	}
	for _, fn := range sortedFns(matchFns) {
		fr := tm.Root(fn)
		name := fnName(fn)
		var priceParam string
		for _, p := range fn.Params {
			if isNamed(p.Type(), mathPath, "LegacyDec") {
				if priceParam != "" {
					priceParam = "*"
				} else {
					priceParam = p.Name()
				}
			}
		}
		var bad []string
		n := 0
		// the excursions as the matching routine sees them: inside the quantities and payments it accumulates
		// (helpers are inlined by the term engine, so outlining the arithmetic does not change anything)
		var roots []*Term
		seenRoot := map[string]bool{}
		collect := func(t *Term) {
			t.Walk(func(x *Term) bool {
				if isExcursionRoot(x) && !seenRoot[x.Key()] {
					seenRoot[x.Key()] = true
					roots = append(roots, x)
				}
				return true
			})
		}
		for _, b := range fn.Blocks {
			for _, in := range b.Instrs {
				st, ok := in.(*ssa.Store)
				if !ok {
					continue
				}
				fa, ok := st.Addr.(*ssa.FieldAddr)
				if !ok || structOf(fa.X.Type()) == nil {
					continue
				}
				switch structOf(fa.X.Type()).Field(fa.Field).Name() {
				case "MatchedAmount", "PayingAmount":
					if call, ok := st.Val.(*ssa.Call); ok && callKey(&call.Call) == mathPath+".Int.Add" && len(call.Call.Args) == 2 {
						collect(tm.Of(fr, call.Call.Args[1]))
					}
				}
			}
		}
		for _, e := range roots {
			n++
			role := "payment"
			if strings.Contains(skeleton(e), "Quo") {
				role = "quantity"
			}
			var prices []string
			for _, t := range mathLeaves(e) {
				switch {
				case t.Op == "param" && t.V != nil && isNamed(t.V.Type(), mathPath, "LegacyDec"):
					prices = append(prices, "param:"+t.Name)
				case t.Op == "field" && (priceFields[t.Name] || t.Name == "MatchPrice" || t.Name == "MatchedPrice" || (t.V != nil && isNamed(t.V.Type(), mathPath, "LegacyDec"))):
					prices = append(prices, "field:"+t.Name)
				case (t.Op == "elem" || t.Op == "last") && t.V != nil && isNamed(t.V.Type(), mathPath, "LegacyDec"):
					prices = append(prices, "level-price")
				}
			}
			for _, p := range prices {
				if p != "param:"+priceParam {
					bad = append(bad, fmt.Sprintf("a %s (%s) uses %s instead of the match-price parameter %q (pay-as-bid / per-level pricing)", role, skeleton(e), p, priceParam))
				}
			}
			if len(prices) == 0 {
				bad = append(bad, fmt.Sprintf("a %s (%s) uses no price", role, skeleton(e)))
			}
		}
		// the published match price is the parameter: the MatchPrice of every result the routine returns (wherever the
		// result record is built)
		pubOK, nRes := true, 0
		for _, b := range fn.Blocks {
			ret, ok := b.Instrs[len(b.Instrs)-1].(*ssa.Return)
			if !ok || len(ret.Results) == 0 {
				continue
			}
			rt := tm.OperandAt(fr, ret, ret.Results[0])
			for _, alt := range rt.Alts() {
				if alt.Op == "const" {
					continue // nil result
				}
				nRes++
				for _, pt := range recordField(alt, "MatchPrice", false).Alts() {
					if !(pt.Op == "param" && pt.Name == priceParam) {
						pubOK = false
					}
				}
			}
		}
		pubOK = pubOK && nRes > 0
		if !pubOK {
			bad = append(bad, "the result's MatchPrice is not the match-price parameter")
		}
		sort.Strings(bad)
		r.Check(len(bad) == 0 && n >= 2 && priceParam != "" && priceParam != "*", "UNI-PRICE", name, w.pos(fn.Pos()),
			fmt.Sprintf("every payment and quantity in %s is computed with the single price parameter %q, which the result publishes (%d excursions)", name, priceParam, n), strings.Join(dedupe(bad), "; "))

		// INCL-GUARD
		for _, ord := range []int{-1, 1} {
			rule := newOrdRule(w, func(*Effect) bool { return false }, ordPair{ord: ord, match: func(x *Explorer, f *Frame, l, rr *Term) int {
				isLevel := func(t *Term) bool { return t.Op == "elem" && t.V != nil && isNamed(t.V.Type(), mathPath, "LegacyDec") }
				isMP := func(t *Term) bool { return t.Op == "param" && t.Name == priceParam }
				switch {
				case isLevel(l) && isMP(rr):
					return 1
				case isLevel(rr) && isMP(l):
					return -1
				}
				return 0
			}})
			hit := false
			for _, a := range acc {
				if a.fn != fn {
					continue
				}
				hr := &hitRule{ordRule: rule, target: a.st}
				NewExplorer(w, tm, hr).Run(fn, 0)
				hit = hit || hr.hit
			}
			if ord < 0 {
				r.Check(!hit, "INCL-GUARD", name+":below", w.pos(fn.Pos()), "with every level price < match price no bid is matched",
					"bids priced below the clearing price are matched: a bidder pays a price above their own limit")
			} else {
				r.Check(hit, "INCL-GUARD", name+":above", w.pos(fn.Pos()), "with level price > match price bids are matched (anchor)", "no accumulation reachable")
			}
		}
	}

	// ---------------------------------------------------------------- REFUND-PROV
	for _, fn := range sortedFns(tree) {
		fr := tm.Root(fn)
		var ups []*ssa.MapUpdate
		for _, b := range fn.Blocks {
			for _, in := range b.Instrs {
				if mu, ok := in.(*ssa.MapUpdate); ok && (loadedFieldName(mu.Map) == "RefundMap" || isField(tm.Of(fr, mu.Map), "RefundMap")) {
					ups = append(ups, mu)
				}
			}
		}
		if len(ups) == 0 {
			continue
		}
		name := fnName(fn)
		full, net := false, false
		var bad []string
		var reservedMap ssa.Value
		// the reservation of the bidder k: R[k] read as the value of a range over R (k its key) or as a lookup R[k];
		// the payment of k: PayingAmount of the bidder's match result, read the same two ways
		entryOf := func(t, k *Term) *Term { // the map whose entry for k the term t is
			t, k = uncell(t), uncell(k)
			switch {
			case t.Op == "mapval" && k.Op == "mapkey" && len(t.Args) == 1 && len(k.Args) == 1 && t.Args[0].Key() == k.Args[0].Key():
				return t.Args[0]
			case t.Op == "lookup" && len(t.Args) == 2 && uncell(t.Args[1]).Key() == k.Key():
				return t.Args[0]
			}
			return nil
		}
		for _, mu := range ups {
			kt, vt := tm.Of(fr, mu.Key), tm.OperandAt(fr, mu, mu.Value)
			switch {
			case entryOf(vt, kt) != nil && uncell(entryOf(vt, kt)).Op == "makemap":
				full = true
				reservedMap = uncell(entryOf(vt, kt)).V
			case vt.Op == "call" && mathName(vt) == "Int.Sub" && len(vt.Args) == 2:
				res, pay := vt.Args[0], vt.Args[1]
				rm := entryOf(res, kt)
				okRes := rm != nil && uncell(rm).Op == "makemap"
				okPay := isField(pay, "PayingAmount") && entryOf(pay.Args[0], kt) != nil
				if okRes && okPay {
					net = true
					if reservedMap != nil && mapRoot(uncell(rm).V) != mapRoot(reservedMap) {
						bad = append(bad, "the reservation map used for matched bidders differs from the one used for the full refunds")
					}
					if reservedMap == nil {
						reservedMap = uncell(rm).V
					}
				} else {
					bad = append(bad, fmt.Sprintf("refund at %s is %s under key %s: not reservation[bidder] − payment[bidder] of the same bidder", w.instrPos(mu), vt.String(), kt.String()))
				}
			default:
				bad = append(bad, fmt.Sprintf("refund at %s is %s", w.instrPos(mu), vt.String()))
			}
		}
		r.Check(full && net && len(bad) == 0, "REFUND-PROV", name+":refund-map", w.pos(fn.Pos()),
			"every bidder's refund starts as the whole reservation and, for matched bidders, becomes reservation − payment of that bidder",
			strings.Join(bad, "; ")+map[bool]string{true: "", false: " (no full-reservation initialisation: a bidder who wins nothing is not refunded)"}[full]+map[bool]string{true: "", false: " (no reservation−payment write)"}[net])
		// the reservation map: accumulated over the complete bid list with the to-paying conversion
		if reservedMap != nil {
			ks, vs := mapUpdatesOf(tm, fr, reservedMap)
			ok, why := len(ks) > 0, "no update of the reservation map"
			for i := range ks {
				k, v := ks[i], vs[i]
				if !(isField(k, "Bidder") && k.Args[0].Op == "elem" && fromColl(k.Args[0], "Bid") && !k.Args[0].Any(func(t *Term) bool { return isField(t, "MatchedBids") })) {
					ok, why = false, "the reservation is keyed by "+k.String()+", not by the bidder of each bid of the auction's complete bid list"
					continue
				}
				if v.Op == "call" && strings.HasSuffix(v.Name, ".ZeroInt") {
					continue // the entry's initial value
				}
				if !(v.Op == "call" && mathName(v) == "Int.Add" && len(v.Args) == 2) {
					ok, why = false, "the reservation is not accumulated: "+v.String()
					continue
				}
				conv := v.Args[1]
				if skeleton(conv) != "{AMT|"+convPaying+"}" && skeleton(conv) != "{"+convPaying+"|AMT}" {
					ok, why = false, fmt.Sprintf("the reservation is rebuilt with %s but bids were reserved with {AMT|%s}", skeleton(conv), convPaying)
				}
				if !conv.Any(func(t *Term) bool { return t.Key() == k.Args[0].Key() }) {
					ok, why = false, "the amount added does not belong to the bid whose bidder keys it"
				}
			}
			r.Check(ok, "REFUND-PROV", name+":reservation-rebuilt", w.pos(fn.Pos()),
				"the reservation used for refunds is Σ to-paying conversion over every bid of the auction's complete bid list, per bidder", why)
			r.Note("direction argument (not a separate obligation): reservation = ceil(bid price × bid qty) ≥ ceil(match price × matched qty) = payment, because match price ≤ bid price (INCL-GUARD) and matched qty ≤ bid qty (CAP-MIN; quantities round FLOOR), hence refund ≥ 0 and nobody pays more than they reserved")
		}
	}
}
