package main

// C14 — replay determinism.
//   MAP-ORDER   iteration over an unordered container may not leak its order into effects, exits or values
//   NONDET-API  no wall clock, randomness, environment, goroutines or floating point in consensus code

import (
	"fmt"
	"go/token"
	"go/types"
	"sort"
	"strings"

	"golang.org/x/tools/go/ssa"
)

func init() { register("C14", checkC14) }

func consensusScope(w *World) map[*ssa.Function]bool {
	var roots []*ssa.Function
	ms := w.msgServerMethods()
	for _, k := range sortedKeys(ms) {
		roots = append(roots, ms[k])
	}
	roots = append(roots, w.beginBlockFn())
	if f := w.methodOf(w.moduleType(), "EndBlock"); f != nil {
		roots = append(roots, f)
	}
	ig, eg := w.genesisFns()
	roots = append(roots, ig, eg)
	// listener registration order is consensus relevant: the function of the module package taking the listener map
	for _, fn := range w.Funcs {
		if pkgOf(fn) == nil || pkgOf(fn).Path() != modulePath || fn.Parent() != nil {
			continue
		}
		for _, p := range fn.Params {
			if m, ok := p.Type().Underlying().(*types.Map); ok && namedOf(m.Elem()) == w.Hooks {
				roots = append(roots, fn)
			}
		}
	}
	return w.reachableFrom(roots...)
}

var sortCalls = map[string]bool{
	"sort.Strings": true, "sort.Ints": true, "sort.Float64s": true, "sort.Slice": true, "sort.SliceStable": true, "sort.Sort": true, "sort.Stable": true,
	"slices.Sort": true, "slices.SortFunc": true, "slices.SortStableFunc": true,
	"golang.org/x/exp/slices.Sort": true, "golang.org/x/exp/slices.SortFunc": true, "golang.org/x/exp/slices.SortStableFunc": true,
}

var commutativeMethods = map[string]bool{
	mathPath + ".Int.Add": true, mathPath + ".LegacyDec.Add": true, mathPath + ".Uint.Add": true,
	sdkPath + ".Coins.Add": true, sdkPath + ".Coin.Add": true, sdkPath + ".DecCoins.Add": true,
	mathPath + ".Int.Mul": true, mathPath + ".Int.AddRaw": true,
}

func checkC14(w *World, r *Report) {
	r.Explanation = "Decides, for every function reachable from the message handlers, the block hooks, genesis import/export and listener registration: (MAP-ORDER) every `range` over a map and every maps.Keys/Values call is order-insensitive: the loop body performs no store write, transfer, hook, event or early exit; loop-carried values are commutative accumulations; writes go to other maps under a key derived from the loop key; slices that collect elements in iteration order are sorted (the sort call dominates every other use) before they are used; (NONDET-API) no wall-clock time (except as a telemetry argument), math/rand, environment access, goroutine, select or floating-point arithmetic."
	r.NotDecided = "determinism of dependencies (bank, collections, cometbft); cross-version stability of sort.Slice under the non-strict comparator of SortBids (within one binary the result is a function of the input)."
	r.Rule("MAP-ORDER", "iteration order of unordered containers does not reach effects, exits or values", 2)
	r.Rule("NONDET-API", "no nondeterministic API in consensus code", 20)
	scope := consensusScope(w)
	tm := NewTerms(w)
	for _, fn := range sortedFns(scope) {
		checkMapOrderFn(w, r, tm, fn)
		checkNondetFn(w, r, fn)
	}
}

// effectful: the instruction (or a repository callee, transitively) changes state or emits.
func (w *World) effectful(in ssa.Instruction, seen map[*ssa.Function]bool) (bool, string) {
	if e := w.EffectOf(in); e != nil {
		switch e.Kind {
		case EffTransfer, EffFee, EffStoreWrite, EffHook, EffEvent:
			return true, fmt.Sprintf("%s %s%s at %s", e.Kind, e.Coll, "."+e.Method, w.instrPos(in))
		}
	}
	if c, ok := in.(ssa.CallInstruction); ok {
		var fns []*ssa.Function
		if f := w.calleeBody(c.Common()); f != nil {
			fns = append(fns, f)
		}
		for _, a := range c.Common().Args {
			if mc, ok := a.(*ssa.MakeClosure); ok {
				fns = append(fns, mc.Fn.(*ssa.Function))
			}
		}
		for _, f := range fns {
			if seen[f] {
				continue
			}
			seen[f] = true
			for _, b := range f.Blocks {
				for _, x := range b.Instrs {
					if ok, why := w.effectful(x, seen); ok {
						return true, why
					}
				}
			}
		}
	}
	return false, ""
}

func checkMapOrderFn(w *World, r *Report, tm *Terms, fn *ssa.Function) {
	fi := fnInfo(fn)
	fr := tm.Root(fn)
	n := 0
	for _, b := range fn.Blocks {
		for _, in := range b.Instrs {
			switch x := in.(type) {
			case *ssa.Range:
				if _, ok := x.X.Type().Underlying().(*types.Map); !ok {
					continue
				}
				n++
				construct := fmt.Sprintf("%s:range#%d:%s", fnName(fn), n, shortTermName(tm.Of(fr, x.X)))
				what := fmt.Sprintf("the loop over map %s in %s is insensitive to iteration order", tm.Of(fr, x.X).String(), fnName(fn))
				// find the loop: header contains Next(x)
				var loop *Loop
				var next *ssa.Next
				for _, l := range fi.Loops {
					for _, hin := range l.Header.Instrs {
						if nx, ok := hin.(*ssa.Next); ok && nx.Iter == ssa.Value(x) {
							loop, next = l, nx
						}
					}
				}
				if loop == nil {
					r.Fail("MAP-ORDER", construct, w.instrPos(in), what, "cannot find the loop of this range (iterator used outside a simple loop)")
					continue
				}
				bad := mapLoopProblems(w, tm, fn, fr, loop, x, next)
				r.Check(len(bad) == 0, "MAP-ORDER", construct, w.instrPos(in), what, strings.Join(bad, "; "))
			case *ssa.Call:
				k := callKey(&x.Call)
				if k == "golang.org/x/exp/maps.Keys" || k == "golang.org/x/exp/maps.Values" || k == "maps.Keys" || k == "maps.Values" {
					n++
					construct := fmt.Sprintf("%s:%s#%d", fnName(fn), k[strings.LastIndex(k, "/")+1:], n)
					what := fmt.Sprintf("the unordered result of %s in %s is sorted before any other use", k, fnName(fn))
					bad := unsortedUses(w, fn, x, nil)
					r.Check(len(bad) == 0, "MAP-ORDER", construct, w.instrPos(in), what, strings.Join(bad, "; "))
				}
			}
		}
	}
}

func shortTermName(t *Term) string {
	s := t.Key()
	if i := strings.LastIndex(s, "field<"); i >= 0 {
		j := strings.Index(s[i:], ">")
		return s[i+6 : i+j]
	}
	switch t.Op {
	case "makemap":
		return "local-map"
	case "param":
		return "param-" + t.Name
	case "cell", "phi":
		return "local-map"
	}
	if len(s) > 30 {
		s = s[:30]
	}
	return s
}

// unsortedUses: uses of slice value v (outside loop, if given) that are not a sort call and not dominated by one.
func unsortedUses(w *World, fn *ssa.Function, v ssa.Value, loop *Loop) []string {
	refs := v.Referrers()
	if refs == nil {
		return nil
	}
	var sorts []ssa.Instruction
	var others []ssa.Instruction
	for _, u := range *refs {
		if loop != nil && loop.Blocks[u.Block()] {
			continue
		}
		if _, ok := u.(*ssa.DebugRef); ok {
			continue
		}
		if c, ok := u.(ssa.CallInstruction); ok && sortCalls[callKey(c.Common())] && len(c.Common().Args) > 0 && c.Common().Args[0] == v {
			sorts = append(sorts, u)
			continue
		}
		// a phi that merely carries the value on: follow it
		if ph, ok := u.(*ssa.Phi); ok {
			if loop == nil || !loop.Blocks[ph.Block()] {
				for _, s := range unsortedUses(w, fn, ph, loop) {
					others = append(others, nil)
					_ = s
				}
			}
			continue
		}
		others = append(others, u)
	}
	var bad []string
	for _, u := range others {
		if u == nil {
			bad = append(bad, "the value flows on through a phi to an unsorted use")
			continue
		}
		dominated := false
		for _, s := range sorts {
			if instrDominates(s, u) {
				dominated = true
			}
		}
		if !dominated {
			bad = append(bad, fmt.Sprintf("used at %s without a dominating sort: the element order is the map's iteration order", w.instrPos(u)))
		}
	}
	sort.Strings(bad)
	return dedupe(bad)
}

func mapLoopProblems(w *World, tm *Terms, fn *ssa.Function, fr *Frame, loop *Loop, rng *ssa.Range, next *ssa.Next) []string {
	var bad []string
	inLoop := func(in ssa.Instruction) bool { return loop.Blocks[in.Block()] }
	// the loop key / value
	isKeyDerived := func(t *Term) bool {
		return t.Any(func(x *Term) bool { return x.Op == "mapkey" && x.V == ssa.Value(next) })
	}
	// 1. effects
	for b := range loop.Blocks {
		for _, in := range b.Instrs {
			if ok, why := w.effectful(in, map[*ssa.Function]bool{}); ok {
				bad = append(bad, "the loop body performs "+why+": transfers/writes/events happen in map iteration order")
			}
		}
	}
	// 2. early exits
	for b := range loop.Blocks {
		for _, s := range b.Succs {
			if !loop.Blocks[s] && b != loop.Header {
				bad = append(bad, fmt.Sprintf("the loop is left early at %s: which element triggers the exit depends on iteration order", w.instrPos(b.Instrs[len(b.Instrs)-1])))
			}
		}
		if _, ok := b.Instrs[len(b.Instrs)-1].(*ssa.Return); ok {
			bad = append(bad, fmt.Sprintf("return inside the loop at %s", w.instrPos(b.Instrs[len(b.Instrs)-1])))
		}
	}
	// 3. loop-carried values
	for _, in := range loop.Header.Instrs {
		ph, ok := in.(*ssa.Phi)
		if !ok {
			break
		}
		kind, why := classifyCarried(ph, loop)
		switch kind {
		case "accumulator", "invariant":
		case "counter":
			// uses of the counter inside the loop: only as an index of a slice store (checked below) or its own increment
		case "ordered-slice":
			for _, p := range unsortedUses(w, fn, ph, loop) {
				bad = append(bad, "slice "+ph.Comment+" collects elements in iteration order and is "+p)
			}
		default:
			bad = append(bad, fmt.Sprintf("loop-carried value %s (%s) is order dependent: %s", ph.Name(), ph.Comment, why))
		}
	}
	// 4. stores
	for b := range loop.Blocks {
		for _, in := range b.Instrs {
			switch x := in.(type) {
			case *ssa.MapUpdate:
				if mapRoot(x.Map) == mapRoot(rng.X) {
					bad = append(bad, fmt.Sprintf("the map being ranged over is updated inside the loop at %s", w.instrPos(in)))
					continue
				}
				if !isKeyDerived(tm.Of(fr, x.Key)) {
					bad = append(bad, fmt.Sprintf("map write at %s uses a key that is not derived from the loop key: the last iteration wins", w.instrPos(in)))
				}
			case *ssa.Store:
				root, _ := addrRoot(x.Addr)
				switch rt := root.(type) {
				case *ssa.Alloc:
					if inLoop(rt) || allRefsInLoop(rt, loop) {
						continue // per-iteration temporary (declared inside the loop, or only ever touched inside it)
					}
					if accumulatesInto(x) {
						continue // v.f = v.f.Add(...): commutative accumulation through memory
					}
					if rt2, ok := x.Addr.(*ssa.Alloc); ok && appendsInto(x) {
						// v = append(v, …): a slice collecting elements in iteration order through memory — fine if every
						// use after the loop is behind a sort of it
						for _, p := range unsortedAllocUses(w, fn, rt2, loop) {
							bad = append(bad, "slice "+rt2.Comment+" collects elements in iteration order and is "+p)
						}
						continue
					}
					bad = append(bad, fmt.Sprintf("store to the outer variable %s at %s inside the loop", rt.Comment, w.instrPos(in)))
				default:
					// element store into a slice: the slice becomes order carrying
					if ia, ok := x.Addr.(*ssa.IndexAddr); ok {
						for _, p := range unsortedUses(w, fn, ia.X, loop) {
							bad = append(bad, "slice written by index in iteration order at "+w.instrPos(in)+" is "+p)
						}
						continue
					}
					if rin, ok := root.(ssa.Instruction); ok && inLoop(rin) {
						continue
					}
					bad = append(bad, fmt.Sprintf("store through %s at %s inside the loop", root.Name(), w.instrPos(in)))
				}
			}
		}
	}
	sort.Strings(bad)
	return dedupe(bad)
}

// accumulatesInto: *addr = op(*addr, x) with a commutative, associative op.
// appendsInto: *p = append(*p, …).
func appendsInto(st *ssa.Store) bool {
	c, ok := st.Val.(*ssa.Call)
	if !ok {
		return false
	}
	b, ok := c.Call.Value.(*ssa.Builtin)
	if !ok || b.Name() != "append" || len(c.Call.Args) < 1 {
		return false
	}
	u, ok := c.Call.Args[0].(*ssa.UnOp)
	return ok && u.Op == token.MUL && sameValue(u.X, st.Addr)
}

// unsortedAllocUses: reads of the variable outside the loop that are not behind a sort of it. A sort is a call of one
// of the sort functions on a load of the variable; a closure capturing the variable (the comparator of that sort)
// is part of the sort.
func unsortedAllocUses(w *World, fn *ssa.Function, al *ssa.Alloc, loop *Loop) []string {
	refs := al.Referrers()
	if refs == nil {
		return nil
	}
	var sorts, others []ssa.Instruction
	for _, u := range *refs {
		if loop.Blocks[u.Block()] {
			continue
		}
		switch x := u.(type) {
		case *ssa.DebugRef, *ssa.MakeClosure:
			continue
		case *ssa.Store:
			if x.Addr == ssa.Value(al) {
				continue // (re)initialisation
			}
			others = append(others, u)
		case *ssa.UnOp:
			// a load: how is the loaded value used?
			isSort := false
			var viaIface func(v ssa.Value, depth int)
			viaIface = func(v ssa.Value, depth int) {
				lr := v.Referrers()
				if lr == nil || depth > 2 {
					return
				}
				for _, lu := range *lr {
					if c, ok := lu.(ssa.CallInstruction); ok && sortCalls[callKey(c.Common())] && len(c.Common().Args) > 0 && c.Common().Args[0] == v {
						isSort = true
						sorts = append(sorts, lu)
					}
					// sort.Slice takes an `any`: the slice wrapped in an interface
					if mi, ok := lu.(*ssa.MakeInterface); ok {
						viaIface(mi, depth+1)
					}
				}
			}
			viaIface(x, 0)
			if !isSort {
				others = append(others, u)
			}
		default:
			others = append(others, u)
		}
	}
	var bad []string
	for _, u := range others {
		dominated := false
		for _, s := range sorts {
			if instrDominates(s, u) {
				dominated = true
			}
		}
		if !dominated {
			bad = append(bad, fmt.Sprintf("used at %s without a dominating sort: the element order is the map's iteration order", w.instrPos(u)))
		}
	}
	sort.Strings(bad)
	return dedupe(bad)
}

func accumulatesInto(st *ssa.Store) bool {
	isSelfLoad := func(v ssa.Value) bool {
		u, ok := v.(*ssa.UnOp)
		return ok && u.Op == token.MUL && sameValue(u.X, st.Addr)
	}
	switch x := st.Val.(type) {
	case *ssa.BinOp:
		switch x.Op {
		case token.ADD, token.MUL, token.OR, token.AND, token.XOR:
			if b, ok := x.Type().Underlying().(*types.Basic); ok && b.Info()&types.IsString != 0 {
				return false
			}
			return isSelfLoad(x.X) || isSelfLoad(x.Y)
		}
	case *ssa.Call:
		if commutativeMethods[callKey(&x.Call)] {
			for _, a := range x.Call.Args {
				if isSelfLoad(a) {
					return true
				}
			}
		}
	}
	return false
}

// allRefsInLoop: every instruction that touches the variable (directly or through field addresses) is inside the loop.
func allRefsInLoop(a *ssa.Alloc, loop *Loop) bool {
	ok := true
	var visit func(v ssa.Value)
	visit = func(v ssa.Value) {
		refs := v.Referrers()
		if refs == nil {
			return
		}
		for _, u := range *refs {
			if _, isDbg := u.(*ssa.DebugRef); isDbg {
				continue
			}
			if !loop.Blocks[u.Block()] {
				ok = false
			}
			switch x := u.(type) {
			case *ssa.FieldAddr:
				visit(x)
			case *ssa.IndexAddr:
				visit(x)
			}
		}
	}
	visit(a)
	return ok
}

func mapRoot(v ssa.Value) ssa.Value {
	for {
		switch x := v.(type) {
		case *ssa.ChangeType:
			v = x.X
		case *ssa.MakeInterface:
			v = x.X
		default:
			return v
		}
	}
}

// classifyCarried classifies a header phi by how the loop updates it.
func classifyCarried(ph *ssa.Phi, loop *Loop) (string, string) {
	// leaves of the back-edge values, looking through inner phis
	kind := ""
	seen := map[ssa.Value]bool{}
	var visit func(v ssa.Value) (string, string)
	visit = func(v ssa.Value) (string, string) {
		if v == ssa.Value(ph) {
			return "self", ""
		}
		if seen[v] {
			return "self", ""
		}
		seen[v] = true
		if in, ok := v.(ssa.Instruction); ok && !loop.Blocks[in.Block()] {
			return "outer", "" // defined before the loop
		}
		switch x := v.(type) {
		case *ssa.Const, *ssa.Parameter, *ssa.FreeVar, *ssa.Global:
			return "outer", ""
		case *ssa.Phi:
			res := "self"
			for _, e := range x.Edges {
				k, why := visit(e)
				switch k {
				case "self", "outer":
				case "":
					return "", why
				default:
					if res != "self" && res != k {
						return "", "mixed update kinds"
					}
					res = k
				}
			}
			return res, ""
		case *ssa.BinOp:
			usesSelf := func(o ssa.Value) bool { k, _ := visit(o); return k == "self" }
			switch x.Op {
			case token.ADD, token.MUL, token.OR, token.AND, token.XOR:
				if _, isStr := x.Type().Underlying().(*types.Basic); isStr && x.Type().Underlying().(*types.Basic).Info()&types.IsString != 0 {
					return "", "string concatenation in iteration order"
				}
				if usesSelf(x.X) || usesSelf(x.Y) {
					if c, ok := x.Y.(*ssa.Const); ok && x.Op == token.ADD && c.Value != nil && c.Value.ExactString() == "1" {
						return "counter", ""
					}
					return "accumulator", ""
				}
			}
			return "", fmt.Sprintf("updated by %s", x.Op)
		case *ssa.Call:
			k := callKey(&x.Call)
			if b, ok := x.Call.Value.(*ssa.Builtin); ok && b.Name() == "append" {
				if kk, _ := visit(x.Call.Args[0]); kk == "self" || kk == "ordered-slice" {
					return "ordered-slice", ""
				}
				return "", "append to a different slice"
			}
			if commutativeMethods[k] {
				for _, a := range x.Call.Args {
					if kk, _ := visit(a); kk == "self" || kk == "accumulator" {
						return "accumulator", ""
					}
				}
			}
			return "", "updated by " + shorten(k)
		}
		return "", fmt.Sprintf("updated by %T", v)
	}
	for i, e := range ph.Edges {
		if !loop.Blocks[ph.Block().Preds[i]] {
			continue // entry edge
		}
		k, why := visit(e)
		switch k {
		case "self", "outer":
			if kind == "" {
				kind = "invariant"
			}
		case "":
			return "", why
		default:
			if kind != "" && kind != "invariant" && kind != k {
				return "", "mixed update kinds"
			}
			kind = k
		}
	}
	if kind == "" {
		kind = "invariant"
	}
	return kind, ""
}

// ---------------------------------------------------------------- NONDET-API

func checkNondetFn(w *World, r *Report, fn *ssa.Function) {
	bad := map[string]string{}
	for _, b := range fn.Blocks {
		for _, in := range b.Instrs {
			switch x := in.(type) {
			case *ssa.Go:
				bad["go"] = "goroutine started at " + w.instrPos(in)
			case *ssa.Select:
				bad["select"] = "select at " + w.instrPos(in)
			case *ssa.BinOp:
				if isFloat(x.X.Type()) || isFloat(x.Y.Type()) {
					bad["float"] = "floating point arithmetic at " + w.instrPos(in)
				}
			case *ssa.Convert:
				if isFloat(x.Type()) || isFloat(x.X.Type()) {
					bad["float"] = "floating point conversion at " + w.instrPos(in)
				}
			case ssa.CallInstruction:
				k := callKey(x.Common())
				switch {
				case k == "time.Now":
					if !onlyTelemetry(x) {
						bad["time.Now"] = "wall-clock time read at " + w.instrPos(in) + " and used for something other than a telemetry argument"
					}
				case strings.HasPrefix(k, "math/rand.") || strings.HasPrefix(k, "math/rand/v2.") || strings.HasPrefix(k, "crypto/rand."):
					bad["rand"] = "randomness (" + k + ") at " + w.instrPos(in)
				case k == "os.Getenv" || k == "os.LookupEnv" || k == "os.Environ" || k == "os.Hostname" || k == "os.Getpid" || k == "runtime.NumGoroutine" || k == "runtime.NumCPU":
					bad["env"] = "process environment (" + k + ") at " + w.instrPos(in)
				case strings.HasPrefix(k, "fmt.Sprint") || strings.HasPrefix(k, "fmt.Errorf"):
					// formatting a map prints in sorted key order since Go 1.12: deterministic
				}
			}
		}
	}
	keys := sortedKeys(bad)
	if len(keys) == 0 {
		r.Pass("NONDET-API", fnName(fn), w.pos(fn.Pos()), "no nondeterministic API in "+fnName(fn))
		return
	}
	for _, k := range keys {
		r.Fail("NONDET-API", fnName(fn)+":"+k, w.pos(fn.Pos()), "no nondeterministic API in "+fnName(fn), bad[k])
	}
}

func isFloat(t types.Type) bool {
	b, ok := t.Underlying().(*types.Basic)
	return ok && b.Info()&types.IsFloat != 0
}

// onlyTelemetry: the result of the call is used only as an argument of calls into the telemetry package.
func onlyTelemetry(c ssa.CallInstruction) bool {
	v, ok := c.(ssa.Value)
	if !ok {
		return false
	}
	refs := v.Referrers()
	if refs == nil {
		return true
	}
	for _, u := range *refs {
		switch x := u.(type) {
		case *ssa.DebugRef:
		case ssa.CallInstruction:
			if !strings.HasPrefix(callKey(x.Common()), "github.com/cosmos/cosmos-sdk/telemetry.") {
				return false
			}
		default:
			return false
		}
	}
	return true
}
