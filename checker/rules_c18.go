package main

// C18 — messages accepted exactly under documented preconditions (the "only if" direction and the rollback precondition).
//   MSG-PROP     a failing callee fails the handler (the SDK then discards the message's writes)
//   MSG-GUARD    the stateful preconditions not already decided under another property (Appendix A: P1,P3,P4,A2,A4,U1,U2,L2–L6)
//   VB-PRESENT   every message but the authority-gated one has a ValidateBasic that rejects non-positive prices / amounts
//   + the guard rules of C05, C06, C08, C10, C11, C12, C13 evaluated again here

import (
	"fmt"
	"os"
	"sort"
	"strings"

	"golang.org/x/tools/go/ssa"
)

func init() { register("C18", checkC18) }

// parseErr matches the error of parsing an address taken from the given message field.
func parseErr(field string) func(x *Explorer, fr *Frame, c ssa.CallInstruction) bool {
	return func(x *Explorer, fr *Frame, c ssa.CallInstruction) bool {
		k := callKey(c.Common())
		if !(strings.HasSuffix(k, ".AccAddressFromBech32") || strings.HasSuffix(k, "address.Codec.StringToBytes")) {
			return false
		}
		args := c.Common().Args
		return len(args) > 0 && containsFieldOfParam(x.TM.OperandAt(fr, c, args[len(args)-1]), field)
	}
}

// errReplaceCases: like errCases but also for repository callees (the callee is not entered).
func errReplaceCases(name string, m func(x *Explorer, fr *Frame, c ssa.CallInstruction) bool) []guardCase {
	mk := func(fail bool) func(c *caseRule) {
		return func(c *caseRule) {
			c.calls = append(c.calls, func(x *Explorer, fr *Frame, call ssa.CallInstruction) ([]AV, CallMode) {
				if !m(x, fr, call) {
					return nil, CallDefault
				}
				c.used["err:"+name]++
				n := call.Common().Signature().Results().Len()
				vals := make([]AV, n)
				vals[n-1] = Nil
				if fail {
					vals[n-1] = NonNil
				}
				return vals, CallReplace
			})
		}
	}
	return []guardCase{{label: name + " fails", accept: false, build: mk(true)}, {label: name + " succeeds", accept: true, build: mk(false)}}
}

func checkC18(w *World, r *Report) {
	r.Explanation = "Decides the 'only if' direction and the rollback precondition: (MSG-PROP) in the call trees of the 7 MsgServer methods every exit reached after a callee failed is a failure, so a rejected message's partial writes are discarded by the SDK; (MSG-GUARD + the guard rules of C05/C06/C08/C10/C11/C12/C13) each documented stateful precondition is a condition under which, by finite-case evaluation of the handler, the operation's committing record write is unreachable when the precondition fails and reachable when it holds: auction exists, status, type/bid-type agreement, denominations, fixed price equality, minimum bid price, allow-list entry, allowance, remainder, bid owner, monotone modification, signer = auctioneer, end time ≥ block time, schedule count ≤ 100, rounds ≤ 30, authority = configured authority, params valid, allow-list record valid and within the offered amount; (VB-PRESENT) every message type except the authority-gated one has a ValidateBasic, and with a price / amount / rate field non-positive (or end time ≤ start time) every exit of it is an error."
	r.NotDecided = "exactness over the product of message space and state space (no valid message rejected); sufficient-funds behaviour (bank); 'state unchanged after rejection' beyond the error-propagation precondition (SDK message atomicity is trusted)."
	r.Rule("MSG-PROP", "errors propagate to the message handlers", 40)
	r.Rule("MSG-GUARD", "stateful preconditions guard the committing write", 10)
	r.Rule("VB-PRESENT", "stateless validation rejects non-positive prices and amounts", 15)
	tm := NewTerms(w)
	ms := w.msgServerMethods()
	checkMsgProp(w, r, tm, "MSG-PROP")

	g := func(root *ssa.Function, id, what, coll string, cases []guardCase, common func(c *caseRule), atoms ...string) {
		runGuard(w, r, tm, guardSpec{rule: "MSG-GUARD", id: id, root: root, what: what, commit: commitStore(coll), commitTxt: "the " + coll + " record write",
			cases: cases, common: common, atoms: atoms})
	}
	// place bid
	place := ms["PlaceBid"]
	g(place, "PlaceBid:P1-auction-exists", "a bid requires the auction to exist", "Bid", errCases("Auction.Get", getErr(w, "Auction")), nil, "err:Auction.Get")
	g(place, "PlaceBid:P4-bidder-parses", "a bid requires a well-formed bidder address", "Bid", errCases("parse(msg.Bidder)", parseErr("Bidder")), nil, "err:parse(msg.Bidder)")
	g(place, "PlaceBid:P3-min-bid-price", "a bid in a batch auction is at or above the minimum bid price", "Bid",
		ordCases("msg.Price", "MinBidPrice", func(t *Term) bool { return fieldOfParam(t, "Price") }, func(t *Term) bool { return fieldBase(t, "MinBidPrice") != nil }, func(o int) bool { return o >= 0 }),
		func(c *caseRule) {
			c.enums = append(c.enums, enumFix{name: "atype", val: 2, match: func(t *Term, v ssa.Value) bool {
				return isNamed(v.Type(), typesPath, "AuctionType") && isField(t, "Type") && fromColl(t.Args[0], "Auction")
			}})
		}, "pair0")
	// create
	for _, m := range []string{"CreateFixedPriceAuction", "CreateBatchAuction"} {
		g(ms[m], m+":A2-schedule-count", "at most the constant number of vesting schedules", "Auction",
			ordCases("len(msg.VestingSchedules)", "limit", func(t *Term) bool {
				return t.Op == "builtin" && t.Name == "len" && fieldOfParam(t.Args[0], "VestingSchedules")
			}, func(t *Term) bool { return t.Op == "const" && t.Name != "nil" }, func(o int) bool { return o <= 0 }), nil, "pair0")
		g(ms[m], m+":A4-signer-parses", "creation requires a well-formed auctioneer address", "Auction", errCases("parse(msg.Auctioneer)", parseErr("Auctioneer")), nil, "err:parse(msg.Auctioneer)")
	}
	// update params
	up := ms["UpdateParams"]
	g(up, "UpdateParams:U1-authority", "only the configured authority updates the parameters", "Params",
		eqCases("configured authority", "msg.Authority", func(t *Term) bool { return fieldBase(t, "authority") != nil }, func(t *Term) bool { return fieldOfParam(t, "Authority") }), nil, "pair0")
	g(up, "UpdateParams:U2-params-valid", "only valid parameters are stored", "Params",
		errReplaceCases("Params.Validate", func(x *Explorer, fr *Frame, c ssa.CallInstruction) bool {
			o := staticCalleeObj(c.Common())
			return o != nil && o.Name() == "Validate" && recvNamed(o) != nil && recvNamed(o).Obj().Name() == "Params"
		}), nil, "err:Params.Validate")
	// allow-list API through the (switched) handler
	al := ms["AddAllowedBidder"]
	sw := findSwitch(w, al)
	on := func(c *caseRule) {
		c.vals = append(c.vals, func(x *Explorer, fr *Frame, v ssa.Value) AV {
			if u, ok := v.(*ssa.UnOp); ok && sw != nil && u.X == ssa.Value(sw) {
				return True
			}
			return Unknown
		})
	}
	g(al, "AddAllowedBidder:L2-auction-exists", "an allow-list entry requires the auction to exist", "AllowedBidder", errCases("Auction.Get", getErr(w, "Auction")), on, "err:Auction.Get")
	g(al, "AddAllowedBidder:L3-record-valid", "an allow-list entry must validate (address, positive amount)", "AllowedBidder",
		errReplaceCases("AllowedBidder.Validate", func(x *Explorer, fr *Frame, c ssa.CallInstruction) bool {
			o := staticCalleeObj(c.Common())
			return o != nil && o.Name() == "Validate" && recvNamed(o) != nil && recvNamed(o).Obj().Name() == "AllowedBidder"
		}), on, "err:AllowedBidder.Validate")
	g(al, "AddAllowedBidder:L4-within-offer", "the allowance does not exceed the offered amount", "AllowedBidder",
		ordCases("MaxBidAmount", "SellingCoin.Amount", func(t *Term) bool { return fieldBase(t, "MaxBidAmount") != nil },
			func(t *Term) bool { return isField(t, "Amount") && fieldBase(t.Args[0], "SellingCoin") != nil }, func(o int) bool { return o <= 0 }), on, "pair0")
	// UpdateAllowedBidder (module API): the keeper function that writes AllowedBidder and is not reachable from a handler
	handlerTree := map[*ssa.Function]bool{}
	for _, f := range ms {
		for x := range w.reachableFrom(f) {
			handlerTree[x] = true
		}
	}
	for _, fn := range w.Funcs {
		if pkgOf(fn) == nil || pkgOf(fn).Path() != keeperPath || handlerTree[fn] || fn.Parent() != nil {
			continue
		}
		writes := false
		for _, b := range fn.Blocks {
			for _, in := range b.Instrs {
				if e := w.EffectOf(in); e != nil && e.Kind == EffStoreWrite && e.Coll == "AllowedBidder" {
					writes = true
				}
			}
		}
		if !writes {
			continue
		}
		g(fn, fnName(fn)+":L6-entry-exists", "updating an allowance requires an existing entry of that auction and bidder", "AllowedBidder",
			errCases("AllowedBidder.Get", getErr(w, "AllowedBidder")), nil, "err:AllowedBidder.Get")
		g(fn, fnName(fn)+":L2-auction-exists", "updating an allowance requires the auction to exist", "AllowedBidder", errCases("Auction.Get", getErr(w, "Auction")), nil, "err:Auction.Get")
	}

	// ---------------------------------------------------------------- VB-PRESENT
	type vbField struct{ path, call string }
	vb := map[string][]vbField{
		"MsgPlaceBid":                {{"Price", "IsPositive"}, {"Coin.Amount", "IsPositive"}},
		"MsgModifyBid":               {{"Price", "IsPositive"}, {"Coin.Amount", "IsPositive"}},
		"MsgCreateFixedPriceAuction": {{"StartPrice", "IsPositive"}, {"SellingCoin.Amount", "IsPositive"}},
		"MsgCreateBatchAuction":      {{"StartPrice", "IsPositive"}, {"MinBidPrice", "IsPositive"}, {"SellingCoin.Amount", "IsPositive"}, {"ExtendedRoundRate", "IsPositive"}},
		"MsgCancelAuction":           {},
		"MsgAddAllowedBidder":        {},
	}
	for _, mt := range sortedKeys(vb) {
		named := w.lookupNamed(typesPath, mt)
		fn := w.methodOf(named, "ValidateBasic")
		if fn == nil {
			r.Fail("VB-PRESENT", mt+":exists", typesPath, mt+" has a ValidateBasic method", "no ValidateBasic: malformed messages reach the keeper")
			continue
		}
		r.Pass("VB-PRESENT", mt+":exists", w.pos(fn.Pos()), mt+" has a ValidateBasic method")
		for _, f := range vb[mt] {
			parts := strings.Split(f.path, ".")
			match := func(t *Term) bool {
				x := t
				for i := len(parts) - 1; i >= 0; i-- {
					if !isField(x, parts[i]) {
						return false
					}
					x = x.Args[0]
				}
				return uncell(x).Op == "param" // the message itself, or the message captured by a check closure
			}
			for _, positive := range []bool{false, true} {
				vr := &vbRule{match: match, positive: positive}
				var nilExit, errExit bool
				for _, o := range NewExplorer(w, tm, vr).Run(fn, 0) {
					if av, ok := o.ErrAV(fn); ok && o.Kind == ExitReturn {
						if av.K == avNonNil {
							errExit = true
						} else {
							nilExit = true
						}
					}
				}
				if !positive {
					r.Check(!nilExit && errExit && vr.used > 0, "VB-PRESENT", fmt.Sprintf("%s:%s:non-positive-rejected", mt, f.path), w.pos(fn.Pos()),
						fmt.Sprintf("%s.ValidateBasic rejects a non-positive %s", mt, f.path),
						fmt.Sprintf("with %s not positive a nil error is reachable (positivity test evaluated %d times): a zero/negative price or amount reaches the keeper (division by zero in block processing, negative coins)", f.path, vr.used))
				} else {
					r.Check(nilExit, "VB-PRESENT", fmt.Sprintf("%s:%s:positive-accepted", mt, f.path), w.pos(fn.Pos()),
						fmt.Sprintf("%s.ValidateBasic can accept a positive %s (anchor)", mt, f.path), "no accepting path")
				}
			}
		}
		// end time after start time
		if strings.HasPrefix(mt, "MsgCreate") {
			var bad []string
			for _, o := range []int{-1, 0, 1} {
				rule := newOrdRule(w, func(*Effect) bool { return false }, ordPair{ord: o, match: pairOf(func(t *Term) bool { return fieldOfParam(t, "EndTime") }, func(t *Term) bool { return fieldOfParam(t, "StartTime") })})
				nilExit := false
				for _, out := range NewExplorer(w, tm, rule).Run(fn, 0) {
					if av, ok := out.ErrAV(fn); ok && out.Kind == ExitReturn && av.K != avNonNil {
						nilExit = true
					}
				}
				if nilExit != (o > 0) {
					bad = append(bad, fmt.Sprintf("EndTime %s StartTime: accepted=%v", ordNames[o], nilExit))
				}
			}
			sort.Strings(bad)
			r.Check(len(bad) == 0, "VB-PRESENT", mt+":end-after-start", w.pos(fn.Pos()), mt+".ValidateBasic accepts exactly EndTime > StartTime", strings.Join(bad, "; "))
		}
	}

	// shared guard rules
	r.Sub(checkC11, "MB-GUARD")
	r.Sub(checkC12, "CN-GUARD")
	r.Sub(checkC05, "FP-REMAINDER", "FP-CAP", "BATCH-CAP")
	r.Sub(checkC06, "FP-ACCEPT")
	r.Sub(checkC08, "OPEN-GUARD", "TIME-POL", "BB-BEGIN", "BB-EVERY")
	r.Sub(checkC10, "AL-DOM", "AL-GUARD")
	r.Sub(checkC13, "EXT-BOUND")
	// the allowance precondition compares bidders as strings: a spelling that is stored as typed escapes it; and a
	// vesting schedule is accepted exactly when its release times increase and lie after the end time
	checkAddrCanon(w, r, tm)
	r.Sub(func(w *World, r *Report) { checkC01(w, r) }, "VEST-DISTINCT")
	// "sufficient funds": the amount a message must be able to pay is the amount its record requires
	r.Sub(func(w *World, r *Report) { checkC01(w, r) }, "CREDIT-RECORD", "PAIR-RESERVE")
	r.Sub(checkC04, "RD-SIB")
}

type vbRule struct {
	BaseRule
	match    func(t *Term) bool
	positive bool
	used     int
}

func (v *vbRule) CallResult(x *Explorer, fr *Frame, c ssa.CallInstruction) ([]AV, CallMode) {
	k := callKey(c.Common())
	if (strings.HasSuffix(k, ".IsPositive") || strings.HasSuffix(k, ".IsNegative") || strings.HasSuffix(k, ".IsZero")) && len(c.Common().Args) == 1 {
		if os.Getenv("VERIF_DEBUG") == "vb" {
			fmt.Fprintln(os.Stderr, "VB", fr.Fn, x.TM.OperandAt(fr, c, c.Common().Args[0]).String())
		}
		if v.match(x.TM.OperandAt(fr, c, c.Common().Args[0])) {
			v.used++
			switch {
			case strings.HasSuffix(k, ".IsPositive"):
				return []AV{Bool(v.positive)}, CallReplace
			case strings.HasSuffix(k, ".IsNegative"), strings.HasSuffix(k, ".IsZero"):
				if v.positive {
					return []AV{False}, CallReplace
				}
				return []AV{Unknown}, CallReplace
			}
		}
	}
	return nil, CallDefault
}
