package main

// rules_common.go — entry points, shared rule helpers, ERR-PROP.

import (
	"fmt"
	"go/token"
	"go/types"
	"sort"
	"strings"

	"golang.org/x/tools/go/ssa"
)

const appmodulePath = "cosmossdk.io/core/appmodule"

// entry points ---------------------------------------------------------------

// moduleType returns the module's AppModule type (the implementor of appmodule.HasBeginBlocker).
func (w *World) moduleType() *types.Named {
	iface := w.lookupNamed(appmodulePath, "HasBeginBlocker")
	impls := w.implementors(iface, modulePath)
	if len(impls) != 1 {
		fatalf("expected exactly one implementor of appmodule.HasBeginBlocker in %s, found %d", modulePath, len(impls))
	}
	return impls[0]
}

// declaredBeginBlockFn is the module's BeginBlock method (appmodule.HasBeginBlocker).
func (w *World) declaredBeginBlockFn() *ssa.Function {
	f := w.methodOf(w.moduleType(), "BeginBlock")
	if f == nil {
		fatalf("module BeginBlock has no body")
	}
	return f
}

// beginBlockFn is the module's per-block entry that reaches the keeper's auction processing: BeginBlock, or — when
// BeginBlock does not reach it but EndBlock does — EndBlock, so that rules about what block processing does keep
// analysing it wherever in the block it is run (that it runs at the beginning is BB-WIRE's obligation alone).
func (w *World) beginBlockFn() *ssa.Function {
	bb := w.declaredBeginBlockFn()
	readsAuctions := func(root *ssa.Function) bool {
		for fn := range w.reachableFrom(root) {
			for _, b := range fn.Blocks {
				for _, in := range b.Instrs {
					if e := w.EffectOf(in); e != nil && e.Kind == EffStoreRead && e.Coll == "Auction" {
						return true
					}
				}
			}
		}
		return false
	}
	if readsAuctions(bb) {
		return bb
	}
	if eb := w.methodOf(w.moduleType(), "EndBlock"); eb != nil && readsAuctions(eb) {
		return eb
	}
	return bb
}

// msgServerMethods returns the keeper's implementation of each types.MsgServer method.
func (w *World) msgServerMethods() map[string]*ssa.Function {
	impls := w.implementors(w.MsgServer, keeperPath)
	if len(impls) != 1 {
		fatalf("expected exactly one implementor of types.MsgServer in %s, found %d", keeperPath, len(impls))
	}
	out := map[string]*ssa.Function{}
	for _, m := range methodsOf(w.MsgServer) {
		f := w.methodOf(impls[0], m)
		if f == nil {
			fatalf("MsgServer method %s has no body", m)
		}
		out[m] = f
	}
	return out
}

func (w *World) queryServerMethods() map[string]*ssa.Function {
	impls := w.implementors(w.QueryServer, keeperPath)
	if len(impls) != 1 {
		fatalf("expected exactly one implementor of types.QueryServer in %s, found %d", keeperPath, len(impls))
	}
	out := map[string]*ssa.Function{}
	for _, m := range methodsOf(w.QueryServer) {
		f := w.methodOf(impls[0], m)
		if f == nil {
			fatalf("QueryServer method %s has no body", m)
		}
		out[m] = f
	}
	return out
}

// genesisFns returns the module's InitGenesis / ExportGenesis methods (module.HasGenesis).
func (w *World) genesisFns() (initG, exportG *ssa.Function) {
	mt := w.moduleType()
	initG, exportG = w.methodOf(mt, "InitGenesis"), w.methodOf(mt, "ExportGenesis")
	if initG == nil || exportG == nil {
		fatalf("module InitGenesis/ExportGenesis not found")
	}
	return
}

func sortedFns(m map[*ssa.Function]bool) []*ssa.Function {
	var out []*ssa.Function
	for f := range m {
		out = append(out, f)
	}
	sort.Slice(out, func(i, j int) bool { return out[i].String() < out[j].String() })
	return out
}

func sortedKeys[V any](m map[string]V) []string {
	var out []string
	for k := range m {
		out = append(out, k)
	}
	sort.Strings(out)
	return out
}

// enum constants of a generated enum type, by value.
func (w *World) enumConsts(typeName string) map[int64]string {
	n := w.lookupNamed(typesPath, typeName)
	out := map[int64]string{}
	sc := w.Repo[typesPath].Types.Scope()
	for _, name := range sc.Names() {
		c, ok := sc.Lookup(name).(*types.Const)
		if !ok || c.Type() != n {
			continue
		}
		if v, ok := constInt(c); ok {
			// the generated names carry the type prefix; alias constants share values
			if prev, dup := out[v]; !dup || len(name) < len(prev) {
				out[v] = name
			}
		}
	}
	return out
}

func constInt(c *types.Const) (int64, bool) {
	s := c.Val().ExactString()
	var v int64
	_, err := fmt.Sscan(s, &v)
	return v, err == nil
}

// term matchers ----------------------------------------------------------------

// isFieldNamed reports whether t is field<name>(...) possibly under phi alternatives (all alternatives).
func isField(t *Term, name string) bool { return t.Op == "field" && t.Name == name }

// fieldBase: t is field<name>(b) — possibly joined with constants / zero values
// (generated nil-safe getters) — and returns b; nil otherwise.
func fieldBase(t *Term, name string) *Term {
	var base *Term
	for _, a := range t.Alts() {
		switch {
		case a.Op == "const" || a.Op == "zero":
		case isField(a, name):
			if base != nil && base.Key() != a.Args[0].Key() {
				return nil
			}
			base = a.Args[0]
		default:
			return nil
		}
	}
	return base
}

// hasField reports whether some sub-term is field<name>.
func hasField(t *Term, name string) bool {
	return t.Any(func(x *Term) bool { return isField(x, name) })
}

// hasCall reports whether some sub-term is a call whose key has the given suffix.
func hasCall(t *Term, suffix string) bool {
	return t.Any(func(x *Term) bool { return x.Op == "call" && strings.HasSuffix(x.Name, suffix) })
}

// lastResultIsError reports whether the call's last result has type error.
func lastResultIsError(cc *ssa.CallCommon) bool {
	res := cc.Signature().Results()
	return res.Len() > 0 && isErrorType(res.At(res.Len()-1).Type())
}

// ERR-PROP ---------------------------------------------------------------------

// mayFail: can a repository function return a non-nil error / panic with all conditions free?
type failSummary struct {
	w    *World
	tm   *Terms
	memo map[*ssa.Function]bool
}

type freeRule struct{ BaseRule }

func (fs *failSummary) mayFail(fn *ssa.Function) bool {
	if v, ok := fs.memo[fn]; ok {
		return v
	}
	fs.memo[fn] = true // recursion guard (none exists)
	x := NewExplorer(fs.w, fs.tm, freeRule{})
	res := false
	for _, o := range x.Run(fn, 0) {
		if av, ok := o.ErrAV(fn); ok && av.K != avNil {
			res = true
		}
	}
	fs.memo[fn] = res
	return res
}

// errPropRule forces one call site's error result to be non-nil and tracks
// whether the path passed it and whether the error was inspected by errors.Is/As.
type errPropRule struct {
	BaseRule
	target ssa.CallInstruction
	errVal ssa.Value // the SSA value carrying target's error result (call or extract)
}

const (
	stPassed    = 1 << 0
	stInspected = 1 << 1
)

func (r *errPropRule) CallResult(x *Explorer, fr *Frame, c ssa.CallInstruction) ([]AV, CallMode) {
	n := c.Common().Signature().Results().Len()
	vals := make([]AV, n)
	if c == r.target {
		vals[n-1] = NonNil
		return vals, CallReplace
	}
	// every other call is opaque here: ERR-PROP is a per-function obligation
	cc := c.Common()
	if _, ok := cc.Value.(*ssa.Builtin); ok {
		return nil, CallDefault
	}
	switch callKey(cc) {
	case "fmt.Errorf", "errors.New", "google.golang.org/grpc/status.Error", "google.golang.org/grpc/status.Errorf",
		"cosmossdk.io/errors.Wrap", "cosmossdk.io/errors.Wrapf", "errors.Is", "errors.As":
		return nil, CallDefault // handled by the explorer's contract table (no bodies are entered for dependencies)
	}
	// a repository helper that is handed the error itself (a must-style helper that panics on it, a wrapper that
	// decorates and returns it) is followed: what it does with the error is part of how the error is treated
	if x.W.calleeBody(cc) != nil {
		for _, a := range cc.Args {
			if isErrorType(a.Type()) && derivesFrom(a, r.target) {
				return nil, CallDefault
			}
		}
	}
	return vals, CallReplace
}

func (r *errPropRule) OnInstr(x *Explorer, fr *Frame, in ssa.Instruction, st uint64) uint64 {
	if c, ok := in.(ssa.CallInstruction); ok {
		if c == r.target {
			return st | stPassed
		}
		switch callKey(c.Common()) {
		case "errors.Is", "errors.As":
			if len(c.Common().Args) > 0 && derivesFrom(c.Common().Args[0], r.target) {
				return st | stInspected
			}
		}
	}
	return st
}

// derivesFrom: v is the call's result (through extract / interface conversion / phi / local error variable).
func derivesFrom(v ssa.Value, call ssa.CallInstruction) bool {
	seen := map[ssa.Value]bool{}
	var rec func(v ssa.Value) bool
	rec = func(v ssa.Value) bool {
		if v == nil || seen[v] {
			return false
		}
		seen[v] = true
		if cv, ok := call.(ssa.Value); ok && v == cv {
			return true
		}
		switch t := v.(type) {
		case *ssa.Extract:
			return rec(t.Tuple)
		case *ssa.MakeInterface:
			return rec(t.X)
		case *ssa.ChangeInterface:
			return rec(t.X)
		case *ssa.Phi:
			for _, e := range t.Edges {
				if rec(e) {
					return true
				}
			}
		case *ssa.UnOp:
			if t.Op == token.MUL {
				if al, ok := t.X.(*ssa.Alloc); ok {
					if refs := al.Referrers(); refs != nil {
						for _, in := range *refs {
							if s, ok := in.(*ssa.Store); ok && s.Addr == al && rec(s.Val) {
								return true
							}
						}
					}
				}
			}
		}
		return false
	}
	return rec(v)
}

// checkErrProp: for every call site with an error result in the given
// functions whose callee may fail, every exit reached after the call failed
// must itself be a failure (non-nil error or panic).
func checkErrProp(w *World, r *Report, tm *Terms, fns []*ssa.Function, rule string) {
	fs := &failSummary{w: w, tm: tm, memo: map[*ssa.Function]bool{}}
	for _, fn := range fns {
		for _, b := range fn.Blocks {
			for _, in := range b.Instrs {
				if c, ok := in.(ssa.CallInstruction); ok {
					errPropSite(w, r, tm, fs, fn, c, rule)
				}
			}
		}
	}
}

// errPropSite checks one call site; it returns false when the site creates no obligation.
func errPropSite(w *World, r *Report, tm *Terms, fs *failSummary, fn *ssa.Function, c ssa.CallInstruction, rule string) bool {
	if _, isDefer := c.(*ssa.Defer); isDefer {
		return false
	}
	cc := c.Common()
	if !lastResultIsError(cc) {
		return false
	}
	name := shorten(callKey(cc))
	if name == "" {
		name = "dynamic call"
	}
	switch callKey(cc) {
	case "fmt.Errorf", "errors.New", "cosmossdk.io/errors.Wrap", "cosmossdk.io/errors.Wrapf",
		"google.golang.org/grpc/status.Error", "google.golang.org/grpc/status.Errorf":
		return false // constructors: the value is the error being returned, not a failure to propagate
	}
	if callee := w.calleeBody(cc); callee != nil && !fs.mayFail(callee) {
		return false // always-nil error (e.g. the BaseAuction setters): nothing to propagate
	}
	construct := fmt.Sprintf("%s:call:%s#%d", fnName(fn), name, occurrence(fn, c))
	what := fmt.Sprintf("when %s fails in %s, every exit reached afterwards reports a failure", name, fnName(fn))
	rl := &errPropRule{target: c}
	x := NewExplorer(w, tm, rl)
	var bad []string
	for _, o := range x.Run(fn, 0) {
		if o.St&stPassed == 0 || o.St&stInspected != 0 || o.Kind == ExitPanic {
			continue
		}
		av, hasErr := o.ErrAV(fn)
		if hasErr && av.K == avNonNil {
			continue
		}
		if !hasErr {
			bad = append(bad, fmt.Sprintf("%s returns normally (the function has no error result and does not panic)", w.instrPos(o.Instr)))
		} else {
			bad = append(bad, fmt.Sprintf("exit at %s can return a nil/unrelated error (%s)", w.instrPos(o.Instr), av))
		}
	}
	sort.Strings(bad)
	bad = dedupe(bad)
	if len(bad) > 0 {
		r.Fail(rule, construct, w.instrPos(c), what,
			"the error is dropped or overwritten: "+strings.Join(bad, "; "))
	} else {
		r.Pass(rule, construct, w.instrPos(c), what)
	}
	return true
}

func dedupe(s []string) []string {
	var out []string
	for i, x := range s {
		if i == 0 || x != s[i-1] {
			out = append(out, x)
		}
	}
	return out
}

// occurrence numbers the calls to the same callee inside fn in source order (position independent key).
func occurrence(fn *ssa.Function, c ssa.CallInstruction) int {
	key := callKey(c.Common())
	type pc struct {
		pos token.Pos
		c   ssa.CallInstruction
	}
	var all []pc
	for _, b := range fn.Blocks {
		for _, in := range b.Instrs {
			if ci, ok := in.(ssa.CallInstruction); ok && callKey(ci.Common()) == key {
				all = append(all, pc{ci.Common().Pos(), ci})
			}
		}
	}
	sort.SliceStable(all, func(i, j int) bool { return all[i].pos < all[j].pos })
	for i, x := range all {
		if x.c == c {
			return i + 1
		}
	}
	return 0
}

// ENUM-EVAL -------------------------------------------------------------------

// admittedEnum computes which values of an enum-typed message field the
// message's own ValidateBasic lets through: the method is explored once per
// candidate (every declared constant, plus one value that is no constant) with
// the field fixed; a candidate is admitted when a nil-error exit is reachable.
func admittedEnum(w *World, tm *Terms, msgType, field, enumType string) (admitted []int64, names map[int64]string) {
	names = w.enumConsts(enumType)
	mt := w.lookupNamed(typesPath, msgType)
	vb := w.methodOf(mt, "ValidateBasic")
	if vb == nil {
		fatalf("%s has no ValidateBasic", msgType)
	}
	var cands []int64
	max := int64(0)
	for v := range names {
		cands = append(cands, v)
		if v > max {
			max = v
		}
	}
	cands = append(cands, max+1000) // "not a declared constant"
	names[max+1000] = "<undeclared value>"
	sort.Slice(cands, func(i, j int) bool { return cands[i] < cands[j] })
	for _, c := range cands {
		c := c
		rr := &reachRule{w: w, want: func(*Effect) bool { return false }, reached: map[ssa.Instruction]bool{}}
		rr.valueOf = func(x *Explorer, fr *Frame, v ssa.Value) AV {
			if isNamed(v.Type(), typesPath, enumType) {
				if t := x.TM.Of(fr, v); isField(t, field) {
					return Int(c)
				}
			}
			return Unknown
		}
		ok := false
		for _, o := range NewExplorer(w, tm, rr).Run(vb, 0) {
			if av, has := o.ErrAV(vb); has && o.Kind == ExitReturn && av.K != avNonNil {
				ok = true
			}
		}
		if ok {
			admitted = append(admitted, c)
		}
	}
	return
}

// bidTypeValuation fixes the bid type of the message being placed (the bid
// record's Type is the message's BidType by value flow).
func bidTypeValuation(c int64) func(x *Explorer, fr *Frame, v ssa.Value) AV {
	return func(x *Explorer, fr *Frame, v ssa.Value) AV {
		if isNamed(v.Type(), typesPath, "BidType") {
			t := x.TM.Of(fr, v)
			if (isField(t, "BidType") || isField(t, "Type")) && t.Args[0].Op == "param" {
				return Int(c)
			}
		}
		return Unknown
	}
}
