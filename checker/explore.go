package main

// explore.go — E3/E4 abstract path exploration. The explorer walks the SSA
// control-flow graph of an entry function and, through resolved calls, of the
// repository functions it reaches. Values are abstracted to a finite domain
// (nil / non-nil, true / false, small integers for enum constants); a rule
// supplies a valuation (which atoms are fixed: an ordering of two operands, an
// enum value, a forced call result) and an automaton over the instructions
// visited. All other conditions are free: both successors are explored and the
// condition's outcome is remembered along the path (so `if err != nil {
// return err }` classifies the exit). This is abstract interpretation over a
// finite domain; nothing is executed and no path is handed to a solver.

import (
	"fmt"
	"go/constant"
	"go/token"
	"go/types"
	"os"
	"sort"
	"strings"

	"golang.org/x/tools/go/ssa"
)

type avKind uint8

const (
	avUnknown avKind = iota
	avTrue
	avFalse
	avNil
	avNonNil
	avInt
)

type AV struct {
	K avKind
	N int64
}

var (
	Unknown = AV{}
	True    = AV{K: avTrue}
	False   = AV{K: avFalse}
	Nil     = AV{K: avNil}
	NonNil  = AV{K: avNonNil}
)

func Int(n int64) AV { return AV{K: avInt, N: n} }
func Bool(b bool) AV {
	if b {
		return True
	}
	return False
}

func (a AV) String() string {
	switch a.K {
	case avTrue:
		return "true"
	case avFalse:
		return "false"
	case avNil:
		return "nil"
	case avNonNil:
		return "nonnil"
	case avInt:
		return fmt.Sprintf("%d", a.N)
	}
	return "?"
}

func (a AV) Not() AV {
	switch a.K {
	case avTrue:
		return False
	case avFalse:
		return True
	}
	return Unknown
}

// Rule parameterises an exploration.
type Rule interface {
	// CallResult may fix the abstract results of a call. Mode CallReplace
	// takes vals as the results and does not enter the callee (nor run
	// callbacks passed to it); CallOverride processes the call normally and
	// then overrides the results of dependency callees by the known entries of vals.
	CallResult(x *Explorer, fr *Frame, call ssa.CallInstruction) (vals []AV, mode CallMode)
	// ValueOf may fix the abstract value of any SSA value the explorer cannot evaluate itself.
	ValueOf(x *Explorer, fr *Frame, v ssa.Value) AV
	// Compare may decide x op y (op is token.EQL/NEQ/LSS/LEQ/GTR/GEQ) on tracked operands.
	Compare(x *Explorer, fr *Frame, op token.Token, l, r ssa.Value) AV
	// OnInstr is the automaton step; it is called for every instruction visited, in every frame.
	OnInstr(x *Explorer, fr *Frame, in ssa.Instruction, st uint64) uint64
	// OnLoopEnter is called when a loop header is entered from outside the loop.
	OnLoopEnter(x *Explorer, fr *Frame, l *Loop, st uint64) uint64
	// OnBlock is called at every block entry (after OnLoopEnter); pred is nil for the entry block.
	OnBlock(x *Explorer, fr *Frame, b, pred *ssa.BasicBlock, st uint64) uint64
}

type CallMode int

const (
	CallDefault CallMode = iota
	CallReplace
	CallOverride
)

// BaseRule has neutral defaults.
type BaseRule struct{}

func (BaseRule) CallResult(*Explorer, *Frame, ssa.CallInstruction) ([]AV, CallMode) {
	return nil, CallDefault
}
func (BaseRule) ValueOf(*Explorer, *Frame, ssa.Value) AV { return Unknown }
func (BaseRule) Compare(*Explorer, *Frame, token.Token, ssa.Value, ssa.Value) AV {
	return Unknown
}
func (BaseRule) OnInstr(_ *Explorer, _ *Frame, _ ssa.Instruction, st uint64) uint64    { return st }
func (BaseRule) OnLoopEnter(_ *Explorer, _ *Frame, _ *Loop, st uint64) uint64          { return st }
func (BaseRule) OnBlock(_ *Explorer, _ *Frame, _, _ *ssa.BasicBlock, st uint64) uint64 { return st }

type ExitKind int

const (
	ExitReturn ExitKind = iota
	ExitPanic
)

type Outcome struct {
	Kind ExitKind
	Rets []AV
	// RetsEmpty: for slice-typed results, whether the returned slice is known empty (True) / non-empty (False)
	RetsEmpty []AV
	St        uint64
	Instr     ssa.Instruction // the return / panic instruction (of the frame the outcome belongs to)
}

func (o Outcome) key() string {
	var sb strings.Builder
	fmt.Fprintf(&sb, "%d|%d|%p|", o.Kind, o.St, o.Instr)
	for _, r := range o.Rets {
		fmt.Fprintf(&sb, "%d:%d,", r.K, r.N)
	}
	for _, r := range o.RetsEmpty {
		fmt.Fprintf(&sb, "e%d,", r.K)
	}
	return sb.String()
}

// ErrAV returns the abstract value of the error result (last result) of an outcome.
func (o Outcome) ErrAV(fn *ssa.Function) (AV, bool) {
	res := fn.Signature.Results()
	if res.Len() == 0 || !isErrorType(res.At(res.Len()-1).Type()) {
		return Unknown, false
	}
	if o.Kind != ExitReturn || len(o.Rets) != res.Len() {
		return Unknown, false
	}
	return o.Rets[res.Len()-1], true
}

func isErrorType(t types.Type) bool {
	n, ok := t.(*types.Named)
	return ok && n.Obj().Pkg() == nil && n.Obj().Name() == "error"
}

type Explorer struct {
	W      *World
	TM     *Terms
	Rule   Rule
	ids    map[ssa.Value]int
	memo   map[string][]Outcome
	steps  int
	Budget int
	// MaxDepth bounds the call depth (repository code has no recursion).
	MaxDepth int
	// NoDescend: callees not to enter (treated as opaque).
	NoDescend func(fn *ssa.Function) bool
	// TrackPhi: remember along each path which edge every (non-loop) phi was entered through, and hand rules frames in
	// which those phis denote the value of that edge: provenance terms asked for on a path describe that path, not the
	// merge of all paths (a refactoring that merges two branches into one transfer changes nothing).
	TrackPhi bool
	// IntArith: evaluate small integer additions/subtractions and len() of literal lists concretely, so that a loop
	// over a literal table (e.g. a slice of check closures) is followed element by element. Results outside ±16 are
	// unknown, which keeps counters in loops with unknown bounds finite. On by default for the validators of the types
	// package (functions named Validate*, which are small).
	IntArith bool

	// the activation and environment of the instruction currently handed to Rule.OnInstr
	curA *act
	curE env
}

// CurrentAV is the abstract value v has on the path being explored, for use inside Rule.OnInstr (a number or boolean
// chosen by an earlier branch is known here even where the provenance term is a merge).
func (x *Explorer) CurrentAV(v ssa.Value) AV {
	if x.curA == nil {
		return Unknown
	}
	return x.curA.eval(x.curE, v)
}

func NewExplorer(w *World, tm *Terms, r Rule) *Explorer {
	return &Explorer{W: w, TM: tm, Rule: r, ids: map[ssa.Value]int{}, memo: map[string][]Outcome{}, Budget: 3_000_000, MaxDepth: 12}
}

func (x *Explorer) id(v ssa.Value) int {
	if i, ok := x.ids[v]; ok {
		return i
	}
	i := len(x.ids) + 1
	x.ids[v] = i
	return i
}

// env: persistent association list sorted by key.
type envEntry struct {
	k int
	v AV
}
type env []envEntry

func (e env) get(k int) (AV, bool) {
	i := sort.Search(len(e), func(i int) bool { return e[i].k >= k })
	if i < len(e) && e[i].k == k {
		return e[i].v, true
	}
	return Unknown, false
}

func (e env) set(k int, v AV) env {
	i := sort.Search(len(e), func(i int) bool { return e[i].k >= k })
	if i < len(e) && e[i].k == k {
		if e[i].v == v {
			return e
		}
		if v.K == avUnknown {
			n := make(env, 0, len(e)-1)
			n = append(n, e[:i]...)
			return append(n, e[i+1:]...)
		}
		n := make(env, len(e))
		copy(n, e)
		n[i].v = v
		return n
	}
	if v.K == avUnknown {
		return e
	}
	n := make(env, 0, len(e)+1)
	n = append(n, e[:i]...)
	n = append(n, envEntry{k, v})
	return append(n, e[i:]...)
}

func (e env) hash() string {
	var sb strings.Builder
	for _, x := range e {
		fmt.Fprintf(&sb, "%d=%d:%d;", x.k, x.v.K, x.v.N)
	}
	return sb.String()
}

func (x *Explorer) key(v ssa.Value, idx int) int { return x.id(v)*8 + idx }

// slotEmpty: for slice values, whether the slice is known to be empty (True) or non-empty (False) on this path. A list
// that a loop fills is empty exactly on the paths on which that loop ran zero times, so a later loop over the list
// runs zero times as well — the two trip counts are not independent.
const slotEmpty = 5

func (a *act) emptiness(e env, v ssa.Value) AV {
	if c, ok := v.(*ssa.Const); ok && c.Value == nil {
		return True // nil slice
	}
	if k, ok := a.envKey(v); ok {
		_ = k
	}
	val, _ := e.get(a.x.key(v, slotEmpty))
	return val
}

// nonNegativeCounter: the index expression of a range/for loop that starts at 0: phi(-1, …)+1 or phi(0, …).
func nonNegativeCounter(v ssa.Value) bool {
	isConst := func(x ssa.Value, n int64) bool {
		c, ok := x.(*ssa.Const)
		return ok && c.Value != nil && c.Int64() == n
	}
	if bo, ok := v.(*ssa.BinOp); ok && bo.Op == token.ADD && isConst(bo.Y, 1) {
		if ph, ok := bo.X.(*ssa.Phi); ok {
			for _, ed := range ph.Edges {
				if isConst(ed, -1) {
					return true
				}
			}
		}
		return false
	}
	if ph, ok := v.(*ssa.Phi); ok {
		for _, ed := range ph.Edges {
			if isConst(ed, 0) {
				return true
			}
		}
	}
	return false
}

// Run explores fn as an entry point and returns its outcomes.
func (x *Explorer) Run(fn *ssa.Function, st uint64) []Outcome {
	if p := pkgOf(fn); p != nil && p.Path() == typesPath && strings.HasPrefix(fn.Name(), "Validate") {
		x.IntArith = true
	}
	return x.runFn(x.TM.Root(fn), st, nil)
}

// RunFrame explores an already constructed frame.
func (x *Explorer) RunFrame(fr *Frame, st uint64) []Outcome { return x.runFn(fr, st, nil) }

type act struct {
	x       *Explorer
	fr      *Frame
	visited map[string]bool
	outs    map[string]Outcome
}

func (x *Explorer) runFn(fr *Frame, st uint64, args []AV) []Outcome {
	return x.runFnE(fr, st, args, nil)
}

// runFnE: runFn with, per argument, what is known about the emptiness of a slice argument.
func (x *Explorer) runFnE(fr *Frame, st uint64, args, empties []AV) []Outcome {
	var sb strings.Builder
	fmt.Fprintf(&sb, "%s|%d|", fr.id, st)
	for _, a := range args {
		fmt.Fprintf(&sb, "%d:%d,", a.K, a.N)
	}
	for _, a := range empties {
		fmt.Fprintf(&sb, "e%d,", a.K)
	}
	mk := sb.String()
	if o, ok := x.memo[mk]; ok {
		return o
	}
	if fr.Fn.Blocks == nil {
		return nil
	}
	a := &act{x: x, fr: fr, visited: map[string]bool{}, outs: map[string]Outcome{}}
	var e env
	for i, p := range fr.Fn.Params {
		if i < len(args) && args[i].K != avUnknown {
			e = e.set(x.key(p, 0), args[i])
		}
		if i < len(empties) && empties[i].K != avUnknown {
			e = e.set(x.key(p, slotEmpty), empties[i])
		}
	}
	a.block(fr.Fn.Blocks[0], nil, e, st)
	keys := make([]string, 0, len(a.outs))
	for k := range a.outs {
		keys = append(keys, k)
	}
	sort.Strings(keys)
	res := make([]Outcome, 0, len(keys))
	for _, k := range keys {
		res = append(res, a.outs[k])
	}
	x.memo[mk] = res
	return res
}

func (a *act) block(b, pred *ssa.BasicBlock, e env, st uint64) {
	x := a.x
	// phis
	if pred != nil {
		pi := -1
		for i, p := range b.Preds {
			if p == pred {
				pi = i
				break
			}
		}
		// evaluate all phis against the incoming env (parallel assignment)
		var vals, empties []AV
		var phis []*ssa.Phi
		for _, in := range b.Instrs {
			ph, ok := in.(*ssa.Phi)
			if !ok {
				break
			}
			phis = append(phis, ph)
			if pi >= 0 {
				vals = append(vals, a.eval(e, ph.Edges[pi]))
				empties = append(empties, a.emptiness(e, ph.Edges[pi]))
			} else {
				vals = append(vals, Unknown)
				empties = append(empties, Unknown)
			}
		}
		for i, ph := range phis {
			e = e.set(x.key(ph, 0), vals[i])
			if _, isSlice := ph.Type().Underlying().(*types.Slice); isSlice {
				e = e.set(x.key(ph, slotEmpty), empties[i])
			}
			if x.TrackPhi && pi >= 0 && trackablePhi(a.fr.Fn, ph) {
				e = e.set(x.key(ph, 7), Int(int64(pi)))
			}
		}
		// loop entry
		fi := fnInfo(a.fr.Fn)
		for _, l := range fi.Loops {
			if l.Header == b && !l.Blocks[pred] {
				st = x.Rule.OnLoopEnter(x, a.fr, l, st)
			}
		}
	}
	st = x.Rule.OnBlock(x, a.fr, b, pred, st)
	pk := -1
	if pred != nil {
		pk = pred.Index
	}
	vk := fmt.Sprintf("%d|%d|%d|%s", b.Index, pk, st, e.hash())
	if a.visited[vk] {
		return
	}
	a.visited[vk] = true
	a.instrs(b, 0, e, st)
}

func (a *act) instrs(b *ssa.BasicBlock, from int, e env, st uint64) {
	x := a.x
	for i := from; i < len(b.Instrs); i++ {
		in := b.Instrs[i]
		x.steps++
		if x.steps > x.Budget {
			fatalf("explorer budget exceeded in %s (state explosion)", a.fr.Fn)
		}
		if _, isPhi := in.(*ssa.Phi); isPhi {
			continue
		}
		x.curA, x.curE = a, e
		st = x.Rule.OnInstr(x, a.pfr(e), in, st)
		x.curA, x.curE = nil, nil
		switch v := in.(type) {
		case *ssa.Store:
			if al, ok := v.Addr.(*ssa.Alloc); ok {
				e = e.set(x.key(al, 0), a.eval(e, v.Val))
			}
		case *ssa.MakeSlice:
			if c, ok := v.Len.(*ssa.Const); ok && c.Value != nil && c.Int64() == 0 {
				e = e.set(x.key(v, slotEmpty), True)
			}
		case *ssa.TypeAssert:
			if v.CommaOk {
				okv := x.Rule.ValueOf(x, a.fr, v)
				e = e.set(x.key(v, 1), okv)
				e = e.set(x.key(v, 0), Unknown)
			}
		case *ssa.Call:
			// fork over the callee's outcomes
			branches := a.call(v, e, st)
			for _, br := range branches {
				if br.panicked {
					a.out(Outcome{Kind: ExitPanic, St: br.st, Instr: in})
					continue
				}
				ne := e
				if x.TrackPhi && br.ret != nil && !x.W.isGenerated(br.ret.Parent()) {
					// (generated getters keep their joined result: their nil-receiver branch is not a real path)
					ne = ne.set(x.key(v, 7), Int(int64(br.ret.Block().Index)))
				}
				if len(br.empties) > 0 {
					if len(br.empties) == 1 {
						ne = ne.set(x.key(v, slotEmpty), br.empties[0])
					} else if refs := v.Referrers(); refs != nil {
						for _, rf := range *refs {
							if ex, ok := rf.(*ssa.Extract); ok && ex.Index < len(br.empties) {
								ne = ne.set(x.key(ex, slotEmpty), br.empties[ex.Index])
							}
						}
					}
				}
				if bi, isBI := v.Call.Value.(*ssa.Builtin); isBI {
					switch {
					case bi.Name() == "append" && len(v.Call.Args) == 2:
						em := a.emptiness(e, v.Call.Args[0])
						if sl, ok := v.Call.Args[1].(*ssa.Slice); ok {
							if al, ok := sl.X.(*ssa.Alloc); ok {
								if pt, ok := al.Type().Underlying().(*types.Pointer); ok {
									if arr, ok := pt.Elem().Underlying().(*types.Array); ok && arr.Len() >= 1 && sl.Low == nil && sl.High == nil {
										em = False // at least one value is appended
									}
								}
							}
						} else if em.K == avTrue {
							em = a.emptiness(e, v.Call.Args[1]) // append(empty, other...)
						}
						ne = ne.set(x.key(v, slotEmpty), em)
					case bi.Name() == "len" && len(v.Call.Args) == 1 && a.emptiness(e, v.Call.Args[0]).K == avTrue:
						br.vals = []AV{Int(0)}
					}
				}
				if len(br.vals) == 1 {
					ne = ne.set(x.key(v, 0), br.vals[0])
				} else {
					for j := 0; j < v.Call.Signature().Results().Len(); j++ {
						val := Unknown
						if j < len(br.vals) {
							val = br.vals[j]
						}
						ne = ne.set(x.key(v, j), val)
					}
				}
				a.instrs(b, i+1, ne, br.st)
			}
			return
		case *ssa.Defer, *ssa.RunDefers, *ssa.DebugRef:
			// deferred calls in scope are telemetry only; the rule sees the Defer instruction
		case *ssa.Go, *ssa.Select, *ssa.Send:
			fatalf("unsupported instruction %T in %s", in, a.fr.Fn)
		case *ssa.Jump:
			a.block(b.Succs[0], b, e, st)
			return
		case *ssa.If:
			c := a.eval(e, v.Cond)
			switch c.K {
			case avTrue:
				a.block(b.Succs[0], b, e, st)
			case avFalse:
				a.block(b.Succs[1], b, e, st)
			default:
				a.block(b.Succs[0], b, a.refine(e, v.Cond, true), st)
				a.block(b.Succs[1], b, a.refine(e, v.Cond, false), st)
			}
			return
		case *ssa.Return:
			var rets, retsEmpty []AV
			anyEmpty := false
			for _, r := range v.Results {
				rets = append(rets, a.eval(e, r))
				em := Unknown
				if _, isSlice := r.Type().Underlying().(*types.Slice); isSlice {
					em = a.emptiness(e, r)
				}
				if em.K != avUnknown {
					anyEmpty = true
				}
				retsEmpty = append(retsEmpty, em)
			}
			if !anyEmpty {
				retsEmpty = nil
			}
			a.out(Outcome{Kind: ExitReturn, Rets: rets, RetsEmpty: retsEmpty, St: st, Instr: in})
			return
		case *ssa.Panic:
			a.out(Outcome{Kind: ExitPanic, St: st, Instr: in})
			return
		}
	}
}

func (a *act) out(o Outcome) { a.outs[o.key()] = o }

// callbackEnder: rules that keep per-iteration state are told when a callback that a walker invoked returns
// normally — the end of one iteration of the walk, like the back edge of a loop over the collected list.
type callbackEnder interface {
	OnCallbackReturn(x *Explorer, cfr *Frame, st uint64) uint64
}

type callBranch struct {
	vals     []AV
	empties  []AV // per result: emptiness of a returned slice
	st       uint64
	panicked bool
	ret      *ssa.Return // the callee's return this branch came out of (repository callees)
}

// resolveFunc follows a function-typed value to the repository function it denotes.
func (x *Explorer) resolveFunc(fr *Frame, v ssa.Value) (*ssa.Function, *ssa.MakeClosure, *Frame) {
	for depth := 0; depth < 10 && fr != nil; depth++ {
		switch f := v.(type) {
		case *ssa.Function:
			return f, nil, fr
		case *ssa.MakeClosure:
			return f.Fn.(*ssa.Function), f, fr
		case *ssa.Parameter:
			if fr.ArgVals == nil {
				return nil, nil, nil
			}
			found := false
			for i, p := range fr.Fn.Params {
				if p == f && i < len(fr.ArgVals) {
					v, fr, found = fr.ArgVals[i], fr.Parent, true
					break
				}
			}
			if !found {
				return nil, nil, nil
			}
		case *ssa.ChangeType:
			v = f.X
		default:
			return nil, nil, nil
		}
	}
	return nil, nil, nil
}

func (a *act) call(c *ssa.Call, e env, st uint64) []callBranch {
	x := a.x
	cc := &c.Call
	ovals, mode := x.Rule.CallResult(x, a.fr, c)
	if mode == CallReplace {
		return []callBranch{{vals: ovals, st: st}}
	}
	if bi, ok := cc.Value.(*ssa.Builtin); ok {
		if x.IntArith && bi.Name() == "len" && len(cc.Args) == 1 {
			if es, ok := listElems(x.W, x.TM, x.TM.OperandAt(a.pfr(e), c, cc.Args[0]), 0); ok {
				return []callBranch{{vals: []AV{Int(int64(len(es)))}, st: st}}
			}
		}
		return []callBranch{{st: st}}
	}
	callee := x.W.calleeBody(cc)
	var cfr *Frame
	if callee == nil && x.IntArith {
		// a call through an element of a literal table of functions, at a concrete index
		if fn, mc := a.indexedFunc(e, c); fn != nil {
			callee = fn
			cfr = x.TM.Enter(a.pfr(e), c, fn)
			if mc != nil {
				cfr.Closure, cfr.ClosureFrame = mc, a.pfr(e)
			}
		}
	}
	if callee == nil && !cc.IsInvoke() && cc.StaticCallee() == nil {
		// dynamic call through a function value
		if fn, mc, at := x.resolveFunc(a.fr, cc.Value); fn != nil && fn.Blocks != nil && x.W.isRepoPkg(pkgOf(fn)) {
			callee = fn
			cfr = x.TM.Enter(a.pfr(e), c, fn)
			if mc != nil {
				cfr.Closure, cfr.ClosureFrame = mc, at
			}
		}
	}
	if callee != nil && a.fr.depth < x.MaxDepth && !a.fr.inChain(callee) && (x.NoDescend == nil || !x.NoDescend(callee)) {
		if cfr == nil {
			cfr = x.TM.Enter(a.pfr(e), c, callee)
		}
		var args, empties []AV
		anyEmpty := false
		if cc.IsInvoke() {
			args = append(args, a.eval(e, cc.Value))
			empties = append(empties, Unknown)
		}
		for _, av := range cc.Args {
			args = append(args, a.eval(e, av))
			em := Unknown
			if _, isSlice := av.Type().Underlying().(*types.Slice); isSlice {
				em = a.emptiness(e, av)
			}
			if em.K != avUnknown {
				anyEmpty = true
			}
			empties = append(empties, em)
		}
		if !anyEmpty {
			empties = nil
		}
		outs := x.runFnE(cfr, st, args, empties)
		var res []callBranch
		for _, o := range outs {
			if o.Kind == ExitPanic {
				res = append(res, callBranch{st: o.St, panicked: true})
			} else {
				rt, _ := o.Instr.(*ssa.Return)
				res = append(res, callBranch{vals: o.Rets, empties: o.RetsEmpty, st: o.St, ret: rt})
			}
		}
		return res
	}
	// dependency call: callbacks passed to it run zero or more times
	states := map[uint64]bool{st: true}
	// failed: states in which a callback returned a certainly non-nil error — a walker that is handed an error by its
	// callback stops and returns it, so the call itself fails in those states
	failed := map[uint64]bool{}
	panicked := map[uint64]bool{}
	callErr := cc.Signature().Results().Len() > 0 && isErrorType(cc.Signature().Results().At(cc.Signature().Results().Len()-1).Type())
	if !pureHigherOrder(callKey(cc)) {
		for _, av := range cc.Args {
			fn, mc, at := x.resolveFunc(a.fr, av)
			if fn == nil || fn.Blocks == nil || !x.W.isRepoPkg(pkgOf(fn)) {
				continue
			}
			cbRes := fn.Signature.Results()
			cbErr := callErr && cbRes.Len() > 0 && isErrorType(cbRes.At(cbRes.Len()-1).Type())
			work := []uint64{st}
			for len(work) > 0 {
				s := work[0]
				work = work[1:]
				var cfr *Frame
				if mc != nil {
					cfr = x.TM.EnterClosure(at, mc, c)
				} else {
					cfr = x.TM.Enter(a.fr, c, fn)
					cfr.ArgVals = nil
				}
				for _, o := range x.runFn(cfr, s, nil) {
					if os.Getenv("VERIF_DEBUG") == "cb" {
						fmt.Fprintf(os.Stderr, "CB %s st=%d->%d rets=%v cbErr=%v\n", fn, s, o.St, o.Rets, cbErr)
					}
					if o.Kind == ExitPanic {
						panicked[o.St] = true // a panic in the callback is a panic of the call
						continue
					}
					if cbErr && o.Kind == ExitReturn && len(o.Rets) == cbRes.Len() && o.Rets[len(o.Rets)-1].K == avNonNil {
						failed[o.St] = true
						continue
					}
					if ce, ok := x.Rule.(callbackEnder); ok {
						o.St = ce.OnCallbackReturn(x, cfr, o.St)
					}
					if !states[o.St] {
						states[o.St] = true
						work = append(work, o.St)
					}
				}
			}
		}
	}
	var keys []uint64
	for s := range states {
		keys = append(keys, s)
	}
	sort.Slice(keys, func(i, j int) bool { return keys[i] < keys[j] })
	nres := cc.Signature().Results().Len()
	vals := make([]AV, nres)
	if known := a.knownCall(cc, e); known != nil {
		copy(vals, known)
	}
	if mode == CallOverride {
		for i, v := range ovals {
			if i < nres && v.K != avUnknown {
				vals[i] = v
			}
		}
	}
	var res []callBranch
	for _, s := range keys {
		res = append(res, callBranch{vals: vals, st: s})
	}
	var fkeys []uint64
	for s := range failed {
		fkeys = append(fkeys, s)
	}
	sort.Slice(fkeys, func(i, j int) bool { return fkeys[i] < fkeys[j] })
	for _, s := range fkeys {
		fv := make([]AV, nres)
		copy(fv, vals)
		fv[nres-1] = NonNil
		res = append(res, callBranch{vals: fv, st: s})
	}
	var pkeys []uint64
	for s := range panicked {
		pkeys = append(pkeys, s)
	}
	sort.Slice(pkeys, func(i, j int) bool { return pkeys[i] < pkeys[j] })
	for _, s := range pkeys {
		res = append(res, callBranch{st: s, panicked: true})
	}
	return res
}

// knownCall: abstract results of dependency functions whose nil-ness / value is fixed by their contract.
func (a *act) knownCall(cc *ssa.CallCommon, e env) []AV {
	switch callKey(cc) {
	case "fmt.Errorf", "errors.New", "google.golang.org/grpc/status.Error", "google.golang.org/grpc/status.Errorf",
		"cosmossdk.io/errors.New", "cosmossdk.io/errors.Register", "cosmossdk.io/errors.RegisterWithGRPCCode":
		return []AV{NonNil}
	case "cosmossdk.io/errors.Wrap", "cosmossdk.io/errors.Wrapf", "github.com/pkg/errors.Wrap", "github.com/pkg/errors.Wrapf", "github.com/pkg/errors.WithStack":
		if len(cc.Args) > 0 {
			return []AV{a.eval(e, cc.Args[0])}
		}
	case "errors.Is", "errors.As":
		if len(cc.Args) > 0 && a.eval(e, cc.Args[0]).K == avNil {
			return []AV{False}
		}
	}
	return nil
}

func pureHigherOrder(key string) bool {
	return strings.HasPrefix(key, "sort.") || strings.HasPrefix(key, "slices.")
}

// refine records what a free condition's outcome tells about the values it tests.
func (a *act) refine(e env, cond ssa.Value, outcome bool) env {
	x := a.x
	switch c := cond.(type) {
	case *ssa.UnOp:
		if c.Op == token.NOT {
			return a.refine(e, c.X, !outcome)
		}
	case *ssa.BinOp:
		if c.Op == token.EQL || c.Op == token.NEQ {
			isNil := func(v ssa.Value) bool {
				k, ok := v.(*ssa.Const)
				return ok && k.Value == nil
			}
			var other ssa.Value
			if isNil(c.Y) {
				other = c.X
			} else if isNil(c.X) {
				other = c.Y
			}
			if other != nil {
				nonnil := outcome == (c.Op == token.NEQ)
				val := Nil
				if nonnil {
					val = NonNil
				}
				if k, ok := a.envKey(other); ok {
					e = e.set(k, val)
				}
			}
		}
	}
	// remember the boolean itself when it is a value that can be re-read
	if k, ok := a.envKey(cond); ok {
		e = e.set(k, Bool(outcome))
	}
	_ = x
	return e
}

// envKey returns the environment slot of values whose abstract value is path dependent.
func (a *act) envKey(v ssa.Value) (int, bool) {
	x := a.x
	switch t := v.(type) {
	case *ssa.Call, *ssa.Phi, *ssa.Parameter:
		return x.key(v, 0), true
	case *ssa.Extract:
		return x.key(t.Tuple, t.Index), true
	case *ssa.UnOp:
		if t.Op == token.MUL {
			if al, ok := t.X.(*ssa.Alloc); ok {
				return x.key(al, 0), true
			}
		}
	case *ssa.MakeInterface:
		return a.envKey(t.X)
	case *ssa.ChangeInterface:
		return a.envKey(t.X)
	case *ssa.ChangeType:
		return a.envKey(t.X)
	}
	return 0, false
}

func constAV(c *ssa.Const) AV {
	if c.Value == nil {
		// nil of pointer/interface/slice/map/func; zero struct consts are not nil-able
		switch c.Type().Underlying().(type) {
		case *types.Pointer, *types.Interface, *types.Slice, *types.Map, *types.Signature, *types.Chan:
			return Nil
		}
		return Unknown
	}
	switch c.Value.Kind() {
	case constant.Bool:
		return Bool(constant.BoolVal(c.Value))
	case constant.Int:
		if n, ok := constant.Int64Val(c.Value); ok {
			return Int(n)
		}
	}
	return Unknown
}

func (a *act) eval(e env, v ssa.Value) AV {
	x := a.x
	if k, ok := a.envKey(v); ok {
		if val, ok := e.get(k); ok {
			return val
		}
	}
	switch t := v.(type) {
	case *ssa.Const:
		return constAV(t)
	case *ssa.UnOp:
		switch t.Op {
		case token.NOT:
			return a.eval(e, t.X).Not()
		case token.MUL:
			if _, ok := t.X.(*ssa.Global); ok {
				if isPointer(t.Type()) {
					return NonNil // package-level sentinel (*errors.Error)
				}
			}
		}
	case *ssa.BinOp:
		switch t.Op {
		case token.EQL, token.NEQ, token.LSS, token.LEQ, token.GTR, token.GEQ:
			// a tracked pair is decided by the case under evaluation, whatever is known concretely on this path
			if res := x.Rule.Compare(x, a.fr, t.Op, t.X, t.Y); res.K != avUnknown {
				return res
			}
		}
		l, r := a.eval(e, t.X), a.eval(e, t.Y)
		switch t.Op {
		case token.ADD, token.SUB:
			if x.IntArith && l.K == avInt && r.K == avInt {
				n := l.N + r.N
				if t.Op == token.SUB {
					n = l.N - r.N
				}
				if n >= -16 && n <= 16 {
					return Int(n)
				}
			}
			return Unknown
		case token.EQL, token.NEQ:
			res := Unknown
			switch {
			case (l.K == avNil && r.K == avNil):
				res = True
			case (l.K == avNil && r.K == avNonNil) || (l.K == avNonNil && r.K == avNil):
				res = False
			case l.K == avInt && r.K == avInt:
				res = Bool(l.N == r.N)
			case (l.K == avTrue || l.K == avFalse) && (r.K == avTrue || r.K == avFalse):
				res = Bool(l.K == r.K)
			}
			if res.K != avUnknown {
				if t.Op == token.NEQ {
					return res.Not()
				}
				return res
			}
		case token.LSS, token.LEQ, token.GTR, token.GEQ:
			if t.Op == token.LSS && r.K == avInt && r.N == 0 && nonNegativeCounter(t.X) {
				return False // an index is never below the length of an empty list
			}
			if l.K == avInt && r.K == avInt {
				switch t.Op {
				case token.LSS:
					return Bool(l.N < r.N)
				case token.LEQ:
					return Bool(l.N <= r.N)
				case token.GTR:
					return Bool(l.N > r.N)
				case token.GEQ:
					return Bool(l.N >= r.N)
				}
			}
		}
		return Unknown
	case *ssa.MakeInterface:
		switch t.X.Type().Underlying().(type) {
		case *types.Pointer:
			return a.eval(e, t.X)
		}
		return NonNil
	case *ssa.ChangeInterface:
		return a.eval(e, t.X)
	case *ssa.ChangeType:
		return a.eval(e, t.X)
	case *ssa.Convert:
		return a.eval(e, t.X)
	case *ssa.Alloc, *ssa.Function, *ssa.MakeClosure, *ssa.MakeMap, *ssa.MakeSlice, *ssa.FieldAddr, *ssa.IndexAddr:
		return NonNil
	}
	return x.Rule.ValueOf(x, a.fr, v)
}

// trackablePhi: phis whose incoming edge is worth remembering — aggregate / pointer values outside loop headers
// (numbers, booleans, strings and errors are handled by the abstract values; loop-carried values stay merged).
func trackablePhi(fn *ssa.Function, ph *ssa.Phi) bool {
	if _, basic := ph.Type().Underlying().(*types.Basic); basic || isErrorType(ph.Type()) {
		return false
	}
	for _, l := range fnInfo(fn).Loops {
		if l.Header == ph.Block() {
			return false
		}
	}
	return true
}

// pfr is the activation's frame with the phi choices made on the path so far (the plain frame when nothing is tracked).
func (a *act) pfr(e env) *Frame {
	if !a.x.TrackPhi {
		return a.fr
	}
	var sel map[*ssa.Phi]int
	var rsel map[*ssa.Call]int
	for _, b := range a.fr.Fn.Blocks {
		for _, in := range b.Instrs {
			switch y := in.(type) {
			case *ssa.Phi:
				if v, ok := e.get(a.x.key(y, 7)); ok && v.K == avInt {
					if sel == nil {
						sel = map[*ssa.Phi]int{}
					}
					sel[y] = int(v.N)
				}
			case *ssa.Call:
				if v, ok := e.get(a.x.key(y, 7)); ok && v.K == avInt {
					if rsel == nil {
						rsel = map[*ssa.Call]int{}
					}
					rsel[y] = int(v.N)
				}
			}
		}
	}
	return a.x.TM.SelFrame(a.fr, sel, rsel)
}

// indexedFunc: the callee of `table[i]()` where table is a literal slice/array of closures or functions and i is
// concrete on this path.
func (a *act) indexedFunc(e env, c *ssa.Call) (*ssa.Function, *ssa.MakeClosure) {
	ld, ok := c.Call.Value.(*ssa.UnOp)
	if !ok || ld.Op != token.MUL {
		return nil, nil
	}
	ia, ok := ld.X.(*ssa.IndexAddr)
	if !ok {
		return nil, nil
	}
	idx := a.eval(e, ia.Index)
	if idx.K != avInt {
		return nil, nil
	}
	es, ok := listElems(a.x.W, a.x.TM, a.x.TM.Of(a.pfr(e), ia.X), 0)
	if !ok || idx.N < 0 || int(idx.N) >= len(es) {
		return nil, nil
	}
	switch v := es[idx.N].t.V.(type) {
	case *ssa.MakeClosure:
		fn, _ := v.Fn.(*ssa.Function)
		if fn != nil && fn.Blocks != nil {
			return fn, v
		}
	case *ssa.Function:
		if v.Blocks != nil {
			return v, nil
		}
	}
	return nil, nil
}
