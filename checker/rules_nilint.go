package main

// NIL-INT (C07): a math.Int read from a map without the comma-ok form is the zero value math.Int{} when the key is
// absent, and every arithmetic method on that value dereferences a nil *big.Int — a panic, which inside block
// processing halts the chain. The rule: in the block hook's call tree every such read whose result is handed to a call
// has a key that is provably present:
//
//	(a) the key is a key of the very map that is read (a range over it, a sorted copy of its keys), or
//	(b) the key is a key of another map M1, and both M1 and the map read are filled under the Bidder of records of the
//	    same record type (both are indexed by the bidders of the auction's bid list).
//
// A key taken from a record of one type looked up in a map filled from records of another type (a bid's bidder in the
// allowance map built from the allow-list) is not provably present: whether it is depends on the stored state.

import (
	"fmt"
	"go/token"
	"go/types"
	"sort"
	"strings"

	"golang.org/x/tools/go/ssa"
)

func checkNilInt(w *World, r *Report, tm *Terms) {
	r.Rule("NIL-INT", "math.Int values read from maps without comma-ok are read under keys that are present", 1)
	tree := w.reachableFrom(w.beginBlockFn())
	recType := func(t *Term) string { // the record type under field<Bidder>(…)
		name := ""
		t.Walk(func(x *Term) bool {
			if name == "" && isField(x, "Bidder") && x.Args[0].V != nil {
				if n := namedOf(x.Args[0].V.Type()); n != nil {
					name = n.Obj().Name()
				}
			}
			return name == ""
		})
		return name
	}
	keyTypes := func(fr *Frame, m *Term) map[string]bool {
		out := map[string]bool{}
		m = uncell(m)
		if mm, ok := m.V.(*ssa.MakeMap); ok && m.Op == "makemap" {
			ks, _ := mapUpdatesOf(tm, fr, mm)
			for _, k := range ks {
				out[recType(k)] = true
			}
		}
		if isField(m, "AllocationMap") || isField(m, "RefundMap") || isField(m, "ReservedMatchedMap") || isField(m, "MatchResultByBidder") {
			out["Bid"] = true // the matching result's maps are keyed by the bidders of the auction's bids (REFUND-PROV, CAP-MIN)
		}
		return out
	}
	n := 0
	for _, fn := range sortedFns(tree) {
		if p := pkgOf(fn); p == nil || !w.isRepoPkg(p) || p.Path() == simPath || w.isGenerated(fn) {
			continue
		}
		fr := tm.Root(fn)
		for _, b := range fn.Blocks {
			for _, in := range b.Instrs {
				lk, ok := in.(*ssa.Lookup)
				if !ok || lk.CommaOk {
					continue
				}
				mt, ok := lk.X.Type().Underlying().(*types.Map)
				if !ok || !isNamed(mt.Elem(), mathPath, "Int") {
					continue
				}
				used := ""
				if refs := lk.Referrers(); refs != nil {
					for _, u := range *refs {
						if c, ok := u.(ssa.CallInstruction); ok {
							used = shorten(callKey(c.Common()))
						}
					}
				}
				if used == "" {
					continue
				}
				n++
				m, k := uncell(tm.Of(fr, lk.X)), tm.Of(fr, lk.Index)
				present, how := false, ""
				switch {
				case k.Any(func(x *Term) bool { return x.Op == "mapkey" && len(x.Args) == 1 && uncell(x.Args[0]).Key() == m.Key() }):
					present, how = true, "the key is a key of the map that is read"
				default:
					// (b) a key of another map filled from records of the same type
					var other *Term
					k.Walk(func(x *Term) bool {
						if other == nil && x.Op == "mapkey" && len(x.Args) == 1 {
							other = uncell(x.Args[0])
						}
						return other == nil
					})
					mk := keyTypes(fr, m)
					if other != nil {
						ok2 := len(mk) > 0
						for t := range keyTypes(fr, other) {
							if !mk[t] || t == "" {
								ok2 = false
							}
						}
						if len(keyTypes(fr, other)) == 0 {
							ok2 = false
						}
						if ok2 {
							present, how = true, "both maps are filled under the Bidder of the same kind of record"
						}
					}
				}
				if !present {
					// (c) the entry was just made sure of: a comma-ok read of the same map under the same key dominates this
					// read, and a store under that key sits on its branch (`if _, ok := m[k]; !ok { m[k] = zero }`)
					for _, b2 := range fn.Blocks {
						for _, in2 := range b2.Instrs {
							l2, ok := in2.(*ssa.Lookup)
							if !ok || !l2.CommaOk || l2 == lk || !instrDominates(l2, lk) {
								continue
							}
							if uncell(tm.Of(fr, l2.X)).Key() != m.Key() || tm.Of(fr, l2.Index).Key() != k.Key() {
								continue
							}
							for _, b3 := range fn.Blocks {
								for _, in3 := range b3.Instrs {
									mu, ok := in3.(*ssa.MapUpdate)
									if !ok || !instrDominates(l2, mu) || instrDominates(lk, mu) {
										continue
									}
									if uncell(tm.Of(fr, mu.Map)).Key() == m.Key() && tm.Of(fr, mu.Key).Key() == k.Key() {
										present, how = true, "a comma-ok read of the same entry, completed by a store when it is absent, comes first"
									}
								}
							}
						}
					}
				}
				var ts []string
				for t := range keyTypes(fr, m) {
					ts = append(ts, t)
				}
				sort.Strings(ts)
				r.Check(present, "NIL-INT", fmt.Sprintf("%s:lookup:%s-keyed:%s", fnName(fn), strings.Join(ts, "/"), used), w.instrPos(in),
					fmt.Sprintf("the math.Int read from %s and handed to %s is read under a key that is present (%s)", shorten(m.String()), used, how),
					fmt.Sprintf("the key %s is not provably a key of the map (filled under the Bidder of %s records): for an absent key the value is the zero math.Int and %s dereferences a nil *big.Int — a panic inside block processing halts the chain (e.g. a bid whose bidder has no allow-list entry, as a genesis file may contain)", k.String(), strings.Join(ts, "/"), used))
			}
		}
	}
	// comma-ok reads: the value of an absent entry is the zero math.Int as well; where the value is handed to a call it
	// has either been replaced on the "absent" branch (a phi joins it with another value) or the use is reached only
	// through the "present" branch
	for _, fn := range sortedFns(tree) {
		if p := pkgOf(fn); p == nil || !w.isRepoPkg(p) || p.Path() == simPath || w.isGenerated(fn) {
			continue
		}
		for _, b := range fn.Blocks {
			for _, in := range b.Instrs {
				lk, ok := in.(*ssa.Lookup)
				if !ok || !lk.CommaOk {
					continue
				}
				mt, ok := lk.X.Type().Underlying().(*types.Map)
				if !ok || !isNamed(mt.Elem(), mathPath, "Int") {
					continue
				}
				var val, okv *ssa.Extract
				if refs := lk.Referrers(); refs != nil {
					for _, u := range *refs {
						if ex, isEx := u.(*ssa.Extract); isEx {
							if ex.Index == 0 {
								val = ex
							} else {
								okv = ex
							}
						}
					}
				}
				if val == nil || val.Referrers() == nil {
					continue
				}
				// the block reached when the entry is present
				var present *ssa.BasicBlock
				if okv != nil && okv.Referrers() != nil {
					for _, u := range *okv.Referrers() {
						if iff, isIf := u.(*ssa.If); isIf && iff.Cond == ssa.Value(okv) {
							present = iff.Block().Succs[0]
						}
						if un, isUn := u.(*ssa.UnOp); isUn && un.Op == token.NOT && un.Referrers() != nil {
							for _, u2 := range *un.Referrers() {
								if iff, isIf := u2.(*ssa.If); isIf {
									present = iff.Block().Succs[1]
								}
							}
						}
					}
				}
				var bad []string
				for _, u := range *val.Referrers() {
					c, isCall := u.(ssa.CallInstruction)
					if !isCall {
						continue // a phi (joined with a replacement), a store, a map update: not a dereference
					}
					if present != nil && len(present.Preds) == 1 && (present == c.Block() || present.Dominates(c.Block())) {
						continue
					}
					bad = append(bad, shorten(callKey(c.Common()))+" at "+w.instrPos(c))
				}
				n++
				sort.Strings(bad)
				r.Check(len(bad) == 0, "NIL-INT", fmt.Sprintf("%s:comma-ok:%s", fnName(fn), shortKey(uncell(tm.Of(tm.Root(fn), lk.Index)))), w.instrPos(in),
					"the math.Int of a comma-ok map read is used only where the entry is present, or after the absent case was given a value",
					"the value of the comma-ok read is handed to "+strings.Join(dedupe(bad), ", ")+" also when the entry is absent: it is then the zero math.Int, whose nil *big.Int panics inside block processing")
			}
		}
	}
	if n == 0 {
		r.Note("NIL-INT: no plain lookup of a math.Int map in the block hook's tree")
		r.Rules["NIL-INT"].Floor = 0
	}
}
