package main

// C19 — operations touch only their own auction and keep agreed terms.
//   KV-AGREE      every keyed record is stored under the key formed by its own key fields
//   PREFIX-RANGE  per-auction reads range over the operated auction's id
//   SCAN-FILTER   unprefixed scans are filtered by the operated auction's id (shared with C05)
//   IMMUT-FIELDS  after construction only the mutable fields of auctions and bids are ever written
//   ID-MONO       auction ids come from the sequence; bid ids from the per-auction counter (+1)
//   ADDR-DERIVE   the three escrow addresses are derived from distinct role constants and the record's own id
//   ESC-ROLE      (shared) transfers stay within one auction

import (
	"fmt"
	"go/constant"
	"go/types"
	"sort"
	"strings"

	"golang.org/x/tools/go/ssa"
)

func init() { register("C19", checkC19) }

// mutable fields per record type (everything else is an agreed term)
var mutableFields = map[string]map[string]string{
	"BaseAuction":       {"Status": "lifecycle (ST-TRANS, C08)", "EndTimes": "append-only extension (EXT-APPEND, C13)", "Id": "genesis import renumbers ids"},
	"FixedPriceAuction": {"RemainingSellingCoin": "placement / cancel (REM-WRITERS, C06)"},
	"BatchAuction":      {"MatchedPrice": "published clearing price (PUB-PRICE, C16)"},
	"Bid":               {"Price": "modification", "Coin": "modification", "IsMatched": "matching flag (PUB-MATCHFLAG, C16)", "Id": "genesis import renumbers ids"},
}

func checkC19(w *World, r *Report) {
	r.Explanation = "Decides: (KV-AGREE) at every Set on a keyed keeper collection (keeper and genesis import) each key component is the value's own key field (or a parse/format of it) — whole-record rewrites always go back under the record's own key, and an allow-list entry is filed under the auction its own AuctionId names; (PREFIX-RANGE) every ranged walk of Bid/AllowedBidder/VestingQueue ranges over the prefix of an auction id that, resolved through the call frames from every entry point, is the operated auction's id; (SCAN-FILTER) elements of the one unprefixed Bid scan are used only under the AuctionId = operated auction filter; (IMMUT-FIELDS) outside constructors and freshly built records the only fields of BaseAuction/FixedPriceAuction/BatchAuction/Bid ever stored to are Status, EndTimes, RemainingSellingCoin, MatchedPrice, Bid.Price, Bid.Coin, Bid.IsMatched and (genesis import only) the ids; of the 13 AuctionI setters only SetStatus/SetEndTimes are called by the keeper and SetId by genesis import; (ID-MONO) auction ids are AuctionSeq.Next results, nothing else writes AuctionSeq; BidSeq is written only as stored+1 under the same auction id and a new bid's id is that value; (ADDR-DERIVE) the three role constants are pairwise distinct, each derivation appends the id, and the addresses stored at creation derive from the id that keys the record; (ESC-ROLE) transfers stay within one auction."
	r.NotDecided = "the observational frame property over histories (it follows from the above only under the trusted semantics of collections and bank)."
	r.Rule("KV-AGREE", "records are stored under the key formed by their own fields", 10)
	r.Rule("PREFIX-RANGE", "ranged reads use the operated auction's id", 1)
	r.Rule("SCAN-FILTER", "unprefixed scans are filtered by the auction id", 0)
	r.Rule("IMMUT-FIELDS", "only the mutable fields are written after construction", 5)
	r.Rule("ID-MONO", "ids come from counters that only grow", 4)
	r.Rule("ADDR-DERIVE", "escrow addresses derive from distinct roles and the record's id", 3)
	r.Rule("ESC-ROLE", "transfers have attributed roles in the confirmed table", 8)
	tm := NewTerms(w)

	// ---------------------------------------------------------------- KV-AGREE
	keyFields, keySrc := storeKeyFields(w, tm)
	n := map[string]int{}
	for _, fn := range w.Funcs {
		p := pkgOf(fn)
		if p == nil || (p.Path() != keeperPath && p.Path() != modulePath) || w.isGenerated(fn) {
			continue
		}
		fr := tm.Root(fn)
		for _, b := range fn.Blocks {
			for _, in := range b.Instrs {
				e := w.EffectOf(in)
				if e == nil || e.Kind != EffStoreWrite || e.Method != "Set" {
					continue
				}
				kf, keyed := keyFields[e.Coll]
				args := in.(ssa.CallInstruction).Common().Args
				if !keyed || len(args) < 4 {
					continue
				}
				base := fmt.Sprintf("%s:%s.Set", fnName(fn), e.Coll)
				n[base]++
				construct := fmt.Sprintf("%s#%d", base, n[base])
				key, val := tm.OperandAt(fr, in, args[2]), tm.OperandAt(fr, in, args[3])
				comps := keyComponents(key)
				ok, why := len(comps) == len(kf), fmt.Sprintf("key has %d components, the store key of %s has %d", len(comps), e.Coll, len(kf))
				for i := 0; ok && i < len(comps); i++ {
					ft := recordField(val, kf[i], e.Coll == "Auction")
					if related(comps[i], ft) || setIDDominates(w, fn, in.(ssa.CallInstruction), i) {
						continue
					}
					ok = false
					why = fmt.Sprintf("key component %d is %s but the stored record's %s is %s: the record is filed under a key that disagrees with its own content (it is listed, exported and re-imported under the id it carries)", i, comps[i].String(), kf[i], ft.String())
				}
				r.Check(ok, "KV-AGREE", construct, w.instrPos(in),
					fmt.Sprintf("the %s record is stored under the key built from its own %v (key fields derived from %s)", e.Coll, kf, keySrc[e.Coll]), why)
			}
		}
	}

	// ---------------------------------------------------------------- PREFIX-RANGE
	entries := allEntries(w)
	for _, en := range sortedKeys(entries) {
		pc := &prefixCollector{w: w, entry: en, seen: map[string]string{}}
		NewExplorer(w, tm, pc).Run(entries[en], 0)
		for _, k := range sortedKeys(pc.seen) {
			parts := strings.SplitN(k, "|", 3)
			ok := pc.seen[k] == ""
			r.Check(ok, "PREFIX-RANGE", en+":"+parts[0]+":"+parts[1], parts[2], fmt.Sprintf("%s: the ranged walk of %s uses the prefix of the operated auction's id", en, parts[0]), pc.seen[k])
		}
	}
	{
		// what C19 needs of the unprefixed scan is that foreign elements are not used; that the scan goes on after a
		// foreign element is C05's concern (the cumulative allowance)
		saveKeep := r.keep
		own := func(_, construct string) bool { return !strings.HasSuffix(construct, ":skip-continues") }
		r.keep = own
		if saveKeep != nil {
			r.keep = func(rule, construct string) bool { return saveKeep(rule, construct) && own(rule, construct) }
		}
		checkScanFilter(w, r, tm, "SCAN-FILTER")
		r.keep = saveKeep
	}
	checkNoMut(w, r, tm, "NO-MUT")

	// ---------------------------------------------------------------- IMMUT-FIELDS
	initM, _ := w.genesisFns()
	genesisTree := w.reachableFrom(initM)
	for _, fn := range w.Funcs {
		p := pkgOf(fn)
		if p == nil || p.Path() == simPath || w.isGenerated(fn) {
			continue
		}
		// constructors: functions returning the record type
		isCtor := false
		if res := fn.Signature.Results(); res.Len() >= 1 {
			if nn := namedOf(res.At(0).Type()); nn != nil && mutableFields[nn.Obj().Name()] != nil && nn.Obj().Pkg().Path() == typesPath {
				isCtor = true
			}
		}
		for _, b := range fn.Blocks {
			for _, in := range b.Instrs {
				st, ok := in.(*ssa.Store)
				if !ok {
					continue
				}
				fa, ok := st.Addr.(*ssa.FieldAddr)
				if !ok {
					continue
				}
				nn := namedOf(fa.X.Type())
				if nn == nil || nn.Obj().Pkg() == nil || nn.Obj().Pkg().Path() != typesPath || mutableFields[nn.Obj().Name()] == nil {
					continue
				}
				field := structOf(fa.X.Type()).Field(fa.Field).Name()
				tn := nn.Obj().Name()
				// setter bodies are accounted for at their call sites
				if obj := funcObj(fn); obj != nil && recvNamed(obj) == nn && strings.HasPrefix(fn.Name(), "Set") {
					continue
				}
				// a record being built: the struct is a fresh local / composite literal
				root, _ := addrRoot(fa.X)
				if al, isAlloc := root.(*ssa.Alloc); isAlloc && (isCtor || freshLiteral(al)) {
					continue
				}
				if isCanonicalRespelling(st, fa) {
					continue // the same address in its canonical spelling: the identity does not change
				}
				construct := fmt.Sprintf("%s:%s.%s", fnName(fn), tn, field)
				reason, mutable := mutableFields[tn][field]
				if field == "Id" && !genesisTree[fn] {
					mutable = false
				}
				r.Check(mutable, "IMMUT-FIELDS", construct, w.instrPos(in),
					fmt.Sprintf("%s.%s is a mutable field (%s)", tn, field, reason),
					fmt.Sprintf("%s.%s is an agreed term / identity of the record but is overwritten here", tn, field))
			}
		}
	}
	// setter call sites of AuctionI
	setterCalls := map[string][]string{}
	for _, fn := range w.Funcs {
		p := pkgOf(fn)
		if p == nil || p.Path() == simPath || w.isGenerated(fn) {
			continue
		}
		for _, b := range fn.Blocks {
			for _, in := range b.Instrs {
				c, ok := in.(ssa.CallInstruction)
				if !ok {
					continue
				}
				name := ""
				if c.Common().IsInvoke() && namedOf(c.Common().Value.Type()) == w.AuctionI {
					name = c.Common().Method.Name()
				} else if o := staticCalleeObj(c.Common()); o != nil && recvNamed(o) == w.BaseAuction {
					name = o.Name()
				}
				if strings.HasPrefix(name, "Set") {
					where := w.instrPos(in)
					if genesisTree[fn] {
						where += "(genesis)"
					}
					setterCalls[name] = append(setterCalls[name], where)
				}
			}
		}
	}
	for _, s := range sortedKeys(setterCalls) {
		ok := s == "SetStatus" || s == "SetEndTimes"
		if s == "SetId" {
			ok = true
			for _, wh := range setterCalls[s] {
				if !strings.HasSuffix(wh, "(genesis)") {
					ok = false
				}
			}
		}
		r.Check(ok, "IMMUT-FIELDS", "setter:"+s, setterCalls[s][0], fmt.Sprintf("AuctionI.%s is called only where the field may change (%d call sites)", s, len(setterCalls[s])),
			fmt.Sprintf("%s is called at %s: an agreed term of a stored auction can be changed", s, strings.Join(setterCalls[s], ", ")))
	}

	// ---------------------------------------------------------------- ID-MONO
	var seqWrites, bidSeqWrites []string
	bidSeqOK, bidSeqWhy := true, ""
	for _, fn := range w.Funcs {
		if p := pkgOf(fn); p == nil || p.Path() == simPath || w.isGenerated(fn) {
			continue
		}
		fr := tm.Root(fn)
		for _, b := range fn.Blocks {
			for _, in := range b.Instrs {
				e := w.EffectOf(in)
				if e == nil || e.Kind != EffStoreWrite {
					continue
				}
				switch e.Coll {
				case "AuctionSeq":
					seqWrites = append(seqWrites, e.Method+"@"+w.instrPos(in))
				case "BidSeq":
					bidSeqWrites = append(bidSeqWrites, e.Method+"@"+w.instrPos(in))
					args := in.(ssa.CallInstruction).Common().Args
					if e.Method != "Set" || len(args) < 4 {
						bidSeqOK, bidSeqWhy = false, e.Method+" on BidSeq"
						continue
					}
					key, val := tm.OperandAt(fr, in, args[2]), tm.OperandAt(fr, in, args[3])
					// val = (0 | Get(BidSeq, key)) + 1
					good := val.Op == "binop" && val.Name == "+" && val.Args[1].Key() == "const<1>"
					if good {
						for _, a := range val.Args[0].Alts() {
							switch {
							case a.Key() == "const<0>":
							case a.Op == "res" && a.Args[0].Op == "call" && strings.HasSuffix(a.Args[0].Name, "collections.Map.Get") && isField(a.Args[0].Args[0], "BidSeq") && a.Args[0].Args[2].Key() == key.Key():
							default:
								good = false
							}
						}
					}
					if !good {
						bidSeqOK, bidSeqWhy = false, "BidSeq is set to "+val.String()+" under "+key.String()+", not to the stored counter of the same auction + 1"
					}
				}
			}
		}
	}
	onlyNext := true
	for _, s := range seqWrites {
		if !strings.HasPrefix(s, "Next@") {
			onlyNext = false
		}
	}
	r.Check(onlyNext && len(seqWrites) >= 2, "ID-MONO", "AuctionSeq:only-next", keeperPath, fmt.Sprintf("the auction sequence is only ever advanced with Next (%d sites)", len(seqWrites)),
		"AuctionSeq is written with "+strings.Join(seqWrites, ", ")+": auction ids can repeat")
	r.Check(bidSeqOK && len(bidSeqWrites) == 1, "ID-MONO", "BidSeq:increment", keeperPath, "the per-auction bid counter is written at one site, as stored value + 1 under the same auction id",
		bidSeqWhy+" "+strings.Join(bidSeqWrites, ", "))
	// the counters survive an export/import: genesis import writes them (by drawing the next value per imported record, or
	// by setting them), otherwise the first record created after a restart reuses the id of an imported one
	if initG, _ := w.genesisFns(); initG != nil {
		wrote := map[string]bool{}
		for fn := range w.reachableFrom(initG) {
			for _, b := range fn.Blocks {
				for _, in := range b.Instrs {
					if e := w.EffectOf(in); e != nil && e.Kind == EffStoreWrite && (e.Coll == "BidSeq" || e.Coll == "AuctionSeq") {
						wrote[e.Coll] = true
					}
				}
			}
		}
		for _, c := range []string{"AuctionSeq", "BidSeq"} {
			r.Check(wrote[c], "ID-MONO", "genesis:"+c+"-restored", w.pos(initG.Pos()), "genesis import advances/sets "+c+" so that ids drawn after an import are fresh",
				"genesis import never writes "+c+": after an export/import the next id drawn repeats the id of an imported record, which is then overwritten (its reservation stays in escrow and is paid to the wrong party)")
		}
		// every imported bid is numbered by the allocator (its id is the counter value drawn for it on every path), so the
		// counter ends at the highest id whatever order and ids the file has
		okB, whyB, nB := true, "no Bid write in genesis import", 0
		for _, site := range tm.sitesWhere([]*ssa.Function{initG}, func(fr *Frame, in ssa.Instruction) bool {
			e := w.EffectOf(in)
			return e != nil && e.Kind == EffStoreWrite && e.Coll == "Bid" && e.Method == "Set"
		}) {
			nB++
			id := normField(tm.OperandAt(site.Fr, site.In, site.In.(ssa.CallInstruction).Common().Args[3]), "Id", nil)
			for _, alt := range id.Alts() {
				if !alt.Any(func(t *Term) bool {
					return t.Op == "binop" && t.Name == "+" && t.Args[1].Key() == "const<1>" && t.Args[0].Any(func(x *Term) bool { return x.Op == "call" && len(x.Args) > 0 && isField(x.Args[0], "BidSeq") })
				}) {
					okB, whyB = false, "an imported bid keeps the id "+alt.String()+" instead of the value drawn from the auction's bid counter: the counter can end below an imported id and the next bid placed overwrites that record"
				}
			}
		}
		r.Check(okB && nB > 0, "ID-MONO", "genesis:Bid.Id-from-counter", w.pos(initG.Pos()), "every bid imported from genesis is numbered by the auction's bid counter", whyB)
	}
	// ids assigned to new records
	ms := w.msgServerMethods()
	for _, m := range []string{"CreateFixedPriceAuction", "CreateBatchAuction"} {
		ok, why, n := true, "no Auction write", 0
		for _, site := range tm.sitesWhere([]*ssa.Function{ms[m]}, func(fr *Frame, in ssa.Instruction) bool {
			e := w.EffectOf(in)
			return e != nil && e.Kind == EffStoreWrite && e.Coll == "Auction" && e.Method == "Set"
		}) {
			n++
			id := recordField(tm.OperandAt(site.Fr, site.In, site.In.(ssa.CallInstruction).Common().Args[3]), "Id", true)
			if !(id.Op == "res" && id.Args[0].Op == "call" && strings.HasSuffix(id.Args[0].Name, "collections.Sequence.Next") && isField(id.Args[0].Args[0], "AuctionSeq")) {
				ok, why = false, "the new auction's id is "+id.String()
			}
		}
		r.Check(ok && n > 0, "ID-MONO", m+":id", w.pos(ms[m].Pos()), "a new auction's id is the value drawn from AuctionSeq.Next", why)
	}
	{
		ok, why, n := true, "no Bid write", 0
		for _, site := range tm.sitesWhere([]*ssa.Function{ms["PlaceBid"]}, func(fr *Frame, in ssa.Instruction) bool {
			e := w.EffectOf(in)
			return e != nil && e.Kind == EffStoreWrite && e.Coll == "Bid" && e.Method == "Set"
		}) {
			n++
			id := normField(tm.OperandAt(site.Fr, site.In, site.In.(ssa.CallInstruction).Common().Args[3]), "Id", nil)
			// the allocator's result: (0|stored)+1 keyed by the auction's id
			if !id.Any(func(t *Term) bool {
				return t.Op == "binop" && t.Name == "+" && t.Args[1].Key() == "const<1>" && t.Args[0].Any(func(x *Term) bool { return x.Op == "call" && len(x.Args) > 0 && isField(x.Args[0], "BidSeq") })
			}) {
				ok, why = false, "the new bid's id is "+id.String()
			}
		}
		r.Check(ok && n > 0, "ID-MONO", "PlaceBid:id", w.pos(ms["PlaceBid"].Pos()), "a new bid's id is the auction's bid counter + 1", why)
	}

	// ---------------------------------------------------------------- ADDR-DERIVE
	tp := w.Repo[typesPath]
	consts := map[string]string{}
	for _, name := range tp.Types.Scope().Names() {
		if c, ok := tp.Types.Scope().Lookup(name).(*types.Const); ok && strings.HasSuffix(name, "ReserveAddressPrefix") && c.Val().Kind() == constant.String {
			consts[name] = constant.StringVal(c.Val())
		}
	}
	vals := map[string]bool{}
	for _, v := range consts {
		vals[v] = true
	}
	r.Check(len(consts) == 3 && len(vals) == 3, "ADDR-DERIVE", "role-constants", typesPath, fmt.Sprintf("the three escrow role constants are pairwise distinct (%v)", consts),
		"two escrow roles share a derivation constant: two escrows of one auction are the same account")
	for _, m := range []string{"CreateFixedPriceAuction", "CreateBatchAuction"} {
		for _, site := range tm.sitesWhere([]*ssa.Function{ms[m]}, func(fr *Frame, in ssa.Instruction) bool {
			e := w.EffectOf(in)
			return e != nil && e.Kind == EffStoreWrite && e.Coll == "Auction" && e.Method == "Set"
		}) {
			in := site.In
			val := tm.OperandAt(site.Fr, in, in.(ssa.CallInstruction).Common().Args[3])
			id := recordField(val, "Id", true)
			var bad []string
			for f, kind := range escrowOf {
				at := recordField(val, f, true)
				role := roleOf(at)
				switch {
				case role.Kind != kind:
					bad = append(bad, fmt.Sprintf("%s is derived as %s", f, role))
				case role.Auction != "id:"+shortKey(id):
					bad = append(bad, fmt.Sprintf("%s is derived from %s, not from the record's own id", f, role.Auction))
				}
			}
			sort.Strings(bad)
			r.Check(len(bad) == 0, "ADDR-DERIVE", m+":stored-addresses", w.instrPos(in), "the escrow addresses stored in a new auction are derived from its own id with the matching role constant", strings.Join(bad, "; "))
		}
	}
	rolesTM = tm
	checkEscRole(w, r, tm)
}

// freshLiteral: the local is a composite literal / zero value being filled in (every store precedes any use as a whole value).
func freshLiteral(al *ssa.Alloc) bool {
	return al.Comment == "complit" || strings.HasPrefix(al.Comment, "complit")
}

type prefixCollector struct {
	BaseRule
	w     *World
	entry string
	seen  map[string]string // "Coll|n|pos" -> "" ok / reason
}

func (p *prefixCollector) OnInstr(x *Explorer, fr *Frame, in ssa.Instruction, st uint64) uint64 {
	e := p.w.EffectOf(in)
	if e == nil || e.Kind != EffStoreRead || !(e.Method == "Walk" || e.Method == "Iterate" || e.Method == "IterateRaw") {
		return st
	}
	args := in.(ssa.CallInstruction).Common().Args
	if len(args) < 3 {
		return st
	}
	if c, ok := args[2].(*ssa.Const); ok && c.Value == nil {
		return st // unprefixed: SCAN-FILTER
	}
	rt := x.TM.OperandAt(fr, in, args[2])
	if u := uncell(rt); u.Op == "const" && u.Name == "nil" {
		return st // a collector that is handed a nil range by its caller: unprefixed (SCAN-FILTER where it matters)
	}
	key := fmt.Sprintf("%s|%s|%s", e.Coll, fnName(in.Parent()), p.w.instrPos(in))
	var id *Term
	rt.Walk(func(t *Term) bool {
		if id == nil && t.Op == "call" && strings.Contains(t.Name, "NewPrefixedPairRange") && len(t.Args) == 1 {
			id = t.Args[0]
		}
		return id == nil
	})
	if id == nil {
		p.seen[key] = "the range is " + rt.String() + ", not a prefix range over an auction id"
		return st
	}
	ident := auctionIdentity(id)
	ok := false
	switch {
	case strings.HasPrefix(p.entry, "Msg."):
		ok = strings.HasPrefix(ident, "id:field<AuctionId>(param<msg>)") || strings.HasPrefix(ident, "id:res<0>(call<coll.Sequence.Next>")
	case p.entry == "BeginBlock":
		ok = strings.HasPrefix(ident, "elem:")
	}
	if ok {
		if _, had := p.seen[key]; !had {
			p.seen[key] = ""
		}
	} else {
		p.seen[key] = "the prefix is the id " + ident + ", which is not the auction this entry point operates on"
	}
	return st
}

// isCanonicalRespelling: `x.F = AccAddressFromBech32(x.F).String()` — the stored value is the canonical rendering of the
// address parsed from the very field it overwrites.
func isCanonicalRespelling(st *ssa.Store, fa *ssa.FieldAddr) bool {
	c, ok := st.Val.(*ssa.Call)
	if !ok || callKey(&c.Call) != sdkPath+".AccAddress.String" || len(c.Call.Args) != 1 {
		return false
	}
	ex, ok := c.Call.Args[0].(*ssa.Extract)
	if !ok || ex.Index != 0 {
		return false
	}
	pc, ok := ex.Tuple.(*ssa.Call)
	if !ok || callKey(&pc.Call) != sdkPath+".AccAddressFromBech32" || len(pc.Call.Args) != 1 {
		return false
	}
	l, ok := pc.Call.Args[0].(*ssa.UnOp)
	if !ok {
		return false
	}
	src, ok := l.X.(*ssa.FieldAddr)
	return ok && src.X == fa.X && src.Field == fa.Field
}
