package main

// ctx.go — instruction sites in calling context. Site-scanning rules must not depend on which function a piece of code
// happens to live in (a helper extracted or inlined by a refactoring changes nothing observable). walkContexts visits
// every instruction of every repository function reachable from the given roots, each in the frame entered through the
// actual chain of calls from the root, so that provenance terms of helper parameters resolve to what the caller passed.

import (
	"sort"

	"golang.org/x/tools/go/ssa"
)

const maxCtxDepth = 14

// walkContexts calls visit(fr, in) for every instruction reachable from each root, once per calling context.
// Callbacks (closures handed to dependency functions such as collections' Walk) are entered with unknown arguments.
func (tm *Terms) walkContexts(roots []*ssa.Function, visit func(fr *Frame, in ssa.Instruction)) {
	seen := map[string]bool{}
	var rec func(fr *Frame)
	rec = func(fr *Frame) {
		if fr == nil || fr.Fn == nil || fr.Fn.Blocks == nil || seen[fr.id] || fr.depth > maxCtxDepth {
			return
		}
		seen[fr.id] = true
		for _, b := range fr.Fn.Blocks {
			for _, in := range b.Instrs {
				visit(fr, in)
				ci, ok := in.(ssa.CallInstruction)
				if !ok {
					continue
				}
				cc := ci.Common()
				if callee := tm.W.calleeBody(cc); callee != nil {
					if !fr.inChain(callee) && callee != fr.Fn {
						rec(tm.Enter(fr, ci, callee))
					}
					continue
				}
				if dfr := tm.enterDynamic(fr, ci); dfr != nil {
					rec(dfr)
					continue
				}
				// a closure value called directly, or handed to a dependency that calls it back
				if mc, ok := cc.Value.(*ssa.MakeClosure); ok {
					if f, ok := mc.Fn.(*ssa.Function); ok && !fr.inChain(f) {
						rec(tm.Enter(fr, ci, f))
					}
					continue
				}
				for _, a := range cc.Args {
					if mc, ok := a.(*ssa.MakeClosure); ok {
						if f, ok := mc.Fn.(*ssa.Function); ok && !fr.inChain(f) {
							rec(tm.EnterClosure(fr, mc, ci))
						}
						continue
					}
					// a callback this function was itself handed (a helper that walks a collection with its caller's
					// callback): the closure its caller made, in the caller's context
					if _, isParam := a.(*ssa.Parameter); isParam && isFuncType(a.Type()) {
						if f, mc, at := tm.resolveFuncValue(fr, a); f != nil && mc != nil && at != nil && !fr.inChain(f) {
							rec(tm.EnterClosure(at, mc, ci))
						}
					}
				}
			}
		}
	}
	for _, r := range roots {
		rec(tm.Root(r))
	}
}

// walkFrom is walkContexts starting at an existing frame (the frame's own instructions and everything it calls).
func (tm *Terms) walkFrom(start *Frame, visit func(fr *Frame, in ssa.Instruction)) {
	seen := map[string]bool{}
	var rec func(fr *Frame)
	rec = func(fr *Frame) {
		if fr == nil || fr.Fn == nil || fr.Fn.Blocks == nil || seen[fr.id] || fr.depth > maxCtxDepth+start.depth {
			return
		}
		seen[fr.id] = true
		for _, b := range fr.Fn.Blocks {
			for _, in := range b.Instrs {
				visit(fr, in)
				ci, ok := in.(ssa.CallInstruction)
				if !ok {
					continue
				}
				cc := ci.Common()
				if callee := tm.W.calleeBody(cc); callee != nil {
					if !fr.inChain(callee) && callee != fr.Fn {
						rec(tm.Enter(fr, ci, callee))
					}
					continue
				}
				if dfr := tm.enterDynamic(fr, ci); dfr != nil {
					rec(dfr)
					continue
				}
				if mc, ok := cc.Value.(*ssa.MakeClosure); ok {
					if f, ok := mc.Fn.(*ssa.Function); ok && !fr.inChain(f) {
						rec(tm.Enter(fr, ci, f))
					}
					continue
				}
				for _, a := range cc.Args {
					if mc, ok := a.(*ssa.MakeClosure); ok {
						if f, ok := mc.Fn.(*ssa.Function); ok && !fr.inChain(f) {
							rec(tm.EnterClosure(fr, mc, ci))
						}
						continue
					}
					// a callback this function was itself handed (a helper that walks a collection with its caller's
					// callback): the closure its caller made, in the caller's context
					if _, isParam := a.(*ssa.Parameter); isParam && isFuncType(a.Type()) {
						if f, mc, at := tm.resolveFuncValue(fr, a); f != nil && mc != nil && at != nil && !fr.inChain(f) {
							rec(tm.EnterClosure(at, mc, ci))
						}
					}
				}
			}
		}
	}
	rec(start)
}

// resolveFuncValue follows a function-typed value (a closure, a function, or a parameter bound through the call frames)
// to the repository function it denotes; for a closure also the frame in which it was made.
func (tm *Terms) resolveFuncValue(fr *Frame, v ssa.Value) (*ssa.Function, *ssa.MakeClosure, *Frame) {
	for depth := 0; depth < 10 && fr != nil; depth++ {
		switch f := v.(type) {
		case *ssa.Function:
			return f, nil, fr
		case *ssa.MakeClosure:
			fn, _ := f.Fn.(*ssa.Function)
			return fn, f, fr
		case *ssa.Parameter:
			if fr.ArgVals == nil {
				return nil, nil, nil
			}
			found := false
			for i, p := range fr.Fn.Params {
				if p == f && i < len(fr.ArgVals) {
					v, fr, found = fr.ArgVals[i], fr.Parent, true
					break
				}
			}
			if !found {
				return nil, nil, nil
			}
		case *ssa.ChangeType:
			v = f.X
		default:
			return nil, nil, nil
		}
	}
	return nil, nil, nil
}

// enterDynamic: the frame of a call through a function value that resolves to a repository function.
func (tm *Terms) enterDynamic(fr *Frame, ci ssa.CallInstruction) *Frame {
	cc := ci.Common()
	if cc.IsInvoke() || cc.StaticCallee() != nil {
		return nil
	}
	if _, isBuiltin := cc.Value.(*ssa.Builtin); isBuiltin {
		return nil
	}
	fn, mc, at := tm.resolveFuncValue(fr, cc.Value)
	if fn == nil || fn.Blocks == nil || !tm.W.isRepoPkg(pkgOf(fn)) || fr.inChain(fn) {
		return nil
	}
	cfr := tm.Enter(fr, ci, fn)
	if mc != nil {
		cfr.Closure, cfr.ClosureFrame = mc, at
	}
	return cfr
}

// apiRoots: the functions through which the outside world reaches the module's state: message handlers, the block
// hook, genesis import/export, and every exported method of the keeper (other modules call those directly).
func (w *World) apiRoots() []*ssa.Function {
	set := map[*ssa.Function]bool{}
	for _, f := range w.msgServerMethods() {
		set[f] = true
	}
	set[w.beginBlockFn()] = true
	if i, e := w.genesisFns(); i != nil {
		set[i] = true
		if e != nil {
			set[e] = true
		}
	}
	for _, fn := range w.Funcs {
		if fn.Parent() != nil || w.isGenerated(fn) {
			continue
		}
		obj := funcObj(fn)
		if obj == nil || !obj.Exported() {
			continue
		}
		if rn := recvNamed(obj); rn != nil && rn == w.Keeper {
			set[fn] = true
		}
	}
	return sortedFns(set)
}

// ctxSite is an instruction in a calling context.
type ctxSite struct {
	Fr *Frame
	In ssa.Instruction
}

// sitesWhere collects the context sites satisfying pred, in a deterministic order.
func (tm *Terms) sitesWhere(roots []*ssa.Function, pred func(fr *Frame, in ssa.Instruction) bool) []ctxSite {
	var out []ctxSite
	tm.walkContexts(roots, func(fr *Frame, in ssa.Instruction) {
		if pred(fr, in) {
			out = append(out, ctxSite{fr, in})
		}
	})
	sort.SliceStable(out, func(i, j int) bool {
		pi, pj := tm.W.instrPos(out[i].In), tm.W.instrPos(out[j].In)
		if pi != pj {
			return pi < pj
		}
		return out[i].Fr.id < out[j].Fr.id
	})
	return out
}
