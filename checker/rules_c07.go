package main

// C07 — block processing never fails and never hides a failure.
//   BB-WIRE     module BeginBlock reaches the keeper's block hook and returns its error
//   BB-EXHAUST  for every real AuctionStatus value, with every callee succeeding, the hook cannot fail
//   BB-ERRPROP  an error produced anywhere in the hook's call tree is never dropped or overwritten
//   DIV-GUARD   every Dec division in the hook's call tree has a divisor proven non-zero

import (
	"fmt"
	"go/token"
	"go/types"
	"strings"

	"golang.org/x/tools/go/ssa"
)

func init() { register("C07", checkC07) }

// statusRule: all AuctionStatus reads give the constant c; dependency calls succeed; type assertions hold.
type statusRule struct {
	BaseRule
	status int64
}

func (s *statusRule) ValueOf(x *Explorer, fr *Frame, v ssa.Value) AV {
	if ta, ok := v.(*ssa.TypeAssert); ok && ta.CommaOk {
		return True // data invariant: the stored Type field agrees with the dynamic type
	}
	if isNamed(v.Type(), typesPath, "AuctionStatus") {
		t := x.TM.Of(fr, v)
		if isField(t, "Status") {
			return Int(s.status)
		}
	}
	return Unknown
}

func (s *statusRule) CallResult(x *Explorer, fr *Frame, c ssa.CallInstruction) ([]AV, CallMode) {
	cc := c.Common()
	if lastResultIsError(cc) {
		n := cc.Signature().Results().Len()
		vals := make([]AV, n)
		vals[n-1] = Nil
		switch callKey(cc) {
		case "fmt.Errorf", "errors.New", "cosmossdk.io/errors.Wrap", "cosmossdk.io/errors.Wrapf":
			return nil, CallDefault
		}
		return vals, CallOverride // no injected failure: every dependency call succeeds
	}
	return nil, CallDefault
}

func checkC07(w *World, r *Report) {
	r.Explanation = "Decides on every path of the block hook's call tree (module BeginBlock → keeper hook → per-status executors → settlement steps): (BB-WIRE) the module's BeginBlock returns the keeper hook's error; (BB-EXHAUST) for each of the five real AuctionStatus constants, with every callee succeeding and every stored record well-formed, no failure exit or panic is reachable — a status the dispatch rejects would halt the chain as soon as such an auction exists; (BB-ERRPROP) for every call that can return an error, every exit reached after that call failed is itself a failure (the error is never dropped, overwritten by a later iteration, or replaced by nil); (DIV-GUARD) every Dec division has a divisor that is guarded non-zero or is a price field whose every writer is covered by a positivity check."
	r.NotDecided = "general panic freedom and success in every reachable state (address parsing of stored strings, negative coin construction, bank failures, gas); whether a callee that reports an error should have failed."
	r.Assumptions = append(r.Assumptions, "BB-EXHAUST assumes dependency calls succeed and that a stored auction's Type field agrees with its dynamic type (type assertions hold)")
	r.Rule("BB-WIRE", "the module's block hook reaches the keeper's per-auction processing (its error is a BB-ERRPROP site)", 1)
	r.Rule("BB-EXHAUST", "no spontaneous failure for any AuctionStatus value", 5)
	r.Rule("BB-ERRPROP", "errors in the block hook's call tree are propagated", 25)
	r.Rule("DIV-GUARD", "divisors are non-zero", 1)

	tm := NewTerms(w)
	bb := w.beginBlockFn()
	tree := w.reachableFrom(bb)

	// BB-WIRE: BeginBlock must reach a function that walks the auction collection and must propagate.
	reads := false
	for fn := range tree {
		for _, b := range fn.Blocks {
			for _, in := range b.Instrs {
				if e := w.EffectOf(in); e != nil && e.Kind == EffStoreRead && e.Coll == "Auction" {
					reads = true
				}
			}
		}
	}
	r.Check(reads, "BB-WIRE", "BlockHook:reaches-auction-walk", w.pos(bb.Pos()),
		"the module's block hook ("+fnName(bb)+") reaches code that iterates the Auction collection",
		"neither BeginBlock nor EndBlock reaches the keeper's per-auction processing: auctions never open, settle or vest, and no failure is ever reported")

	// BB-EXHAUST
	statuses := w.enumConsts("AuctionStatus")
	for _, v := range []int64{1, 2, 3, 4, 5} {
		name, ok := statuses[v]
		if !ok {
			fatalf("AuctionStatus constant with value %d not found", v)
		}
		x := NewExplorer(w, tm, &statusRule{status: v})
		var bad []string
		for _, o := range x.Run(bb, 0) {
			if o.Kind == ExitPanic {
				bad = append(bad, fmt.Sprintf("panic at %s", w.instrPos(o.Instr)))
				continue
			}
			if av, ok := o.ErrAV(bb); ok && av.K != avNil {
				bad = append(bad, fmt.Sprintf("BeginBlock can return a %s error (exit %s)", av, w.instrPos(o.Instr)))
			}
		}
		bad = dedupe(bad)
		r.Check(len(bad) == 0, "BB-EXHAUST", "status:"+name, w.pos(bb.Pos()),
			fmt.Sprintf("with an auction in status %s (=%d) stored and every callee succeeding, block processing returns nil", name, v),
			fmt.Sprintf("a failure is produced by the dispatch itself, not by a callee: %s — once such an auction exists every block fails (chain halt)", strings.Join(bad, "; ")))
	}

	// BB-ERRPROP over the whole call tree
	checkErrProp(w, r, tm, sortedFns(tree), "BB-ERRPROP")

	checkDivGuard(w, r, tm, tree)
	checkAddrCanon(w, r, tm)
	checkCoinsCtor(w, r, tm)
	checkNilInt(w, r, tm)
	checkEveryAuction(w, r, tm, "BB-EVERY")
	checkModuleIface(w, r, "MOD-IFACE", "BeginBlock")
	// a quantity rounded up, or a payment rounded down, makes a payment exceed its reservation: the refund is negative
	// and constructing that coin panics inside block processing
	r.Sub(checkC04, "RD-DIR")
}

// DIV-GUARD ---------------------------------------------------------------------

var decDivs = map[string]bool{
	mathPath + ".LegacyDec.Quo": true, mathPath + ".LegacyDec.QuoTruncate": true, mathPath + ".LegacyDec.QuoRoundUp": true,
	mathPath + ".LegacyDec.QuoInt": true, mathPath + ".LegacyDec.QuoInt64": true, mathPath + ".LegacyDec.QuoMut": true,
	mathPath + ".LegacyDec.QuoTruncateMut": true, mathPath + ".Int.Quo": true, mathPath + ".Int.QuoRaw": true,
}

// priceFields are Dec fields whose writers are all covered by positivity checks (VB-PRESENT, C18, and genesis Validate).
var priceFields = map[string]bool{"Price": true, "StartPrice": true, "MinBidPrice": true}

func checkDivGuard(w *World, r *Report, tm *Terms, tree map[*ssa.Function]bool) {
	for _, fn := range sortedFns(tree) {
		fr := tm.Root(fn)
		for _, b := range fn.Blocks {
			for _, in := range b.Instrs {
				c, ok := in.(*ssa.Call)
				if !ok || !decDivs[callKey(&c.Call)] || len(c.Call.Args) < 2 {
					continue
				}
				div := c.Call.Args[1]
				construct := fmt.Sprintf("%s:%s#%d", fnName(fn), shorten(callKey(&c.Call)), occurrence(fn, c))
				what := fmt.Sprintf("divisor of %s in %s is never zero", shorten(callKey(&c.Call)), fnName(fn))
				t := tm.Of(fr, div)
				// (a) a price: the field itself, or a price that went through Dec.String -> map key -> MustNewDecFromStr
				if ok, why := priceProvenance(w, tm, fn, div, t); ok {
					r.Pass("DIV-GUARD", construct, w.instrPos(in), what+" ("+why+")")
					continue
				}
				// (b) guarded: a dominating test of the divisor's source against zero leaves through a return
				if ok, why := zeroGuarded(w, fn, c, div); ok {
					r.Pass("DIV-GUARD", construct, w.instrPos(in), what+" ("+why+")")
					continue
				}
				r.Fail("DIV-GUARD", construct, w.instrPos(in), what,
					"the divisor "+t.String()+" is neither a positivity-checked price field nor guarded by a dominating zero test: a zero divisor panics inside block processing")
			}
		}
	}
}

// priceProvenance: every alternative of the divisor term is a price field of a
// stored record / message, or a parameter that every caller in the repository
// binds to such a price (possibly re-parsed from its own String()).
var depthGuard int

func priceProvenance(w *World, tm *Terms, fn *ssa.Function, v ssa.Value, t *Term) (bool, string) {
	ok := true
	for _, alt := range t.Alts() {
		if alt.Op == "field" && priceFields[alt.Name] {
			continue
		}
		ok = false
	}
	if ok {
		return true, "a price field: " + t.String()
	}
	// parameter: check all call sites
	if p, isParam := v.(*ssa.Parameter); isParam {
		idx := -1
		for i, q := range fn.Params {
			if q == p {
				idx = i
			}
		}
		sites := w.callSitesOf(fn)
		if len(sites) == 0 || idx < 0 {
			return false, ""
		}
		var whys []string
		for _, s := range sites {
			args := s.Common().Args
			if idx >= len(args) {
				return false, ""
			}
			at := tm.OperandAt(tm.Root(s.Parent()), s, args[idx])
			good, why := priceTerm(w, tm, s.Parent(), args[idx], at, 0)
			if !good {
				// handed on from the caller's own parameter: follow one more level of call sites
				if pp, isP := args[idx].(*ssa.Parameter); isP && depthGuard < 3 {
					depthGuard++
					good, why = priceProvenance(w, tm, s.Parent(), pp, at)
					depthGuard--
				}
			}
			if !good {
				return false, ""
			}
			whys = append(whys, why)
		}
		return true, "parameter bound at every call site to " + strings.Join(dedupe(whys), " / ")
	}
	return false, ""
}

// priceTerm: the term is a price field, or an element of a slice/map-key set
// that is only ever filled with LegacyMustNewDecFromStr(price.String()).
func priceTerm(w *World, tm *Terms, fn *ssa.Function, v ssa.Value, t *Term, depth int) (bool, string) {
	if depth > 3 {
		return false, ""
	}
	all := true
	for _, alt := range t.Alts() {
		if alt.Op == "field" && priceFields[alt.Name] {
			continue
		}
		all = false
	}
	if all {
		return true, "price field"
	}
	// element of a slice returned by a repository function whose element stores are parsed price strings
	if t.Op == "elem" || t.Op == "last" {
		base := t.Args[0]
		var src *ssa.Function
		base.Walk(func(x *Term) bool {
			if x.Op == "call" {
				if c, ok := x.V.(*ssa.Call); ok {
					if f := w.calleeBody(&c.Call); f != nil {
						src = f
					}
				}
			}
			// the list as its producer built it (the producer's body inlined into the term)
			if src == nil && x.Op == "makeslice" {
				if in, ok := x.V.(ssa.Instruction); ok && in.Parent() != nil && in.Parent() != fn {
					src = in.Parent()
				}
			}
			return src == nil
		})
		if src != nil && slicesOnlyHoldPrices(w, tm, src) {
			return true, "element of the price list built by " + fnName(src) + " from Bid.Price via String()/MustNewDecFromStr"
		}
	}
	return false, ""
}

// slicesOnlyHoldPrices: every store of a LegacyDec element in fn has the shape
// LegacyMustNewDecFromStr(k) with k a key of a map whose keys are all field<Price>.String().
func slicesOnlyHoldPrices(w *World, tm *Terms, fn *ssa.Function) bool {
	// every LegacyDec put into a slice by fn or by a helper it calls — by an element store or by append — is
	// LegacyMustNewDecFromStr(k) with k a key of a map all of whose keys are Price.String() of a record
	stores := 0
	okElem := func(g *ssa.Function, fr *Frame, t *Term) bool {
		if !(t.Op == "call" && strings.HasSuffix(t.Name, ".LegacyMustNewDecFromStr") && len(t.Args) == 1) {
			return false
		}
		k := uncell(t.Args[0])
		if k.Op != "mapkey" || len(k.Args) != 1 {
			return false
		}
		m := uncell(k.Args[0])
		mm, ok := m.V.(*ssa.MakeMap)
		if m.Op != "makemap" || !ok {
			return false
		}
		ks, _ := mapUpdatesOf(tm, fr, mm)
		if len(ks) == 0 {
			return false
		}
		for _, kt := range ks {
			if !(kt.Op == "call" && strings.HasSuffix(kt.Name, ".LegacyDec.String") && len(kt.Args) == 1 && isField(kt.Args[0], "Price")) {
				return false
			}
		}
		return true
	}
	for _, g := range sortedFns(w.reachableFrom(fn)) {
		if p := pkgOf(g); p == nil || !w.isRepoPkg(p) || w.isGenerated(g) {
			continue
		}
		fr := tm.Root(g)
		for _, b := range g.Blocks {
			for _, in := range b.Instrs {
				switch x := in.(type) {
				case *ssa.Store:
					if !isNamed(x.Val.Type(), mathPath, "LegacyDec") {
						continue
					}
					ia, isIdx := x.Addr.(*ssa.IndexAddr)
					if !isIdx {
						continue
					}
					if al, isAlloc := ia.X.(*ssa.Alloc); isAlloc && al.Comment == "varargs" {
						continue // the argument array of an append, judged at the append
					}
					stores++
					if !okElem(g, fr, tm.Of(fr, x.Val)) {
						return false
					}
				case *ssa.Call:
					bi, isB := x.Call.Value.(*ssa.Builtin)
					if !isB || bi.Name() != "append" || len(x.Call.Args) != 2 {
						continue
					}
					sl, isSlice := x.Type().Underlying().(*types.Slice)
					if !isSlice || !isNamed(sl.Elem(), mathPath, "LegacyDec") {
						continue
					}
					es, ok := listElems(w, tm, tm.OperandAt(fr, x, x.Call.Args[1]), 0)
					if !ok {
						return false
					}
					for _, e := range es {
						stores++
						if !okElem(g, fr, e.t) {
							return false
						}
					}
				}
			}
		}
	}
	return stores > 0
}

// callSitesOf returns the static call sites of fn in the repository.
var callSiteIndex map[*ssa.Function][]ssa.CallInstruction

func (w *World) callSitesOf(fn *ssa.Function) []ssa.CallInstruction {
	if callSiteIndex == nil {
		callSiteIndex = map[*ssa.Function][]ssa.CallInstruction{}
		for _, f := range w.Funcs {
			for _, b := range f.Blocks {
				for _, in := range b.Instrs {
					if c, ok := in.(ssa.CallInstruction); ok {
						if callee := w.calleeBody(c.Common()); callee != nil {
							callSiteIndex[callee] = append(callSiteIndex[callee], c)
						}
					}
				}
			}
		}
	}
	return callSiteIndex[fn]
}

// zeroGuarded: the divisor is Dec/Int built from an integer n (LegacyNewDec(n)…),
// and a dominating `n == 0` test leaves the function on its true edge.
func zeroGuarded(w *World, fn *ssa.Function, div *ssa.Call, v ssa.Value) (bool, string) {
	// find the integer source
	src := v
	if c, ok := v.(*ssa.Call); ok {
		k := callKey(&c.Call)
		if (strings.HasSuffix(k, ".LegacyNewDec") || strings.HasSuffix(k, ".LegacyNewDecFromInt") || strings.HasSuffix(k, ".NewInt")) && len(c.Call.Args) == 1 {
			src = c.Call.Args[0]
		}
	}
	for _, b := range fn.Blocks {
		iff, ok := b.Instrs[len(b.Instrs)-1].(*ssa.If)
		if !ok {
			continue
		}
		bo, ok := iff.Cond.(*ssa.BinOp)
		if !ok || (bo.Op != token.EQL && bo.Op != token.NEQ) {
			continue
		}
		isZero := func(x ssa.Value) bool {
			c, ok := x.(*ssa.Const)
			return ok && c.Value != nil && c.Value.ExactString() == "0"
		}
		var tested ssa.Value
		if isZero(bo.Y) {
			tested = bo.X
		} else if isZero(bo.X) {
			tested = bo.Y
		}
		if tested == nil || !sameValue(tested, src) {
			continue
		}
		zeroSucc, nonzeroSucc := b.Succs[0], b.Succs[1]
		if bo.Op == token.NEQ {
			zeroSucc, nonzeroSucc = nonzeroSucc, zeroSucc
		}
		// the zero edge must not reach the division; the non-zero edge must dominate it
		if (zeroSucc == div.Block() || blockReachable(zeroSucc, div.Block())) && !nonzeroSucc.Dominates(div.Block()) {
			continue
		}
		if nonzeroSucc.Dominates(div.Block()) && len(nonzeroSucc.Preds) == 1 {
			return true, fmt.Sprintf("guarded by the zero test at %s", w.instrPos(iff))
		}
	}
	return false, ""
}
