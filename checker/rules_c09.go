package main

// C09 — vesting pays exactly the proceeds, on schedule, once.
//   VEST-SHARE   each instalment is floor(total × weight) of the swept total, for the schedule entry that keys it
//   VEST-REM     the last index stores the running remainder total − Σ stored amounts
//   VEST-ONCE    a release transfer is followed, in the same iteration, by persisting Released=true for that very record
//   VEST-WRITERS who writes the vesting queue
//   (release timing and ¬Released are TIME-POL / FINISH-LAST under C08)

import (
	"fmt"
	"go/token"
	"sort"
	"strings"

	"golang.org/x/tools/go/ssa"
)

func init() { register("C09", checkC09) }

func checkC09(w *World, r *Report) {
	r.Explanation = "Decides: (VEST-SHARE) in the routine that fills the vesting queue, the amount stored for an instalment is TruncateInt(MulTruncate(Dec(total), weight)) — rounding direction FLOOR — where total is the very coin swept from the paying escrow into the vesting escrow (the escrow's whole balance of the paying denomination) and weight/release time belong to the same schedule entry that keys the record; (VEST-REM) the alternative stored amount is the running remainder R with R0 = total and R' = R − (amount just stored), and it is selected exactly when the loop index equals len(schedules)−1 of the iterated schedule list; (VEST-ONCE) in the releasing routine every transfer out of the vesting escrow is of the iterated record's own PayingCoin to the auction's auctioneer and is followed, before the loop continues or returns, by a VestingQueue write of that record with Released=true under the key rebuilt from its own (auction id, release time); (VEST-WRITERS) the vesting queue is written only by settlement (Released=false), release (Released=true) and genesis import; no message handler reaches a write."
	r.NotDecided = "Σ instalments = proceeds as a number for 1..100 weights (VEST-REM is its structural reason); schedule validity arithmetic (weights sum to one)."
	r.Rule("VEST-SHARE", "instalment = floor(total × weight) of the swept total, keyed by its own schedule entry", 1)
	r.Rule("VEST-REM", "last instalment takes the running remainder", 1)
	r.Rule("VEST-ONCE", "release transfer ⇔ Released persisted for the same record", 2)
	r.Rule("VEST-WRITERS", "vesting queue writers", 2)
	r.Rule("VEST-DISTINCT", "release times are strictly increasing and after the end time (they key the queue)", 4)
	vestingObligations(w, r, NewTerms(w))
	r.Sub(checkC08, "TIME-REL", "FINISH-LAST")
	checkCoinsCtor(w, r, NewTerms(w))
}

// vestingObligations adds the VEST-* obligations (shared by C09 and, for the vesting escrow clause, C01).
func vestingObligations(w *World, r *Report, tm *Terms) {
	vestDistinct(w, r, tm)
	bb := w.beginBlockFn()
	tree := w.reachableFrom(bb)
	ms := w.msgServerMethods()
	initM, _ := w.genesisFns()
	initTree := w.reachableFrom(initM)

	type vqSite struct {
		fn       *ssa.Function // the operation the write belongs to (nearest exported function up the calling context)
		opFr     *Frame        // its frame in that context
		in       ssa.CallInstruction
		key, val *Term
	}
	var sites []vqSite
	seenSite := map[string]bool{}
	for _, cs := range tm.sitesWhere(w.apiRoots(), func(fr *Frame, in ssa.Instruction) bool {
		if w.isGenerated(fr.Fn) || pkgOf(fr.Fn) == nil || pkgOf(fr.Fn).Path() == simPath {
			return false
		}
		e := w.EffectOf(in)
		return e != nil && e.Kind == EffStoreWrite && e.Coll == "VestingQueue"
	}) {
		// the operation: the nearest frame (from the write upwards) whose function is exported
		opFr := cs.Fr
		for f := cs.Fr; f != nil; f = f.Parent {
			opFr = f
			if obj := funcObj(f.Fn); obj != nil && obj.Exported() && f.Fn.Parent() == nil {
				break
			}
		}
		k := fmt.Sprintf("%p|%s", cs.In, opFr.Fn.String())
		if seenSite[k] {
			continue
		}
		seenSite[k] = true
		c := cs.In.(ssa.CallInstruction)
		e := w.EffectOf(cs.In)
		s := vqSite{fn: opFr.Fn, opFr: opFr, in: c}
		if e.Method == "Set" && len(c.Common().Args) >= 4 {
			s.key, s.val = tm.OperandAt(cs.Fr, cs.In, c.Common().Args[2]), tm.OperandAt(cs.Fr, cs.In, c.Common().Args[3])
		}
		sites = append(sites, s)
	}
	// ---------------------------------------------------------------- VEST-WRITERS
	var fill, release []vqSite
	for _, s := range sites {
		construct := fnName(s.fn) + ":VestingQueue." + w.EffectOf(s.in).Method
		switch {
		case s.val == nil:
			r.Fail("VEST-WRITERS", construct, w.instrPos(s.in), "the vesting queue is only written with Set", "a "+w.EffectOf(s.in).Method+" on the vesting queue: instalments can disappear")
		case initTree[s.fn] && !tree[s.fn]:
			r.Pass("VEST-WRITERS", construct, w.instrPos(s.in), "genesis import restores the vesting queue")
		case tree[s.fn]:
			rel := normField(s.val, "Released", nil)
			switch {
			case rel.Key() == "const<false>" || rel.Op == "zero":
				fill = append(fill, s)
				r.Pass("VEST-WRITERS", construct, w.instrPos(s.in), "settlement creates instalments with Released=false")
			case rel.Key() == "const<true>":
				release = append(release, s)
				r.Pass("VEST-WRITERS", construct, w.instrPos(s.in), "release persists Released=true")
			default:
				r.Fail("VEST-WRITERS", construct, w.instrPos(s.in), "block processing writes instalments with a constant Released flag", "Released is "+rel.String())
			}
		default:
			// an exported keeper method that block processing does not use (an entry point kept for other modules): it is
			// not a message handler's writer — that is the obligation below — and what it writes is judged where block
			// processing reaches the same code
			r.Pass("VEST-WRITERS", construct, w.instrPos(s.in), fnName(s.fn)+" is an exported entry point outside block processing and genesis import (no message handler reaches it: msg:no-writer)")
		}
	}
	var hits []string
	for _, name := range sortedKeys(ms) {
		for fn := range w.reachableFrom(ms[name]) {
			for _, s := range sites {
				if s.fn == fn {
					hits = append(hits, name+"→"+w.instrPos(s.in))
				}
			}
		}
	}
	r.Check(len(hits) == 0, "VEST-WRITERS", "msg:no-writer", keeperPath, "no message handler reaches a vesting queue write", strings.Join(hits, ", "))

	// ---------------------------------------------------------------- VEST-SHARE / VEST-REM
	if len(fill) == 0 {
		r.Fail("VEST-SHARE", "anchor", keeperPath, "settlement fills the vesting queue", "no write of unreleased instalments in the block hook's tree: proceeds of an auction with a schedule are never paid out")
	}
	for _, s := range fill {
		fn := s.fn
		fr := s.opFr
		name := fnName(fn)
		// the sweep into the vesting escrow by the same operation (the function that fills the queue, or — when that is a
		// helper — the operation it belongs to)
		var total *Term
		tm.walkFrom(tm.Root(operationOf(w, fn)), func(sfr *Frame, in ssa.Instruction) {
			{
				e := w.EffectOf(in)
				if e == nil || e.Kind != EffTransfer || e.Method != "SendCoins" {
					return
				}
				a := in.(ssa.CallInstruction).Common().Args
				from, to, amt := tm.OperandAt(sfr, in, a[1]), tm.OperandAt(sfr, in, a[2]), tm.OperandAt(sfr, in, a[3])
				if !to.Any(func(t *Term) bool { return isField(t, "VestingReserveAddress") }) {
					return
				}
				ok, why, denom := drainOK(from, amt)
				payOK := from.Any(func(t *Term) bool { return isField(t, "PayingReserveAddress") })
				dOK := ok && fieldBase(denom, "PayingCoinDenom") != nil
				r.Check(ok && payOK && dOK, "VEST-SHARE", name+":sweep", w.instrPos(in),
					"the amount moved into the vesting escrow is the paying escrow's whole balance of the paying denomination",
					strings.TrimSpace(why+map[bool]string{true: "", false: " payer is not the paying escrow"}[payOK]+map[bool]string{true: "", false: " wrong denomination"}[dOK || !ok]))
				// the coin that was swept (the single element of NewCoins)
				amt.Walk(func(t *Term) bool {
					if total == nil && t.Op == "call" && strings.HasSuffix(t.Name, sdkPath+".NewCoin") {
						total = t
					}
					return total == nil
				})
			}
		})
		if total == nil {
			r.Fail("VEST-SHARE", name+":sweep", w.instrPos(s.in), "the instalments are created together with the sweep into the vesting escrow", "no transfer into the vesting escrow in "+name)
			continue
		}
		coin := normField(s.val, "PayingCoin", nil)
		var amount *Term
		if coin.Op == "call" && strings.HasSuffix(coin.Name, sdkPath+".NewCoin") && len(coin.Args) == 2 {
			amount = coin.Args[1]
		}
		if amount == nil {
			r.Fail("VEST-SHARE", name+":share", w.instrPos(s.in), "the instalment's coin is NewCoin(paying denom, amount)", "PayingCoin is "+coin.String())
			continue
		}
		var share *Term
		var remAlts []*Term
		var addAlt func(a *Term, depth int)
		addAlt = func(a *Term, depth int) {
			switch {
			case depth > 3:
			case a.Op == "rec" && a.V != nil:
				for _, x := range tm.Of(fr, a.V).Alts() {
					addAlt(x, depth+1)
				}
			case isField(a, "Amount") && a.Args[0].Op == "rec" && a.Args[0].V != nil:
				for _, x := range normField(tm.Of(fr, a.Args[0].V), "Amount", nil).Alts() {
					addAlt(x, depth+1)
				}
			case isField(a, "Amount") && a.Args[0].Op == "phi":
				for _, x := range normField(a.Args[0], "Amount", nil).Alts() {
					addAlt(x, depth+1)
				}
			default:
				remAlts = append(remAlts, a)
			}
		}
		for _, a := range amount.Alts() {
			if a.Op == "call" && isExcursionRoot(a) {
				share = a
			} else {
				addAlt(a, 0)
			}
		}
		// share: TruncateInt(MulTruncate(FromInt(total.Amount), weight of the keyed schedule entry))
		okS, whyS := false, "no share alternative in "+amount.String()
		if share != nil {
			d := dirOf(share)
			whyS = fmt.Sprintf("direction %s, shape %s", d, skeleton(share))
			entry := (*Term)(nil)
			share.Walk(func(t *Term) bool {
				if isField(t, "Weight") {
					entry = t.Args[0]
				}
				return true
			})
			totalAmtKey := normField(total, "Amount", nil).Key()
			usesTotal := share.Any(func(t *Term) bool {
				return t.Key() == totalAmtKey || (isField(t, "Amount") && t.Args[0].Key() == total.Key())
			})
			// the number that is multiplied by the weight is the swept total itself — not the running remainder, of which
			// the total is only the first value
			isTotalAmt := func(t *Term) bool {
				t = uncell(t)
				return t.Key() == totalAmtKey || (isField(t, "Amount") && t.Args[0].Key() == total.Key())
			}
			convSeen, convOK := false, true
			share.Walk(func(t *Term) bool {
				if n := mathName(t); t.Op == "call" && (n == "LegacyNewDecFromInt" || n == "Int.ToLegacyDec") && len(t.Args) >= 1 {
					convSeen = true
					if !isTotalAmt(t.Args[0]) {
						convOK = false
					}
				}
				return true
			})
			if convSeen && !convOK {
				usesTotal = false
			}
			keyEntry := false
			if entry != nil {
				for _, kc := range keyComponents(s.key) {
					if isField(kc, "ReleaseTime") && kc.Args[0].Key() == entry.Key() {
						keyEntry = true
					}
				}
				if rt := normField(s.val, "ReleaseTime", nil); !(isField(rt, "ReleaseTime") && rt.Args[0].Key() == entry.Key()) {
					keyEntry = false
				}
			}
			switch {
			case d != DFloor:
				whyS = "the share is rounded " + d.String() + " (" + skeleton(share) + "): non-final instalments must be rounded down so that their sum never exceeds the proceeds"
			case !usesTotal:
				whyS = "the share is not computed from the swept total"
			case entry == nil || !keyEntry:
				whyS = "the weight used and the release time that keys/labels the record belong to different schedule entries"
			default:
				okS = true
			}
		}
		r.Check(okS, "VEST-SHARE", name+":share", w.instrPos(s.in), "a non-final instalment is floor(swept total × weight) of the schedule entry whose release time keys the record", whyS)
		// remainder
		okR, whyR := false, "no remainder alternative: the last instalment does not take what is left ("+amount.String()+")"
		if len(remAlts) > 0 {
			totalAmt := normField(total, "Amount", nil)
			initOK, updOK := false, false
			whyR = ""
			for _, a := range remAlts {
				// a subtraction "previous remainder − stored amount" in one of its spellings
				var prev, sub *Term
				switch {
				case a.Key() == totalAmt.Key() || (isExcursionRoot(a) && share != nil && a.Key() == share.Key()):
					if a.Key() == totalAmt.Key() {
						initOK = true
					}
					continue
				case a.Op == "call" && mathName(a) == "Int.Sub" && len(a.Args) == 2:
					prev, sub = a.Args[0], a.Args[1]
				case isField(a, "Amount") && a.Args[0].Op == "call" && strings.HasSuffix(a.Args[0].Name, sdkPath+".Coin.SubAmount") && len(a.Args[0].Args) == 2:
					prev, sub = a.Args[0].Args[0], a.Args[0].Args[1]
				case isField(a, "Amount") && a.Args[0].Op == "call" && strings.HasSuffix(a.Args[0].Name, sdkPath+".Coin.Sub") && len(a.Args[0].Args) == 2:
					prev, sub = a.Args[0].Args[0], normField(a.Args[0].Args[1], "Amount", nil)
				case a.Op == "rec" || a.Op == "const":
					continue
				default:
					whyR = "the stored amount has the unexpected alternative " + a.String()
					continue
				}
				carried := prev.Any(func(t *Term) bool { return t.Op == "rec" || t.Key() == totalAmt.Key() || t.Key() == total.Key() })
				same := sub.Op == "rec" || matchRec(sub, amount)
				if !same {
					for _, x := range amount.Alts() {
						if matchRec(sub, x) {
							same = true
						}
					}
				}
				switch {
				case !carried:
					whyR = "the remainder is not carried from the previous instalment: " + prev.String()
				case !same:
					whyR = "the running remainder is reduced by " + sub.String() + ", not by the amount that was stored"
				default:
					updOK = true
				}
			}
			switch {
			case whyR != "":
			case !initOK:
				whyR = "the running remainder does not start from the swept total"
			case !updOK:
				whyR = "the running remainder is not reduced by each stored amount"
			default:
				okR = true
			}
		}
		r.Check(okR, "VEST-REM", name+":remainder", w.instrPos(s.in), "the alternative amount is the running remainder R (R0 = swept total, R' = R − stored amount)", whyR)
		// selection: remainder iff index == len(schedules)-1 of the iterated list
		okSel, whySel := remainderSelectionX(w, tm, operationOf(w, fn), s.in)
		_ = remainderSelection
		r.Check(okSel, "VEST-REM", name+":last-index", w.instrPos(s.in), "the remainder is stored exactly for index = len(schedules) − 1 of the iterated schedule list", whySel)
		// rounding direction of the remainder relative to its exact share is CEIL by construction; nothing to check numerically
	}

	// ---------------------------------------------------------------- VEST-ONCE
	if len(release) == 0 {
		r.Fail("VEST-ONCE", "anchor", keeperPath, "the release routine persists Released=true", "no vesting queue write with Released=true in the block hook's tree: every instalment is paid again at every block")
	}
	for _, s := range release {
		fn := s.fn
		fr := s.opFr
		name := fnName(fn)
		base := s.val
		for base.Op == "upd" {
			base = base.Args[0]
		}
		// key rebuilt from the record's own fields
		kc := keyComponents(s.key)
		kOK := len(kc) == 2 && isField(kc[0], "AuctionId") && kc[0].Args[0].Key() == base.Key() && isField(kc[1], "ReleaseTime") && kc[1].Args[0].Key() == base.Key()
		onlyRel := s.val.Op == "upd" && len(s.val.Args) == 2 && s.val.Args[1].Name == "Released"
		r.Check(kOK && onlyRel, "VEST-ONCE", name+":persist", w.instrPos(s.in),
			"the released record is written back unchanged except Released=true, under the key rebuilt from its own (auction id, release time)",
			fmt.Sprintf("value %s under key %s", s.val.String(), s.key.String()))
		// transfers in this function
		nT := 0
		seenT := map[ssa.Instruction]bool{}
		// the transfers of the release operation, wherever they are written (the operation or a helper of it)
		tm.walkFrom(fr, func(tfr *Frame, in ssa.Instruction) {
			{
				e := w.EffectOf(in)
				if e == nil || e.Kind != EffTransfer || seenT[in] {
					return
				}
				seenT[in] = true
				nT++
				a := in.(ssa.CallInstruction).Common().Args
				if e.Method != "SendCoins" || len(a) != 4 {
					r.Fail("VEST-ONCE", name+":transfer", w.instrPos(in), "the release is one SendCoins", "unexpected "+e.Method)
					return
				}
				from, to, amt := tm.OperandAt(tfr, in, a[1]), tm.OperandAt(tfr, in, a[2]), tm.OperandAt(tfr, in, a[3])
				var bad []string
				if !from.Any(func(t *Term) bool { return isField(t, "VestingReserveAddress") }) {
					bad = append(bad, "payer "+from.String()+" is not the vesting escrow")
				}
				if !to.Any(func(t *Term) bool { return isField(t, "Auctioneer") }) {
					bad = append(bad, "payee "+to.String()+" is not the auctioneer")
				}
				pc := false
				amt.Walk(func(t *Term) bool {
					if isField(t, "PayingCoin") && t.Args[0].Key() == base.Key() {
						pc = true
					}
					return true
				})
				if !pc || amt.Any(func(t *Term) bool { return t.Op == "call" && mathName(t) != "" }) {
					bad = append(bad, "the amount "+amt.String()+" is not exactly the PayingCoin of the record that is marked released")
				}
				r.Check(len(bad) == 0, "VEST-ONCE", name+":transfer", w.instrPos(in),
					"the release pays the iterated record's own PayingCoin from the vesting escrow to the auctioneer", strings.Join(bad, "; "))
			}
		})
		// pairing on every path
		pr := &pairRule{w: w, isA: func(in ssa.Instruction) bool { e := w.EffectOf(in); return e != nil && e.Kind == EffTransfer },
			isB: func(in ssa.Instruction) bool { return in == s.in.(ssa.Instruction) }, fn: fn}
		var bad []string
		for _, o := range NewExplorer(w, tm, pr).Run(fn, 0) {
			if o.St&prViol != 0 {
				bad = append(bad, "a path continues to the next instalment or returns successfully after the transfer without persisting Released=true (exit "+w.instrPos(o.Instr)+")")
			}
			if o.St&prBwithoutA != 0 {
				bad = append(bad, "Released=true is persisted on a path that performed no transfer (exit "+w.instrPos(o.Instr)+")")
			}
			if o.St&prPending != 0 && o.Kind == ExitReturn {
				if av, ok := o.ErrAV(fn); !ok || av.K != avNonNil {
					bad = append(bad, "the function can return without error right after the transfer, before Released=true is stored (exit "+w.instrPos(o.Instr)+")")
				}
			}
		}
		sort.Strings(bad)
		r.Check(len(bad) == 0 && nT > 0, "VEST-ONCE", name+":pairing", w.pos(fn.Pos()),
			"within one iteration: release transfer ⇒ the record is stored with Released=true before the loop continues; and Released=true is only stored after a transfer", strings.Join(dedupe(bad), "; "))
	}
}

// matchRec: structural equality of terms where a cyclic reference matches anything.
func matchRec(a, b *Term) bool {
	if a.Op == "rec" || b.Op == "rec" {
		return true
	}
	if a.Op != b.Op || a.Name != b.Name || len(a.Args) != len(b.Args) {
		return false
	}
	for i := range a.Args {
		if !matchRec(a.Args[i], b.Args[i]) {
			return false
		}
	}
	return true
}

// vestDistinct: the vesting queue is keyed by (auction id, release time); two instalments with the same release time
// would overwrite each other. The message validation must therefore reject a release time that is not strictly after
// the previous one, and one that is not strictly after the end time.
func vestDistinct(w *World, r *Report, tm *Terms) {
	isRel := func(t *Term) bool {
		b := fieldBase(t, "ReleaseTime")
		return b != nil && b.Op == "elem"
	}
	for _, mt := range []string{"MsgCreateFixedPriceAuction", "MsgCreateBatchAuction"} {
		fn := w.methodOf(w.lookupNamed(typesPath, mt), "ValidateBasic")
		if fn == nil {
			continue
		}
		for _, which := range []string{"previous release time", "end time"} {
			which := which
			other := func(t *Term) bool {
				if isRel(t) || t.Op == "const" {
					return false
				}
				isEnd := fieldBase(t, "EndTime") != nil
				if which == "end time" {
					return isEnd
				}
				return !isEnd && fieldBase(t, "StartTime") == nil
			}
			var bad []string
			evaluated := false
			for _, o := range []int{-1, 0, 1} {
				rule := newOrdRule(w, func(*Effect) bool { return false }, ordPair{ord: o, match: pairOf(isRel, other)})
				accepted := false
				for _, out := range NewExplorer(w, tm, rule).Run(fn, 0) {
					if out.St&1 == 0 || out.Kind != ExitReturn {
						continue
					}
					evaluated = true
					if av, ok := out.ErrAV(fn); ok && av.K != avNonNil {
						accepted = true
					}
				}
				if accepted != (o > 0) {
					bad = append(bad, fmt.Sprintf("release time %s %s: accepted=%v", ordNames[o], which, accepted))
				}
			}
			if !evaluated {
				bad = append(bad, "the comparison is never evaluated")
			}
			r.Check(len(bad) == 0, "VEST-DISTINCT", mt+":"+strings.ReplaceAll(which, " ", "-"), w.pos(fn.Pos()),
				mt+".ValidateBasic accepts a schedule entry only if its release time is strictly after the "+which,
				strings.Join(bad, "; ")+": two instalments may share a release time; the queue is keyed by (auction, release time), so one record overwrites the other and its share stays locked in the vesting escrow")
		}
	}
}

// CallResult: "A was performed" means the transfer succeeded — what happens when the bank refuses it is the error
// discipline of block processing (BB-ERRPROP, C07), not the pairing of payment and record.
func (p *pairRule) CallResult(x *Explorer, fr *Frame, c ssa.CallInstruction) ([]AV, CallMode) {
	if in, ok := c.(ssa.Instruction); ok && p.isA(in) {
		n := c.Common().Signature().Results().Len()
		if n > 0 && lastResultIsError(c.Common()) {
			vals := make([]AV, n)
			vals[n-1] = Nil
			return vals, CallOverride
		}
	}
	return nil, CallDefault
}

// pairRule: A (pending) must be followed by B before the enclosing loop's header is re-entered or the function succeeds.
type pairRule struct {
	BaseRule
	w        *World
	isA, isB func(in ssa.Instruction) bool
	fn       *ssa.Function
}

const (
	prPending   = 1 << 0
	prViol      = 1 << 1
	prBwithoutA = 1 << 2
)

func (p *pairRule) OnInstr(x *Explorer, fr *Frame, in ssa.Instruction, st uint64) uint64 {
	// A and B may sit in the explored function or in helpers it calls
	switch {
	case p.isA(in):
		if st&prPending != 0 {
			st |= prViol
		}
		st |= prPending
	case p.isB(in):
		if st&prPending == 0 {
			st |= prBwithoutA
		}
		st &^= prPending
	}
	return st
}

func (p *pairRule) OnBlock(x *Explorer, fr *Frame, b, pred *ssa.BasicBlock, st uint64) uint64 {
	if pred == nil {
		return st
	}
	// re-entering a loop header along a back edge with A still pending
	for _, l := range fnInfo(fr.Fn).Loops {
		if l.Header == b && l.Blocks[pred] && st&prPending != 0 {
			st |= prViol
		}
	}
	return st
}

// remainderSelection: the amount phi takes the remainder on the edge controlled by index == len(list)-1 (true).
// selRule explores the queue-filling operation with the comparison "index ? last index of the schedule list" decided
// one way, and classifies the amount stored at the VestingQueue write on each path: a freshly computed share or the
// running remainder.
type selRule struct {
	*ordRule
	w         *World
	site      ssa.Instruction
	share     int
	remainder int
	other     []string
	used      int
}

func (s *selRule) Compare(x *Explorer, fr *Frame, op token.Token, l, r ssa.Value) AV {
	v := s.ordRule.decide(x, fr, op, l, r)
	if v.K != avUnknown {
		s.used++
	}
	return v
}

func (s *selRule) OnInstr(x *Explorer, fr *Frame, in ssa.Instruction, st uint64) uint64 {
	if in != s.site {
		return st
	}
	args := in.(ssa.CallInstruction).Common().Args
	if len(args) < 4 {
		return st
	}
	val := x.TM.OperandAt(fr, in, args[3])
	coin := normField(val, "PayingCoin", nil)
	amount := coin
	if coin.Op == "call" && strings.HasSuffix(coin.Name, sdkPath+".NewCoin") && len(coin.Args) == 2 {
		amount = coin.Args[1]
	}
	for _, a := range amount.Alts() {
		// a freshly computed share, or what is left (the running remainder, initially the swept total): VEST-REM's
		// remainder obligation decides that the latter really is the remainder
		if isExcursionRoot(a) {
			s.share++
		} else {
			s.remainder++
		}
	}
	return st
}

// remainderSelectionX: with index = last index every recorded instalment stores the remainder, with index < last index
// every recorded instalment stores a share — however the comparison and the selection are spelled.
func remainderSelectionX(w *World, tm *Terms, op *ssa.Function, site ssa.Instruction) (bool, string) {
	var bad []string
	used := 0
	for _, ord := range []int{0, -1} {
		sr := &selRule{ordRule: newOrdRule(w, func(*Effect) bool { return false }, ordPair{ord: ord, match: func(x *Explorer, fr *Frame, l, r *Term) int {
			o := lastIndexPair(x, fr, l, r)
			if o == 0 {
				return 0
			}
			// the list is the vesting schedule list
			if !(l.Any(func(t *Term) bool { return fieldBase(t, "VestingSchedules") != nil }) || r.Any(func(t *Term) bool { return fieldBase(t, "VestingSchedules") != nil })) {
				return 0
			}
			return o
		}}), w: w, site: site}
		x := NewExplorer(w, tm, sr)
		x.TrackPhi = true
		x.Run(op, 0)
		used += sr.used
		switch {
		case len(sr.other) > 0:
			bad = append(bad, "the stored amount has the unexpected alternative "+sr.other[0])
		case ord == 0 && (sr.share > 0 || sr.remainder == 0):
			bad = append(bad, fmt.Sprintf("at index = len−1 the stored amount is a freshly computed share on %d path(s) and the remainder on %d: the last instalment does not take what is left", sr.share, sr.remainder))
		case ord == -1 && (sr.remainder > 0 || sr.share == 0):
			bad = append(bad, fmt.Sprintf("before the last index the stored amount is the remainder on %d path(s) and a share on %d: the remainder is taken at the wrong instalment", sr.remainder, sr.share))
		}
	}
	if used == 0 {
		return false, "no comparison of the loop index with len(schedules)−1 controls the stored amount: the remainder is taken at the wrong instalment or never"
	}
	return len(bad) == 0, strings.Join(bad, "; ")
}

func remainderSelection(w *World, tm *Terms, fn *ssa.Function, fr *Frame, val *Term) (bool, string) {
	// find the If whose condition compares an index with len(x)-1 and whose true branch defines the remainder edge
	for _, b := range fn.Blocks {
		iff, ok := b.Instrs[len(b.Instrs)-1].(*ssa.If)
		if !ok {
			continue
		}
		bo, ok := iff.Cond.(*ssa.BinOp)
		if !ok || bo.Op != token.EQL {
			continue
		}
		rt := tm.Of(fr, bo.Y)
		lt := tm.Of(fr, bo.X)
		isLenM1 := func(t *Term) *Term {
			if t.Op == "binop" && t.Name == "-" && t.Args[1].Key() == "const<1>" && t.Args[0].Op == "builtin" && t.Args[0].Name == "len" {
				return t.Args[0].Args[0]
			}
			return nil
		}
		list := isLenM1(rt)
		idx := lt
		if list == nil {
			list, idx = isLenM1(lt), rt
		}
		if list == nil || fieldBase(list, "VestingSchedules") == nil {
			continue
		}
		// idx must be the range index of a loop over the same list: used to index that list
		usedAsIndex := false
		for _, bb := range fn.Blocks {
			for _, in := range bb.Instrs {
				if ia, ok := in.(*ssa.IndexAddr); ok {
					if tm.Of(fr, ia.Index).Key() == idx.Key() && tm.Of(fr, ia.X).Key() == list.Key() {
						usedAsIndex = true
					}
				}
			}
		}
		if !usedAsIndex {
			return false, "the index compared with len−1 is not the index that selects the schedule entry"
		}
		// the true successor must lead to the phi edge carrying the remainder
		thenB := b.Succs[0]
		for _, succ := range thenB.Succs {
			for _, in := range succ.Instrs {
				ph, ok := in.(*ssa.Phi)
				if !ok {
					break
				}
				for i, p := range succ.Preds {
					if p == thenB {
						et := tm.Of(fr, ph.Edges[i])
						allAmt, carried := true, false
						for _, a := range et.Alts() {
							if isExcursionRoot(a) {
								allAmt = false // a freshly computed share, not the remainder
								continue
							}
							if a.Any(func(t *Term) bool {
								return t.Op == "rec" || (t.Op == "call" && (strings.HasSuffix(t.Name, ".Coin.SubAmount") || strings.HasSuffix(t.Name, ".Coin.Sub") || mathName(t) == "Int.Sub"))
							}) {
								carried = true // the loop-carried remainder
							}
						}
						if allAmt && carried {
							return true, ""
						}
					}
				}
			}
		}
		return false, "the branch taken for index = len−1 does not select the remainder"
	}
	return false, "no comparison of the loop index with len(schedules)−1 controls the stored amount: the remainder is taken at the wrong instalment or never"
}
