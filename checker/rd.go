package main

// rd.go — E6: rounding direction of Dec excursions, decided on provenance terms.
// The direction of a term says how its integer/decimal value relates to the
// exact real value of the same expression: EXACT, FLOOR (≤), CEIL (≥),
// CEILDIFF (difference of two ceilings), NEAREST (banker's rounding at the
// 18th decimal), TOP (unknown mixture).

import (
	"strings"
)

type Dir int

const (
	DExact Dir = iota
	DFloor
	DCeil
	DCeilDiff
	DNearest
	DTop
)

func (d Dir) String() string {
	return [...]string{"EXACT", "FLOOR", "CEIL", "CEIL-DIFF", "NEAREST", "TOP"}[d]
}

func joinDir(a, b Dir) Dir {
	switch {
	case a == b:
		return a
	case a == DExact:
		return b
	case b == DExact:
		return a
	}
	return DTop
}

func mathName(t *Term) string {
	if t.Op != "call" || !strings.HasPrefix(t.Name, mathPath+".") {
		return ""
	}
	return strings.TrimPrefix(t.Name, mathPath+".")
}

// intValued: the Dec term is integer valued by construction.
func intValued(t *Term) bool {
	switch mathName(t) {
	case "LegacyNewDecFromInt", "LegacyNewDec", "Int.ToLegacyDec", "LegacyDec.Ceil", "LegacyOneDec", "LegacyZeroDec":
		return true
	case "LegacyDec.Sub", "LegacyDec.Add", "LegacyDec.MulInt":
		for _, a := range t.Args {
			if isDecOrInt(a) && !intValued(a) && !isIntTerm(a) {
				return false
			}
		}
		return true
	}
	if t.Op == "phi" {
		for _, a := range t.Args {
			if !intValued(a) {
				return false
			}
		}
		return true
	}
	return false
}

func isDecOrInt(t *Term) bool { return true }

// isIntTerm: the term has type math.Int (best effort from the representative value).
func isIntTerm(t *Term) bool {
	return t.V != nil && isNamed(t.V.Type(), mathPath, "Int")
}

// isExcursionRoot: a Dec→Int conversion.
func isExcursionRoot(t *Term) bool {
	switch mathName(t) {
	case "LegacyDec.TruncateInt", "LegacyDec.RoundInt", "LegacyDec.TruncateInt64", "LegacyDec.RoundInt64":
		return true
	}
	return false
}

// dirOf computes the rounding direction of a term. An integer produced by an
// inner, completed excursion is a given quantity (EXACT) for the outer one.
func dirOf(t *Term) Dir { return dirOfAt(t, true) }

func dirOfAt(t *Term, root bool) Dir {
	if !root && isExcursionRoot(t) {
		return DExact
	}
	switch t.Op {
	case "phi":
		d := DExact
		first := true
		for _, a := range t.Args {
			if a.Op == "const" && a.Name == "nil" {
				continue // zero-value of an Int variable before assignment
			}
			if a.Op == "rec" {
				continue
			}
			if first {
				d, first = dirOfAt(a, root), false
			} else {
				d = joinDir(d, dirOfAt(a, root))
			}
		}
		return d
	case "call":
	default:
		return DExact
	}
	n := mathName(t)
	arg := func(i int) Dir {
		if i < len(t.Args) {
			return dirOfAt(t.Args[i], false)
		}
		return DExact
	}
	switch n {
	case "LegacyNewDecFromInt", "LegacyNewDec", "Int.ToLegacyDec", "NewIntFromBigInt", "NewInt":
		return arg(0)
	case "LegacyDec.Mul":
		if intValued(t.Args[0]) || intValued(t.Args[1]) {
			return joinDir(arg(0), arg(1)) // exact at 18 decimals
		}
		return DNearest
	case "LegacyDec.MulInt", "LegacyDec.MulInt64":
		return arg(0) // exact product with an integer
	case "LegacyDec.MulTruncate":
		if intValued(t.Args[0]) && intValued(t.Args[1]) {
			return joinDir(arg(0), arg(1))
		}
		if j := joinDir(arg(0), arg(1)); j == DExact || j == DFloor {
			return DFloor
		}
		return DTop
	case "LegacyDec.Quo":
		return DNearest
	case "LegacyDec.QuoTruncate", "LegacyDec.QuoInt", "LegacyDec.QuoInt64", "Int.Quo":
		if j := joinDir(arg(0), DExact); (j == DExact || j == DFloor) && arg(1) == DExact {
			return DFloor
		}
		return DTop
	case "LegacyDec.QuoRoundUp":
		if arg(0) == DExact && arg(1) == DExact {
			return DCeil
		}
		return DTop
	case "LegacyDec.Ceil":
		switch arg(0) {
		case DExact, DCeil:
			return DCeil
		}
		return DTop
	case "LegacyDec.TruncateInt", "LegacyDec.TruncateDec", "LegacyDec.TruncateInt64":
		if intValued(t.Args[0]) {
			return arg(0)
		}
		switch arg(0) {
		case DExact, DFloor:
			return DFloor
		}
		return DTop
	case "LegacyDec.RoundInt", "LegacyDec.RoundInt64":
		if intValued(t.Args[0]) {
			return arg(0)
		}
		return DNearest
	case "LegacyDec.Sub", "Int.Sub":
		a, b := arg(0), arg(1)
		switch {
		case a == DExact && b == DExact:
			return DExact
		case a == DCeil && b == DCeil:
			return DCeilDiff
		case a == DExact && b == DFloor:
			return DCeil // total − rounded-down parts
		case a == DExact && b == DCeil:
			return DFloor
		}
		return DTop
	case "LegacyDec.Add", "Int.Add":
		return joinDir(arg(0), arg(1))
	case "MinInt", "MaxInt", "LegacyMinDec", "LegacyMaxDec":
		return joinDir(arg(0), arg(1))
	case "ZeroInt", "OneInt", "LegacyZeroDec", "LegacyOneDec":
		return DExact
	}
	if n != "" {
		// an operation of cosmossdk.io/math that the table does not know — in particular every in-place "…Mut"
		// variant, whose result also overwrites its receiver — has no known direction
		return DTop
	}
	// calls outside cosmossdk.io/math (coin arithmetic keeps amounts exact)
	if strings.HasPrefix(t.Name, sdkPath+".Coin.") || strings.HasPrefix(t.Name, sdkPath+".NewCoin") || strings.HasPrefix(t.Name, sdkPath+".Coins.") {
		d := DExact
		for _, a := range t.Args {
			d = joinDir(d, dirOfAt(a, false))
		}
		return d
	}
	return DExact
}

// skeleton renders the operator structure of a money excursion with the leaves abstracted:
// AMT (a coin amount), PRICE (a price), other leaves as '·'.
func skeleton(t *Term) string { return skeletonAt(t, true) }

func skeletonAt(t *Term, root bool) string {
	if !root && isExcursionRoot(t) {
		return "QTY" // an integer produced by an inner, completed excursion
	}
	switch t.Op {
	case "phi":
		var parts []string
		for _, a := range t.Args {
			if a.Op == "const" && a.Name == "nil" {
				continue
			}
			parts = append(parts, skeletonAt(a, root))
		}
		if len(parts) == 1 {
			return parts[0]
		}
		return "{" + strings.Join(parts, "|") + "}"
	case "call":
		if n := mathName(t); n != "" {
			var parts []string
			for _, a := range t.Args {
				parts = append(parts, skeletonAt(a, false))
			}
			n = strings.TrimPrefix(strings.TrimPrefix(n, "LegacyDec."), "Int.")
			return n + "(" + strings.Join(parts, ",") + ")"
		}
	case "field":
		switch t.Name {
		case "Amount":
			return "AMT"
		case "Price", "StartPrice", "MinBidPrice", "MatchPrice", "MatchedPrice":
			return "PRICE"
		case "Weight":
			return "WEIGHT"
		}
	case "param":
		if strings.Contains(strings.ToLower(t.Name), "price") {
			return "PRICE"
		}
	}
	return "·"
}

// mathLeaves: the operands of the arithmetic (descent stops at anything that is not a cosmossdk.io/math call or a phi,
// and at inner completed excursions).
func mathLeaves(t *Term) []*Term {
	var out []*Term
	var rec func(t *Term, root bool)
	rec = func(t *Term, root bool) {
		switch {
		case !root && isExcursionRoot(t):
			out = append(out, t)
		case t.Op == "phi":
			for _, a := range t.Args {
				rec(a, root)
			}
		case mathName(t) != "":
			for _, a := range t.Args {
				rec(a, false)
			}
		default:
			out = append(out, t)
		}
	}
	rec(t, true)
	return out
}
