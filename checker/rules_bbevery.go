package main

// BB-EVERY (C07, C08, C12, C18): block processing visits every stored auction. The iteration over the auctions — a
// loop over the list read from the store, or a callback handed to a walk of the Auction collection — is left early
// only with a failure: a `break`, a `return nil` or a callback answering "stop" without an error (for example for an
// auction in a terminal status) hides every auction with a larger id from the block hook: they never open, settle
// or vest, and their failures are never reported.

import (
	"fmt"
	"go/types"
	"strings"

	"golang.org/x/tools/go/ssa"
)

func checkEveryAuction(w *World, r *Report, tm *Terms, rule string) {
	r.Rule(rule, "block processing visits every stored auction: the iteration ends early only with a failure", 1)
	bb := w.beginBlockFn()
	tree := w.reachableFrom(bb)
	n := 0
	// (1) callbacks of walks over the Auction collection
	seenCB := map[*ssa.Function]bool{}
	for _, s := range tm.sitesWhere([]*ssa.Function{bb}, func(fr *Frame, in ssa.Instruction) bool {
		e := w.EffectOf(in)
		return e != nil && e.Kind == EffStoreRead && e.Coll == "Auction" && (e.Method == "Walk" || e.Method == "Iterate")
	}) {
		args := s.In.(ssa.CallInstruction).Common().Args
		if len(args) < 4 {
			continue
		}
		cb, _, _ := tm.resolveFuncValue(s.Fr, args[3])
		if cb == nil || cb.Blocks == nil {
			n++
			r.Fail(rule, fmt.Sprintf("walk:%s#%d", fnName(s.In.Parent()), n), w.instrPos(s.In), "the callback of the walk over the auctions is resolved",
				"the callback handed to the walk over the Auction collection cannot be resolved to a function of the repository")
			continue
		}
		if seenCB[cb] {
			continue
		}
		seenCB[cb] = true
		n++
		var bad []string
		for _, b := range cb.Blocks {
			ret, ok := b.Instrs[len(b.Instrs)-1].(*ssa.Return)
			if !ok || len(ret.Results) != 2 {
				continue
			}
			if c, isC := ret.Results[0].(*ssa.Const); isC && c.Value != nil && c.Value.String() == "false" {
				continue
			}
			if definitelyNonNilErr(ret, ret.Results[1]) {
				continue
			}
			bad = append(bad, w.instrPos(ret))
		}
		r.Check(len(bad) == 0, rule, fmt.Sprintf("walk:%s", fnName(cb)), w.pos(cb.Pos()),
			"the callback of the walk over the auctions answers stop only together with an error",
			"the callback can answer stop without an error at "+strings.Join(dedupe(bad), ", ")+": the walk ends there and no auction with a larger id is processed in this (or any later) block")
	}
	// (2) loops over a list of auctions
	for _, fn := range sortedFns(tree) {
		if p := pkgOf(fn); p == nil || !w.isRepoPkg(p) || p.Path() == simPath || w.isGenerated(fn) {
			continue
		}
		fi := fnInfo(fn)
		for _, l := range fi.Loops {
			if !auctionLoop(w, fn, l) {
				continue
			}
			n++
			var bad []string
			for b := range l.Blocks {
				for si, s := range b.Succs {
					if l.Blocks[s] || b == l.Header {
						continue
					}
					if !failingExit(b, si, s) {
						bad = append(bad, w.instrPos(b.Instrs[len(b.Instrs)-1]))
					}
				}
			}
			r.Check(len(bad) == 0, rule, fmt.Sprintf("loop:%s", fnName(fn)), w.instrPos(l.Header.Instrs[0]),
				"the loop over the auctions is left early only with a failure",
				"the loop over the auctions can be left at "+strings.Join(dedupe(bad), ", ")+" without a failure: later auctions are not processed")
		}
	}
}

// auctionLoop: the loop indexes a slice of AuctionI values (the list read from the store).
func auctionLoop(w *World, fn *ssa.Function, l *Loop) bool {
	for b := range l.Blocks {
		for _, in := range b.Instrs {
			var x ssa.Value
			switch v := in.(type) {
			case *ssa.IndexAddr:
				x = v.X
			case *ssa.Index:
				x = v.X
			default:
				continue
			}
			sl, ok := x.Type().Underlying().(*types.Slice)
			if !ok {
				continue
			}
			if types.Identical(sl.Elem(), w.AuctionI) || namedOf(sl.Elem()) == w.AuctionI {
				return true
			}
		}
	}
	return false
}

// failingExit: the edge b→s (successor index si) leaves the loop only with a failure: either it is the "error is not
// nil" outcome of a test, or s returns an error that is certainly not nil.
func failingExit(b *ssa.BasicBlock, si int, s *ssa.BasicBlock) bool {
	if iff, ok := b.Instrs[len(b.Instrs)-1].(*ssa.If); ok {
		if bo, ok := iff.Cond.(*ssa.BinOp); ok && (bo.Op.String() == "!=" || bo.Op.String() == "==") {
			isNil := func(v ssa.Value) bool { c, ok := v.(*ssa.Const); return ok && c.IsNil() }
			var tested ssa.Value
			if isNil(bo.Y) {
				tested = bo.X
			} else if isNil(bo.X) {
				tested = bo.Y
			}
			if tested != nil && isErrorType(tested.Type()) {
				nonNil := 0
				if bo.Op.String() == "==" {
					nonNil = 1
				}
				if si == nonNil {
					return true
				}
			}
		}
	}
	// every return reachable from s (without coming back into a loop) carries a certainly non-nil error
	seen := map[*ssa.BasicBlock]bool{}
	var ok func(x *ssa.BasicBlock) bool
	ok = func(x *ssa.BasicBlock) bool {
		if seen[x] {
			return true
		}
		seen[x] = true
		switch t := x.Instrs[len(x.Instrs)-1].(type) {
		case *ssa.Return:
			if len(t.Results) == 0 {
				return false
			}
			return definitelyNonNilErr(t, t.Results[len(t.Results)-1])
		case *ssa.Panic:
			return true
		}
		for _, y := range x.Succs {
			if !ok(y) {
				return false
			}
		}
		return len(x.Succs) > 0
	}
	return ok(s)
}
