package main

// C17 — every hook fires once, with the real values, and can veto.
//   HK-DISPATCH  sibling agreement of the multi-listener's 10 methods
//   HK-WRAP      the keeper's 10 wrappers forward to the registered listener
//   HK-SITE      per operation: exactly one call on every success path, ordered w.r.t. the announced write, real values
//   HK-CHAIN     the listener's error reaches the message handler / block hook

import (
	"fmt"
	"go/token"
	"go/types"
	"sort"
	"strings"

	"golang.org/x/tools/go/ssa"
)

func init() { register("C17", checkC17) }

// hook site specification (the hook names are fixed by the FundraisingHooks interface).
type hookSpec struct {
	announced string   // collection whose write the hook announces ("" = bank transfer)
	after     bool     // After… hooks follow the write
	fields    []string // expected record field per hook argument (after ctx); "" = checked specially
	base      []bool   // field lives in the embedded BaseAuction
}

var auctionBaseFields = map[string]bool{"Id": true, "Auctioneer": true, "StartPrice": true, "SellingCoin": true,
	"PayingCoinDenom": true, "VestingSchedules": true, "StartTime": true, "EndTimes": true, "Status": true, "Type": true,
	"SellingReserveAddress": true, "PayingReserveAddress": true, "VestingReserveAddress": true}

var hookSpecs = map[string]hookSpec{
	"BeforeFixedPriceAuctionCreated": {announced: "Auction", fields: []string{"Auctioneer", "StartPrice", "SellingCoin", "PayingCoinDenom", "VestingSchedules", "StartTime", "EndTimes[0]"}},
	"AfterFixedPriceAuctionCreated":  {announced: "Auction", after: true, fields: []string{"Id", "Auctioneer", "StartPrice", "SellingCoin", "PayingCoinDenom", "VestingSchedules", "StartTime", "EndTimes[0]"}},
	"BeforeBatchAuctionCreated":      {announced: "Auction", fields: []string{"Auctioneer", "StartPrice", "MinBidPrice", "SellingCoin", "PayingCoinDenom", "VestingSchedules", "MaxExtendedRound", "ExtendedRoundRate", "StartTime", "EndTimes[0]"}},
	"AfterBatchAuctionCreated":       {announced: "Auction", after: true, fields: []string{"Id", "Auctioneer", "StartPrice", "MinBidPrice", "SellingCoin", "PayingCoinDenom", "VestingSchedules", "MaxExtendedRound", "ExtendedRoundRate", "StartTime", "EndTimes[0]"}},
	"BeforeAuctionCanceled":          {announced: "Auction", fields: []string{"", ""}},
	"BeforeBidPlaced":                {announced: "Bid", fields: []string{"AuctionId", "Id", "Bidder", "Type", "Price", "Coin"}},
	"BeforeBidModified":              {announced: "Bid", fields: []string{"AuctionId", "Id", "Bidder", "Type", "Price", "Coin"}},
	"BeforeAllowedBiddersAdded":      {announced: "AllowedBidder", fields: []string{""}},
	"BeforeAllowedBidderUpdated":     {announced: "AllowedBidder", fields: []string{"AuctionId", "", "MaxBidAmount"}},
	"BeforeSellingCoinsAllocated":    {announced: "", fields: []string{"", "", ""}},
}

// recordField projects a field of a written record term (BaseAuction fields through the embedded struct).
func recordField(v *Term, name string, auction bool) *Term {
	if name == "EndTimes[0]" {
		return elemOf(recordField(v, "EndTimes", auction), "0", nil)
	}
	if auction && auctionBaseFields[name] {
		return normField(projEmbedded(v, "~BaseAuction", nil), name, nil)
	}
	return normField(v, name, nil)
}

func checkC17(w *World, r *Report) {
	r.Explanation = "Decides structurally: (HK-DISPATCH) each of the multi-listener's 10 methods loops over the receiver, invokes the same-named method on every element with its own parameters in order, leaves the loop early only on the element's error and returns that error; (HK-WRAP) each keeper wrapper invokes the same-named method of the registered listener with unchanged arguments on every path where a listener is registered and returns its error; (HK-SITE) in each operation, on every success path the wrapper is called exactly once, outside any loop, before (After…: after) the store write / transfer it announces, and each argument is the corresponding field of the object that is written; (HK-CHAIN) on every call chain from a hook invocation up to a message handler or the block hook, a failing callee makes the caller fail."
	r.NotDecided = "listener behaviour; dependency-injection registration of listeners (InvokeSetHooks receives a *Keeper that depinject does not provide — noted in DESIGN.md, outside the property's quantifier); 'effects uncommitted' relies on SDK message atomicity given that the handler returns the error."
	r.Rule("HK-DISPATCH", "multi-listener methods agree: loop over all elements, same method, same arguments, error returned", 40)
	r.Rule("HK-WRAP", "keeper wrappers forward to the registered listener and return its error", 30)
	r.Rule("HK-SITE", "hook sites: once per success path, ordered w.r.t. the announced write, real values", 30)
	r.Rule("HK-CHAIN", "listener errors propagate to the handler / block hook", 12)

	tm := NewTerms(w)
	fs := &failSummary{w: w, tm: tm, memo: map[*ssa.Function]bool{}}
	hookNames := methodsOf(w.Hooks)
	if len(hookNames) != len(hookSpecs) {
		r.Fail("HK-SITE", "spec-table", typesPath, "the hook-site table covers every method of FundraisingHooks",
			fmt.Sprintf("FundraisingHooks has %d methods (%v) but the checker's table has %d: a hook without a site specification is unchecked", len(hookNames), hookNames, len(hookSpecs)))
	}

	// ---------------------------------------------------------------- HK-DISPATCH
	var multi []*types.Named
	for _, n := range w.implementors(w.Hooks, typesPath) {
		if sl, ok := n.Underlying().(*types.Slice); ok && namedOf(sl.Elem()) == w.Hooks {
			multi = append(multi, n)
		}
	}
	if len(multi) == 0 {
		fatalf("no multi-listener type ([]FundraisingHooks implementing FundraisingHooks) found in %s", typesPath)
	}
	for _, mt := range multi {
		for _, m := range hookNames {
			fn := w.methodOf(mt, m)
			if fn == nil {
				fatalf("%s.%s has no body", mt.Obj().Name(), m)
			}
			checkDispatcher(w, r, tm, fs, fn, m, "HK-DISPATCH", mt.Obj().Name())
		}
	}

	// ---------------------------------------------------------------- HK-WRAP
	wrappers := map[string]*ssa.Function{}
	for _, m := range hookNames {
		fn := w.methodOf(w.Keeper, m)
		if fn == nil {
			r.Fail("HK-WRAP", "Keeper."+m, keeperPath, "keeper has a wrapper for hook "+m, "no method "+m+" on keeper.Keeper")
			continue
		}
		wrappers[m] = fn
		checkForwarder(w, r, tm, fs, fn, m, "HK-WRAP", "Keeper", false)
	}
	checkHookShared(w, r, tm, hookSlotOf(w))

	// ---------------------------------------------------------------- HK-SITE
	for _, m := range hookNames {
		wf := wrappers[m]
		spec, ok := hookSpecs[m]
		if wf == nil || !ok {
			continue
		}
		var sites []ssa.CallInstruction
		for _, s := range w.callSitesOf(wf) {
			if pkgOf(s.Parent()) != nil && pkgOf(s.Parent()).Path() == keeperPath {
				sites = append(sites, s)
			}
		}
		if len(sites) == 0 {
			r.Fail("HK-SITE", m+":site", keeperPath, "hook "+m+" is fired by some operation", "no call site of the keeper wrapper: the hook never fires")
			continue
		}
		for i, s := range sites {
			checkHookSite(w, r, tm, m, spec, s, i+1)
		}
	}

	// ---------------------------------------------------------------- HK-CHAIN
	reachHook := map[*ssa.Function]bool{}
	for _, fn := range w.Funcs {
		for _, b := range fn.Blocks {
			for _, in := range b.Instrs {
				if e := w.EffectOf(in); e != nil && e.Kind == EffHook {
					reachHook[fn] = true
				}
			}
		}
	}
	for changed := true; changed; {
		changed = false
		for _, fn := range w.Funcs {
			if reachHook[fn] {
				continue
			}
			for _, c := range w.callees(fn) {
				if reachHook[c] {
					reachHook[fn] = true
					changed = true
					break
				}
			}
		}
	}
	var roots []*ssa.Function
	ms := w.msgServerMethods()
	for _, k := range sortedKeys(ms) {
		roots = append(roots, ms[k])
	}
	roots = append(roots, w.beginBlockFn())
	scope := w.reachableFrom(roots...)
	for _, fn := range sortedFns(scope) {
		if !reachHook[fn] {
			continue
		}
		for _, b := range fn.Blocks {
			for _, in := range b.Instrs {
				c, ok := in.(ssa.CallInstruction)
				if !ok {
					continue
				}
				if e := w.EffectOf(in); e != nil && e.Kind == EffHook {
					continue // covered by HK-WRAP / HK-DISPATCH
				}
				callee := w.calleeBody(c.Common())
				if callee == nil || !reachHook[callee] {
					continue
				}
				errPropSite(w, r, tm, fs, fn, c, "HK-CHAIN")
			}
		}
	}
}

// forwardRule: the listener field is non-nil (a listener is registered).
type forwardRule struct {
	BaseRule
	invoke ssa.CallInstruction
	slot   *hookSlot
}

// "a listener is registered": the slot, and every pointer on the way to it, is non-nil.
func (f *forwardRule) ValueOf(x *Explorer, fr *Frame, v ssa.Value) AV {
	if f.slot == nil {
		return Unknown
	}
	_, isPtr := v.Type().Underlying().(*types.Pointer)
	if namedOf(v.Type()) != x.W.Hooks && !isPtr {
		return Unknown
	}
	t := x.TM.Of(fr, v)
	for n := 1; n <= len(f.slot.path); n++ {
		if f.slot.matches(t, n) {
			return NonNil
		}
	}
	return Unknown
}

func (f *forwardRule) OnInstr(x *Explorer, fr *Frame, in ssa.Instruction, st uint64) uint64 {
	if in == f.invoke.(ssa.Instruction) {
		if st&3 < 2 {
			st++
		}
	}
	return st
}

// dispatchRule explores a multi-listener method with every listener invocation answering `answer`; it counts the
// invocations passed and notes when a loop that (in context) contains the invocation is left other than through its
// header (the range being exhausted).
type dispatchRule struct {
	BaseRule
	w      *World
	answer AV
	loops  map[string]bool // fr.id|header index of loops containing the invocation
}

const (
	dsCountMask = 3
	dsEarly     = 1 << 2
)

func (d *dispatchRule) CallResult(x *Explorer, fr *Frame, c ssa.CallInstruction) ([]AV, CallMode) {
	if e := d.w.EffectOf(c); e != nil && e.Kind == EffHook {
		n := c.Common().Signature().Results().Len()
		vals := make([]AV, n)
		if n > 0 {
			vals[n-1] = d.answer
		}
		return vals, CallReplace
	}
	return nil, CallDefault
}

func (d *dispatchRule) OnInstr(x *Explorer, fr *Frame, in ssa.Instruction, st uint64) uint64 {
	if e := d.w.EffectOf(in); e != nil && e.Kind == EffHook {
		if st&dsCountMask < 2 {
			st++
		}
	}
	return st
}

func (d *dispatchRule) OnBlock(x *Explorer, fr *Frame, b, pred *ssa.BasicBlock, st uint64) uint64 {
	if pred == nil {
		return st
	}
	for l := fnInfo(fr.Fn).LoopOf[pred]; l != nil; l = l.Parent {
		if !l.Blocks[b] && pred != l.Header && d.loops[fmt.Sprintf("%s|%d", baseFrameID(fr), l.Header.Index)] {
			st |= dsEarly
		}
	}
	return st
}

// baseFrameID: the frame id without path selections.
func baseFrameID(fr *Frame) string {
	if i := strings.Index(fr.id, "#"); i >= 0 {
		return fr.id[:i]
	}
	return fr.id
}

// checkDispatcher checks one method of the multi-listener: whatever helpers and closures it is written with, it invokes
// the same-named method on every element of the receiver with its own parameters, stops only at a listener's error and
// returns that error.
func checkDispatcher(w *World, r *Report, tm *Terms, fs *failSummary, fn *ssa.Function, m, rule, owner string) {
	where := w.pos(fn.Pos())
	key := owner + "." + m
	root := tm.Root(fn)
	type site struct {
		fr *Frame
		in ssa.CallInstruction
	}
	var invokes []site
	tm.walkFrom(root, func(fr *Frame, in ssa.Instruction) {
		if e := w.EffectOf(in); e != nil && e.Kind == EffHook {
			invokes = append(invokes, site{fr, in.(ssa.CallInstruction)})
		}
	})
	if len(invokes) != 1 {
		r.Fail(rule, key+":invoke", where, fmt.Sprintf("%s.%s invokes exactly one listener method", owner, m),
			fmt.Sprintf("found %d invocations of FundraisingHooks methods", len(invokes)))
		return
	}
	inv, ifr := invokes[0].in, invokes[0].fr
	cc := inv.Common()
	r.Check(cc.Method.Name() == m, rule, key+":same-method", w.instrPos(inv),
		fmt.Sprintf("%s.%s forwards to the same-named listener method", owner, m),
		fmt.Sprintf("it invokes %s instead: listeners of %s are never told, listeners of %s are told twice", cc.Method.Name(), m, cc.Method.Name()))
	// receiver: an element of the method's receiver slice
	isRecv := func(t *Term) bool {
		t = uncell(t)
		return t.Op == "param" && len(fn.Params) > 0 && t.V == ssa.Value(fn.Params[0])
	}
	rt := uncell(tm.Of(ifr, cc.Value))
	r.Check(rt.Op == "elem" && isRecv(rt.Args[0]), rule, key+":receiver", w.instrPos(inv), "the listener invoked is an element of the receiver slice",
		"receiver of the invocation is "+rt.String())
	// the loop that, in context, contains the invocation
	var lfr *Frame
	var loop *Loop
	if l := fnInfo(inv.Parent()).LoopOf[inv.Block()]; l != nil {
		lfr, loop = ifr, l
	} else {
		for f := ifr; f != nil && f != root && f.Parent != nil && f.Call != nil; f = f.Parent {
			if l := fnInfo(f.Parent.Fn).LoopOf[f.Call.Block()]; l != nil {
				lfr, loop = f.Parent, l
				break
			}
		}
	}
	if loop == nil {
		r.Fail(rule, key+":all-elements", w.instrPos(inv), "every registered listener is invoked (loop over the receiver)",
			"the invocation is not inside a loop: at most one listener is called")
	} else {
		for loop.Parent != nil {
			loop = loop.Parent
		}
		// left early only when a listener returned an error: with every listener answering nil, no path leaves the loop
		// other than through its header, and the method returns nil
		dr := &dispatchRule{w: w, answer: Nil, loops: map[string]bool{fmt.Sprintf("%s|%d", lfr.id, loop.Header.Index): true}}
		var bad []string
		reached := false
		for _, o := range NewExplorer(w, tm, dr).Run(fn, 0) {
			if o.St&dsCountMask > 0 {
				reached = true
			}
			switch {
			case o.Kind == ExitPanic:
				bad = append(bad, "panic at "+w.instrPos(o.Instr))
			case o.St&dsEarly != 0:
				bad = append(bad, "the loop over the listeners is left before the range is exhausted on a path to "+w.instrPos(o.Instr)+" although no listener failed: later listeners are skipped")
			default:
				if av, ok := o.ErrAV(fn); ok && av.K != avNil {
					bad = append(bad, fmt.Sprintf("exit %s can return a %s error although every listener succeeded", w.instrPos(o.Instr), av))
				}
			}
		}
		if !reached {
			bad = append(bad, "no path invokes a listener")
		}
		sort.Strings(bad)
		r.Check(len(bad) == 0, rule, key+":all-elements", w.instrPos(inv),
			"with every listener succeeding the loop over the listeners runs to the end of the range and the method returns nil",
			strings.Join(dedupe(bad), "; "))
		// the loop ranges over the whole receiver: index from 0/-1, step 1, bound len(slice) with the slice being the receiver
		lf := lfr.Fn
		rangeOK := fullRange(lf, loop) && len(lf.Params) > 0 && (lf == fn || isRecv(tm.Of(lfr, lf.Params[0])))
		r.Check(rangeOK, rule, key+":range", w.instrPos(inv), "the loop ranges over the whole receiver slice",
			"the loop bound/step is not the plain range over the receiver")
	}
	// arguments: parameter i -> argument i, unchanged
	params := fn.Params[1:]
	okArgs, why := len(cc.Args) == len(params), ""
	if !okArgs {
		why = fmt.Sprintf("%d arguments for %d parameters", len(cc.Args), len(params))
	}
	for i := 0; okArgs && i < len(params); i++ {
		at := uncell(tm.OperandAt(ifr, inv, cc.Args[i]))
		if !(at.Op == "param" && at.V == ssa.Value(params[i])) {
			okArgs = false
			why = fmt.Sprintf("argument %d is %s, expected the method's own parameter %q", i, at.String(), params[i].Name())
		}
	}
	r.Check(okArgs, rule, key+":args", w.instrPos(inv), "each parameter is forwarded unchanged, in order", why)
	// error returned: when the invocation fails every exit of the method reached afterwards fails
	if !errPropSite(w, r, tm, fs, fn, inv, rule) {
		r.Fail(rule, key+":error", w.instrPos(inv), "the listener's error result is propagated", "the invoked method has no error result to propagate")
	}
}

// checkForwarder checks one forwarding method (multi-listener or keeper wrapper).
func checkForwarder(w *World, r *Report, tm *Terms, fs *failSummary, fn *ssa.Function, m, rule, owner string, loop bool) {
	where := w.pos(fn.Pos())
	key := owner + "." + m
	// the invocation, wherever the wrapper keeps it: its own body, a helper, or a closure handed to a helper
	var invokes []ssa.CallInstruction
	var ifr *Frame
	seenInv := map[ssa.Instruction]bool{}
	tm.walkFrom(tm.Root(fn), func(f *Frame, in ssa.Instruction) {
		if e := w.EffectOf(in); e != nil && e.Kind == EffHook && !seenInv[in] {
			seenInv[in] = true
			invokes = append(invokes, in.(ssa.CallInstruction))
			ifr = f
		}
	})
	if len(invokes) != 1 {
		r.Fail(rule, key+":invoke", where, fmt.Sprintf("%s.%s invokes exactly one listener method", owner, m),
			fmt.Sprintf("found %d invocations of FundraisingHooks methods", len(invokes)))
		return
	}
	inv := invokes[0]
	cc := inv.Common()
	r.Check(cc.Method.Name() == m, rule, key+":same-method", w.instrPos(inv),
		fmt.Sprintf("%s.%s forwards to the same-named listener method", owner, m),
		fmt.Sprintf("it invokes %s instead: listeners of %s are never told, listeners of %s are told twice", cc.Method.Name(), m, cc.Method.Name()))
	// receiver
	fr := ifr
	rt := tm.Of(fr, cc.Value)
	if loop {
		okRecv := rt.Op == "elem" && rt.Args[0].Op == "param" && len(fn.Params) > 0 && rt.Args[0].Name == fn.Params[0].Name()
		r.Check(okRecv, rule, key+":receiver", w.instrPos(inv), "the listener invoked is an element of the receiver slice",
			"receiver of the invocation is "+rt.String())
		// inside a loop whose only early exits are on the element's error
		fi := fnInfo(fn)
		l := fi.LoopOf[inv.Block()]
		if l == nil {
			r.Fail(rule, key+":all-elements", w.instrPos(inv), "every registered listener is invoked (loop over the receiver)",
				"the invocation is not inside a loop: at most one listener is called")
		} else {
			var bad []string
			for b := range l.Blocks {
				for _, s := range b.Succs {
					if l.Blocks[s] || b == l.Header {
						continue
					}
					if !errBranchDominates(s, inv) {
						bad = append(bad, w.instrPos(b.Instrs[len(b.Instrs)-1]))
					}
				}
			}
			sort.Strings(bad)
			r.Check(len(bad) == 0, rule, key+":all-elements", w.instrPos(inv),
				"the loop over the listeners is left early only when a listener returned an error",
				"the loop can be left at "+strings.Join(bad, ", ")+" without a listener error: later listeners are skipped")
			// the loop ranges over the whole receiver: index from 0/-1, step 1, bound len(receiver)
			r.Check(fullRange(fn, l), rule, key+":range", w.instrPos(inv), "the loop ranges over the whole receiver slice",
				"the loop bound/step is not the plain range over the receiver")
		}
	} else {
		slot := hookSlotOf(w)
		rt = tm.OperandAt(fr, inv, cc.Value)
		r.Check(slot != nil && slot.matches(rt, len(slot.path)), rule, key+":receiver", w.instrPos(inv),
			"the listener invoked is the one the keeper's registration method stores", "receiver of the invocation is "+rt.String())
		// on every success path with a listener registered the invoke is passed exactly once
		x := NewExplorer(w, tm, &forwardRule{invoke: inv, slot: slot})
		var bad []string
		for _, o := range x.Run(fn, 0) {
			if o.Kind != ExitReturn {
				continue
			}
			if av, ok := o.ErrAV(fn); ok && av.K == avNonNil {
				continue
			}
			if o.St&3 != 1 {
				bad = append(bad, fmt.Sprintf("exit %s passes the invocation %d times", w.instrPos(o.Instr), o.St&3))
			}
		}
		sort.Strings(bad)
		r.Check(len(bad) == 0, rule, key+":always", w.instrPos(inv),
			"with a listener registered, every non-failing path of the wrapper invokes it exactly once",
			strings.Join(dedupe(bad), "; "))
	}
	// arguments: parameter i -> argument i, unchanged
	params := fn.Params[1:]
	okArgs, why := len(cc.Args) == len(params), ""
	if !okArgs {
		why = fmt.Sprintf("%d arguments for %d parameters", len(cc.Args), len(params))
	}
	for i := 0; okArgs && i < len(params); i++ {
		at := uncell(tm.OperandAt(fr, inv, cc.Args[i]))
		if !(at.Op == "param" && at.V == ssa.Value(params[i])) {
			okArgs = false
			why = fmt.Sprintf("argument %d is %s, expected the method's own parameter %q", i, at.String(), params[i].Name())
		}
	}
	r.Check(okArgs, rule, key+":args", w.instrPos(inv), "each parameter is forwarded unchanged, in order", why)
	// error returned
	if !errPropSite(w, r, tm, fs, fn, inv, rule) {
		r.Fail(rule, key+":error", w.instrPos(inv), "the listener's error result is propagated", "the invoked method has no error result to propagate")
	}
}

// errBranchDominates: block b is only reached when the error result of call was found non-nil.
func errBranchDominates(b *ssa.BasicBlock, call ssa.CallInstruction) bool {
	fn := b.Parent()
	for _, tb := range fn.Blocks {
		iff, ok := tb.Instrs[len(tb.Instrs)-1].(*ssa.If)
		if !ok {
			continue
		}
		bo, ok := iff.Cond.(*ssa.BinOp)
		if !ok || (bo.Op != token.NEQ && bo.Op != token.EQL) {
			continue
		}
		isNil := func(v ssa.Value) bool { c, ok := v.(*ssa.Const); return ok && c.Value == nil }
		var tested ssa.Value
		if isNil(bo.Y) {
			tested = bo.X
		} else if isNil(bo.X) {
			tested = bo.Y
		}
		if tested == nil || !derivesFrom(tested, call) {
			continue
		}
		errSucc := tb.Succs[0]
		if bo.Op == token.EQL {
			errSucc = tb.Succs[1]
		}
		if len(errSucc.Preds) == 1 && (errSucc == b || errSucc.Dominates(b)) {
			return true
		}
	}
	return false
}

// fullRange: the loop is a range over a value of slice type that is the method's receiver
// (go/ssa's rangeindex shape: i = phi(-1, i+1); i+1 < len(recv)) or an explicit 0..len(recv) loop.
func fullRange(fn *ssa.Function, l *Loop) bool {
	iff, ok := l.Header.Instrs[len(l.Header.Instrs)-1].(*ssa.If)
	if !ok {
		return false
	}
	bo, ok := iff.Cond.(*ssa.BinOp)
	if !ok || bo.Op != token.LSS {
		return false
	}
	// right side: len(receiver)
	lc, ok := bo.Y.(*ssa.Call)
	if !ok {
		return false
	}
	if b, ok := lc.Call.Value.(*ssa.Builtin); !ok || b.Name() != "len" || len(lc.Call.Args) != 1 || len(fn.Params) == 0 || lc.Call.Args[0] != ssa.Value(fn.Params[0]) {
		return false
	}
	// left side: phi(-1, x+1)+1  or  phi(0, x+1)
	isConst := func(v ssa.Value, s string) bool {
		c, ok := v.(*ssa.Const)
		return ok && c.Value != nil && c.Value.ExactString() == s
	}
	incOf := func(v ssa.Value, ph *ssa.Phi) bool {
		b, ok := v.(*ssa.BinOp)
		return ok && b.Op == token.ADD && b.X == ssa.Value(ph) && isConst(b.Y, "1")
	}
	if inc, ok := bo.X.(*ssa.BinOp); ok && inc.Op == token.ADD && isConst(inc.Y, "1") {
		if ph, ok := inc.X.(*ssa.Phi); ok && len(ph.Edges) == 2 {
			return (isConst(ph.Edges[0], "-1") && ph.Edges[1] == ssa.Value(inc)) || (isConst(ph.Edges[1], "-1") && ph.Edges[0] == ssa.Value(inc))
		}
	}
	if ph, ok := bo.X.(*ssa.Phi); ok && len(ph.Edges) == 2 {
		return (isConst(ph.Edges[0], "0") && incOf(ph.Edges[1], ph)) || (isConst(ph.Edges[1], "0") && incOf(ph.Edges[0], ph))
	}
	return false
}

// ---------------------------------------------------------------- HK-SITE

type siteRule struct {
	BaseRule
	site      ssa.CallInstruction
	announced func(x *Explorer, in ssa.Instruction) bool
	loopHas   map[*Loop]bool
	w         *World
}

const (
	hsCountMask = 3
	hsWBefore   = 1 << 2
	hsWAfter    = 1 << 3
)

func (s *siteRule) CallResult(x *Explorer, fr *Frame, c ssa.CallInstruction) ([]AV, CallMode) {
	if c == s.site {
		// the wrapper is an atom here (HK-WRAP covers its body)
		return make([]AV, c.Common().Signature().Results().Len()), CallReplace
	}
	return nil, CallDefault
}

func (s *siteRule) mark(st uint64) uint64 {
	if st&hsCountMask == 0 {
		return st | hsWBefore
	}
	return st | hsWAfter
}

func (s *siteRule) OnInstr(x *Explorer, fr *Frame, in ssa.Instruction, st uint64) uint64 {
	if in == s.site.(ssa.Instruction) {
		if st&hsCountMask < 2 {
			st++
		}
		return st
	}
	if s.announced(x, in) {
		// inside a loop the region event at loop entry stands for the effect
		if fnInfo(in.Parent()).LoopOf[in.Block()] == nil {
			st = s.mark(st)
		}
	}
	return st
}

func (s *siteRule) OnLoopEnter(x *Explorer, fr *Frame, l *Loop, st uint64) uint64 {
	has, ok := s.loopHas[l]
	if !ok {
		has = s.w.loopMayDo(l, func(in ssa.Instruction) bool { return s.announced(x, in) })
		s.loopHas[l] = has
	}
	if has && l.Parent == nil {
		st = s.mark(st)
	}
	return st
}

// loopMayDo: some instruction in the loop, or in a repository function called from it, satisfies p.
func (w *World) loopMayDo(l *Loop, p func(ssa.Instruction) bool) bool {
	seen := map[*ssa.Function]bool{}
	var fnHas func(fn *ssa.Function) bool
	fnHas = func(fn *ssa.Function) bool {
		if seen[fn] {
			return false
		}
		seen[fn] = true
		for _, b := range fn.Blocks {
			for _, in := range b.Instrs {
				if p(in) {
					return true
				}
			}
		}
		for _, c := range w.callees(fn) {
			if fnHas(c) {
				return true
			}
		}
		return false
	}
	for b := range l.Blocks {
		for _, in := range b.Instrs {
			if p(in) {
				return true
			}
			if c, ok := in.(ssa.CallInstruction); ok {
				if f := w.calleeBody(c.Common()); f != nil && fnHas(f) {
					return true
				}
			}
		}
	}
	return false
}

// operationOf: the operation a piece of code belongs to — the function itself, or, for an unexported helper / closure with
// a single calling function, (transitively) that caller. A hook call or the write it announces may sit in a helper of the
// operation; "once per operation" and "the record that is written" are about the operation.
func operationOf(w *World, fn *ssa.Function) *ssa.Function {
	for i := 0; i < 8; i++ {
		if fn.Parent() != nil {
			fn = fn.Parent()
			continue
		}
		obj := funcObj(fn)
		if obj == nil || obj.Exported() {
			return fn
		}
		callers := map[*ssa.Function]bool{}
		for _, cs := range w.callSitesOf(fn) {
			if p := pkgOf(cs.Parent()); p != nil && w.isRepoPkg(p) && p.Path() != simPath {
				callers[cs.Parent()] = true
			}
		}
		if len(callers) != 1 {
			return fn
		}
		for c := range callers {
			fn = c
		}
	}
	return fn
}

// loopInContext: in runs inside a loop of its function or of a caller on the frame chain (up to, not beyond, stop).
func loopInContext(fr *Frame, in ssa.Instruction, stop *Frame) bool {
	if fnInfo(in.Parent()).LoopOf[in.Block()] != nil {
		return true
	}
	for f := fr; f != nil && f != stop && f.Parent != nil && f.Call != nil; f = f.Parent {
		if fnInfo(f.Parent.Fn).LoopOf[f.Call.Block()] != nil {
			return true
		}
	}
	return false
}

func checkHookSite(w *World, r *Report, tm *Terms, m string, spec hookSpec, site ssa.CallInstruction, n int) {
	fn := operationOf(w, site.Parent())
	opFr := tm.Root(fn)
	key := fmt.Sprintf("%s:site%d:%s", m, n, fnName(fn))
	where := w.instrPos(site)
	// the site in the calling context(s) of its operation
	var siteFrs []*Frame
	tm.walkFrom(opFr, func(fr *Frame, in ssa.Instruction) {
		if in == site.(ssa.Instruction) {
			siteFrs = append(siteFrs, fr)
		}
	})
	if len(siteFrs) == 0 {
		siteFrs = []*Frame{tm.Root(site.Parent())}
	}
	inLoop := false
	for _, sf := range siteFrs {
		if loopInContext(sf, site, opFr) {
			inLoop = true
		}
	}
	r.Check(!inLoop, "HK-SITE", key+":not-in-loop", where,
		"the hook is fired outside any loop (once per operation)", "the call site is inside a loop: the hook fires once per iteration")

	announced := func(x *Explorer, in ssa.Instruction) bool {
		e := w.EffectOf(in)
		if e == nil {
			return false
		}
		if spec.announced == "" {
			return e.Kind == EffTransfer
		}
		return e.Kind == EffStoreWrite && e.Coll == spec.announced
	}
	sr := &siteRule{site: site, announced: announced, loopHas: map[*Loop]bool{}, w: w}
	x := NewExplorer(w, tm, sr)
	var bad []string
	succ := 0
	for _, o := range x.Run(fn, 0) {
		if o.Kind != ExitReturn {
			continue
		}
		if av, ok := o.ErrAV(fn); ok && av.K == avNonNil {
			continue
		}
		succ++
		cnt := o.St & hsCountMask
		switch {
		case cnt != 1:
			bad = append(bad, fmt.Sprintf("a non-failing path to %s fires the hook %d times", w.instrPos(o.Instr), cnt))
		case !spec.after && o.St&hsWBefore != 0:
			bad = append(bad, fmt.Sprintf("on a path to %s the announced write happens before the hook", w.instrPos(o.Instr)))
		case !spec.after && o.St&hsWAfter == 0:
			bad = append(bad, fmt.Sprintf("on a path to %s the hook fires but the announced write never happens", w.instrPos(o.Instr)))
		case spec.after && o.St&hsWBefore == 0:
			bad = append(bad, fmt.Sprintf("on a path to %s the After-hook fires before the write it reports", w.instrPos(o.Instr)))
		}
	}
	sort.Strings(bad)
	bad = dedupe(bad)
	ann := "a bank transfer"
	if spec.announced != "" {
		ann = "the " + spec.announced + " store write"
	}
	rel := "before"
	if spec.after {
		rel = "after"
	}
	if succ == 0 {
		bad = append(bad, "no non-failing path found in "+fnName(fn))
	}
	r.Check(len(bad) == 0, "HK-SITE", key+":once-ordered", where,
		fmt.Sprintf("on every non-failing path of %s the hook fires exactly once, %s %s", fnName(fn), rel, ann), strings.Join(bad, "; "))

	// arguments
	args := site.Common().Args // receiver k, ctx, then hook arguments
	off := len(args) - len(spec.fields)
	if off < 0 {
		r.Fail("HK-SITE", key+":args", where, "hook arguments match the specification table", "fewer arguments than the table lists")
		return
	}
	// the record(s) written to the announced collection by this operation (in the operation or in what it calls)
	var written []*Term
	var keys []*Term
	tm.walkFrom(opFr, func(fr *Frame, in ssa.Instruction) {
		e := w.EffectOf(in)
		if e == nil || e.Kind != EffStoreWrite || e.Coll != spec.announced || e.Method != "Set" {
			return
		}
		ca := in.(ssa.CallInstruction).Common().Args
		if len(ca) >= 4 {
			keys = append(keys, tm.OperandAt(fr, in, ca[2]))
			written = append(written, tm.OperandAt(fr, in, ca[3]))
		}
	})
	for i, f := range spec.fields {
		akey := fmt.Sprintf("%s:arg%d", key, i)
		ok, why := true, ""
		for _, sf := range siteFrs {
			at := tm.OperandAt(sf, site, args[off+i])
			switch {
			case f != "":
				if len(written) == 0 {
					ok, why = false, "no write of the announced collection in "+fnName(fn)
					continue
				}
				for _, wv := range written {
					exp := recordField(wv, f, spec.announced == "Auction")
					if canonKey(exp) != canonKey(at) {
						ok = false
						why = fmt.Sprintf("the hook is told %s but the %s that is written has %s = %s", at.String(), spec.announced, f, exp.String())
					}
				}
			default:
				if o, y := specialHookArg(w, tm, fn, opFr, m, i, at, written, keys); !o {
					ok, why = false, y
				}
			}
		}
		if f != "" {
			r.Check(ok, "HK-SITE", akey, where, fmt.Sprintf("argument %d of %s is field %s of the %s record that is written", i, m, f, spec.announced), why)
		} else {
			r.Check(ok, "HK-SITE", akey, where, fmt.Sprintf("argument %d of %s carries the value the operation uses", i, m), why)
		}
	}
}

// canonKey: term key modulo address string round trips (String() of a parsed bech32 string is the string).
func canonKey(t *Term) string { return canon(t).Key() }

func canon(t *Term) *Term {
	if t == nil {
		return t
	}
	if t.Op == "call" && strings.HasSuffix(t.Name, "AccAddress.String") && len(t.Args) == 1 {
		in := t.Args[0]
		if in.Op == "res" && in.Name == "0" && in.Args[0].Op == "call" && strings.HasSuffix(in.Args[0].Name, ".AccAddressFromBech32") {
			return canon(in.Args[0].Args[0])
		}
	}
	if len(t.Args) == 0 {
		return t
	}
	n := &Term{Op: t.Op, Name: t.Name, V: t.V}
	for _, a := range t.Args {
		n.Args = append(n.Args, canon(a))
	}
	if n.Op == "phi" {
		return mkPhi(n.V, n.Args...)
	}
	return n
}

func specialHookArg(w *World, tm *Terms, fn *ssa.Function, fr *Frame, m string, i int, at *Term, written, keys []*Term) (bool, string) {
	switch m {
	case "BeforeAuctionCanceled":
		if len(written) == 0 {
			return false, "no Auction write in " + fnName(fn)
		}
		for _, wv := range written {
			if i == 0 {
				// the id: the record's Id, or the key the record was loaded with
				idf := recordField(wv, "Id", true)
				if at.Key() == idf.Key() {
					continue
				}
				loadedWith := false
				wv.Walk(func(x *Term) bool {
					if x.Op == "call" && strings.HasSuffix(x.Name, "collections.Map.Get") && len(x.Args) == 3 && x.Args[2].Key() == at.Key() {
						loadedWith = true
					}
					return !loadedWith
				})
				if !loadedWith {
					return false, "the id passed is " + at.String() + ", neither the written record's Id nor the key it was loaded with"
				}
			} else {
				if !(isField(at, "Auctioneer")) {
					return false, "the auctioneer passed is " + at.String() + ", not an Auctioneer field of the record / message"
				}
			}
		}
		return true, ""
	case "BeforeAllowedBiddersAdded":
		// the slice whose elements are written
		for _, wv := range written {
			// exactly the elements announced: an entry that is normalised (auction id, address spelling) after the hook
			// was told about it is stored as something the listeners never saw
			if !(wv.Op == "elem" && wv.Args[0].Key() == at.Key()) {
				return false, "the slice passed to the hook (" + at.String() + ") is not the slice whose elements are written unchanged (" + wv.String() + ")"
			}
		}
		return len(written) > 0, "no AllowedBidder write"
	case "BeforeAllowedBidderUpdated":
		// argument 1: the bidder address that the record and the key are built from
		for j, wv := range written {
			b := recordField(wv, "Bidder", false)
			if !b.Any(func(x *Term) bool { return x.Key() == at.Key() }) {
				return false, "the written record's Bidder (" + b.String() + ") is not built from the bidder passed to the hook (" + at.String() + ")"
			}
			if j < len(keys) && !keys[j].Any(func(x *Term) bool { return x.Key() == at.Key() }) {
				return false, "the store key (" + keys[j].String() + ") is not built from the bidder passed to the hook"
			}
		}
		return len(written) > 0, "no AllowedBidder write"
	case "BeforeSellingCoinsAllocated":
		// collect: the auction whose selling escrow is debited, and the MatchingInfo whose AllocationMap drives the amounts
		var escrowOf, allocOf []*Term
		tm.walkFrom(fr, func(fr *Frame, in ssa.Instruction) {
			{
				switch x := in.(type) {
				case ssa.CallInstruction:
					for _, a := range x.Common().Args {
						tm.OperandAt(fr, in, a).Walk(func(t *Term) bool {
							if isField(t, "SellingReserveAddress") {
								escrowOf = append(escrowOf, t.Args[0])
							}
							return true
						})
					}
					if x.Common().IsInvoke() {
						tm.Of(fr, x.Common().Value).Walk(func(t *Term) bool { return true })
					}
				case *ssa.Lookup:
					mt := tm.Of(fr, x.X)
					if isField(mt, "AllocationMap") {
						allocOf = append(allocOf, mt.Args[0])
					}
				case *ssa.Range:
					mt := tm.Of(fr, x.X)
					if isField(mt, "AllocationMap") {
						allocOf = append(allocOf, mt.Args[0])
					}
				}
			}
		})
		switch i {
		case 0:
			if !isField(at, "Id") {
				return false, "the auction id passed is " + at.String()
			}
			if len(escrowOf) == 0 {
				return false, "no use of a selling escrow address found in " + fnName(fn)
			}
			for _, e := range escrowOf {
				if e.Key() != at.Args[0].Key() {
					return false, "the hook is told the id of " + at.Args[0].String() + " but the escrow debited belongs to " + e.String()
				}
			}
		case 1:
			if !isField(at, "AllocationMap") {
				return false, "the allocation map passed is " + at.String()
			}
			if len(allocOf) == 0 {
				return false, "no read of an AllocationMap found in " + fnName(fn)
			}
			for _, e := range allocOf {
				if e.Key() != at.Args[0].Key() {
					return false, "the hook is shown the AllocationMap of " + at.Args[0].String() + " but the amounts allocated come from " + e.String()
				}
			}
		case 2:
			if !isField(at, "RefundMap") {
				return false, "the refund map passed is " + at.String()
			}
			for _, e := range allocOf {
				if e.Key() != at.Args[0].Key() {
					return false, "the RefundMap passed belongs to a different matching result than the allocation"
				}
			}
		}
		return true, ""
	}
	return false, "no specification for this argument"
}
