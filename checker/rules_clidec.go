package main

// CLI-DEC (C20): "what the user types is what is sent" for decimal numbers. On the wire a math.LegacyDec is its 18
// digit fixed point integer. The pinned autocli binds a string field with (cosmos_proto.scalar) = "cosmos.Dec" as a
// plain string flag unless the application registers a flag type for that scalar, so `place-bid … 2 …` sends the
// price 0.000000000000000002 and `0.5` is refused. The rule: every cosmos.Dec field of every request of a tx command
// that autocli builds is covered by a scalar flag type registered on the builder the root command enhances itself
// with, and that flag type parses a decimal number. A cosmos.Dec field nested in a message-typed flag (typed as JSON,
// parsed by protojson) is covered by no flag type at all.

import (
	"fmt"
	"sort"
	"strings"

	"golang.org/x/tools/go/ssa"
)

func checkCliDec(w *World, r *Report, tm *Terms, cmds []*cliCmd) {
	r.Rule("CLI-DEC", "decimal arguments of the tx commands are sent as the numbers that are typed", 4)
	pulsar, _, _ := embeddedDescriptors(w, apiPath, "pulsar")
	byMsg := map[string][]protoField{}
	for file, fs := range pulsar {
		if !strings.HasPrefix(file, "fundraising/") {
			continue
		}
		for _, f := range fs {
			byMsg[f.msg] = append(byMsg[f.msg], f)
		}
	}
	// is a cosmos.Dec flag type registered on the builder that enhances the root command?
	registered, regWhy, regWhere := false, "the command package never calls (*flag.Builder).DefineScalarFlagType(\"cosmos.Dec\", …): autocli binds the field as a plain string", cmdPath
	withBuilder := false
	for _, fn := range w.Funcs {
		if p := pkgOf(fn); p == nil || p.Path() != cmdPath {
			continue
		}
		var fr *Frame
		for _, b := range fn.Blocks {
			for _, in := range b.Instrs {
				c, ok := in.(ssa.CallInstruction)
				if !ok {
					continue
				}
				key := callKey(c.Common())
				switch {
				case strings.HasSuffix(key, "autocli.AppOptions.EnhanceRootCommandWithBuilder"):
					withBuilder = true
				case strings.HasSuffix(key, "autocli/flag.Builder.DefineScalarFlagType") && len(c.Common().Args) == 3:
					if fr == nil {
						fr = tm.PlainRoot(fn)
					}
					if s, ok := constStringTerm(tm.OperandAt(fr, in, c.Common().Args[1])); ok && s == "cosmos.Dec" {
						regWhere = w.instrPos(in)
						// the flag type's value parses a decimal number
						parses := false
						if mi, isMI := c.Common().Args[2].(*ssa.MakeInterface); isMI {
							if nv := w.methodOf(namedOf(mi.X.Type()), "NewValue"); nv != nil {
								for f := range w.reachableFrom(nv) {
									_ = f
								}
								for _, vb := range nv.Blocks {
									for _, vin := range vb.Instrs {
										if mk, isMk := vin.(*ssa.MakeInterface); isMk {
											if vt := namedOf(mk.X.Type()); vt != nil {
												if set := w.methodOf(vt, "Set"); set != nil {
													for g := range w.reachableFrom(set) {
														for _, gb := range g.Blocks {
															for _, gi := range gb.Instrs {
																if gc, isC := gi.(ssa.CallInstruction); isC && strings.HasPrefix(callKey(gc.Common()), mathPath+".LegacyNewDecFromStr") {
																	parses = true
																}
															}
														}
													}
												}
											}
										}
									}
								}
							}
						}
						if parses {
							registered = true
						} else {
							regWhy = "the flag type registered for cosmos.Dec does not parse its argument as a decimal number (math.LegacyNewDecFromStr)"
						}
					}
				}
			}
		}
	}
	if registered && !withBuilder {
		registered, regWhy = false, "a cosmos.Dec flag type is defined but the root command is not enhanced with that builder (EnhanceRootCommandWithBuilder is never called)"
	}
	skipped := map[string]bool{}
	for _, c := range cmds {
		if c.service == "Tx" && c.skip {
			skipped[c.method] = true
		}
	}
	var methods []string
	for m := range w.msgServerMethods() {
		methods = append(methods, m)
	}
	sort.Strings(methods)
	short := func(tn string) string {
		if i := strings.LastIndex(tn, "."); i >= 0 {
			return tn[i+1:]
		}
		return tn
	}
	for _, m := range methods {
		if skipped[m] {
			continue
		}
		for _, f := range byMsg["Msg"+m] {
			switch {
			case f.scalar == "cosmos.Dec" && !f.repeated:
				r.Check(registered, "CLI-DEC", fmt.Sprintf("%s:%s", m, f.name), regWhere,
					fmt.Sprintf("the %s argument of %s is read by a flag type that parses a decimal number and sends its wire form", f.name, m),
					fmt.Sprintf("%s — `%s` typed as 2 is sent as 0.000000000000000002 and 0.5 is refused", regWhy, f.name))
			case f.typ == "message":
				for _, nf := range byMsg[short(f.typeName)] {
					if nf.scalar == "cosmos.Dec" {
						r.Fail("CLI-DEC", fmt.Sprintf("%s:%s.%s", m, f.name, nf.name), f.where,
							fmt.Sprintf("%s.%s of %s is sent as typed", f.name, nf.name, m),
							fmt.Sprintf("%s is a message-typed field that the command line takes as JSON and parses with protojson; its cosmos.Dec field %s goes on the wire as the typed string, i.e. as the 18 digit fixed point integer (a weight of 0.5 has to be typed as 500000000000000000); no flag type applies inside the JSON", f.name, nf.name))
					}
				}
			}
		}
	}
}
