package main

// cfgx.go — control-flow helpers over go/ssa functions: natural loops,
// reachability, post-dominance.

import (
	"golang.org/x/tools/go/ssa"
)

type Loop struct {
	Header *ssa.BasicBlock
	Blocks map[*ssa.BasicBlock]bool
	Parent *Loop // enclosing loop (nil for outermost)
}

type FnInfo struct {
	Fn    *ssa.Function
	Loops []*Loop
	// innermost loop of each block
	LoopOf map[*ssa.BasicBlock]*Loop
}

var fnInfoCache = map[*ssa.Function]*FnInfo{}

func fnInfo(fn *ssa.Function) *FnInfo {
	if fi := fnInfoCache[fn]; fi != nil {
		return fi
	}
	fi := &FnInfo{Fn: fn, LoopOf: map[*ssa.BasicBlock]*Loop{}}
	fnInfoCache[fn] = fi
	// natural loops: back edge b->h where h dominates b
	byHeader := map[*ssa.BasicBlock]*Loop{}
	for _, b := range fn.Blocks {
		for _, h := range b.Succs {
			if h.Dominates(b) {
				l := byHeader[h]
				if l == nil {
					l = &Loop{Header: h, Blocks: map[*ssa.BasicBlock]bool{h: true}}
					byHeader[h] = l
					fi.Loops = append(fi.Loops, l)
				}
				// add all blocks that reach b without passing h
				stack := []*ssa.BasicBlock{b}
				for len(stack) > 0 {
					x := stack[len(stack)-1]
					stack = stack[:len(stack)-1]
					if l.Blocks[x] {
						continue
					}
					l.Blocks[x] = true
					for _, p := range x.Preds {
						stack = append(stack, p)
					}
				}
			}
		}
	}
	// nesting: parent = smallest strictly larger loop containing header
	for _, l := range fi.Loops {
		for _, m := range fi.Loops {
			if m == l || !m.Blocks[l.Header] || len(m.Blocks) <= len(l.Blocks) {
				continue
			}
			if l.Parent == nil || len(m.Blocks) < len(l.Parent.Blocks) {
				l.Parent = m
			}
		}
	}
	for _, b := range fn.Blocks {
		var best *Loop
		for _, l := range fi.Loops {
			if l.Blocks[b] && (best == nil || len(l.Blocks) < len(best.Blocks)) {
				best = l
			}
		}
		if best != nil {
			fi.LoopOf[b] = best
		}
	}
	return fi
}

// outermostLoop returns the outermost loop containing b (nil if none).
func (fi *FnInfo) outermostLoop(b *ssa.BasicBlock) *Loop {
	l := fi.LoopOf[b]
	if l == nil {
		return nil
	}
	for l.Parent != nil {
		l = l.Parent
	}
	return l
}

// instrIndex returns the index of an instruction in its block.
func instrIndex(in ssa.Instruction) int {
	for i, x := range in.Block().Instrs {
		if x == in {
			return i
		}
	}
	return -1
}

// instrDominates reports whether a is executed before b on every path to b.
func instrDominates(a, b ssa.Instruction) bool {
	if a.Block() == b.Block() {
		return instrIndex(a) < instrIndex(b)
	}
	return a.Block().Dominates(b.Block())
}

// blockReachable reports whether `to` is reachable from `from` (from == to counts only via a cycle unless same is true).
func blockReachable(from, to *ssa.BasicBlock) bool {
	seen := map[*ssa.BasicBlock]bool{}
	stack := append([]*ssa.BasicBlock{}, from.Succs...)
	for len(stack) > 0 {
		x := stack[len(stack)-1]
		stack = stack[:len(stack)-1]
		if x == to {
			return true
		}
		if seen[x] {
			continue
		}
		seen[x] = true
		stack = append(stack, x.Succs...)
	}
	return false
}

// instrReaches: can control flow from instruction a reach instruction b (a before b)?
func instrReaches(a, b ssa.Instruction) bool {
	if a.Block() == b.Block() && instrIndex(a) < instrIndex(b) {
		return true
	}
	return blockReachable(a.Block(), b.Block())
}
