package main

import (
	"fmt"
	"strings"

	"golang.org/x/tools/go/ssa"
)

// dumpTerms prints, for every call in functions whose name contains pat, the
// provenance terms of its arguments (development aid; not part of any verdict).
func dumpTerms(w *World, pat string) {
	tm := NewTerms(w)
	for _, fn := range w.Funcs {
		if !strings.Contains(fn.String(), pat) {
			continue
		}
		fmt.Printf("== %s\n", fn)
		fr := tm.Root(fn)
		for _, b := range fn.Blocks {
			for _, in := range b.Instrs {
				switch x := in.(type) {
				case ssa.CallInstruction:
					cc := x.Common()
					fmt.Printf("  %s  call %s\n", w.instrPos(in), shorten(callKey(cc)))
					if cc.IsInvoke() {
						fmt.Printf("      recv: %s\n", tm.Of(fr, cc.Value))
					}
					for i, a := range cc.Args {
						fmt.Printf("      a%d: %s\n", i, tm.OperandAt(fr, in, a))
					}
					if v, ok := in.(ssa.Value); ok {
						fmt.Printf("      => %s\n", tm.Of(fr, v))
					}
				case *ssa.Return:
					for i, rv := range x.Results {
						fmt.Printf("  %s  return[%d] %s\n", w.instrPos(in), i, tm.OperandAt(fr, in, rv))
					}
				case *ssa.If:
					fmt.Printf("  %s  if %s\n", w.instrPos(in), tm.Of(fr, x.Cond))
				case *ssa.Store:
					fmt.Printf("  %s  store %s := %s\n", w.instrPos(in), tm.Of(fr, x.Addr), tm.OperandAt(fr, in, x.Val))
				}
			}
		}
	}
}
