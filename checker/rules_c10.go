package main

// C10 — only allow-listed accounts bid; users cannot allow-list themselves.
//   AL-DOM     the bid record is written only if the allow-list lookup keyed by (the auction, the message's bidder) succeeded
//   AL-GUARD   with the testing switch off no MsgServer method (nor the block hook) reaches an AllowedBidder write
//   SW-OWNER   in the default build nothing but the switch's own package initialisation writes the switch,
//              and that initialisation yields false; the Makefile's default ldflags do not set it

import (
	"fmt"
	"go/ast"
	"go/constant"
	"go/token"
	"go/types"
	"os"
	"path/filepath"
	"sort"
	"strconv"
	"strings"

	"golang.org/x/tools/go/ssa"
)

func init() { register("C10", checkC10) }

// reachRule records which effect sites are reached.
type reachRule struct {
	BaseRule
	w         *World
	valueOf   func(x *Explorer, fr *Frame, v ssa.Value) AV
	callRes   func(x *Explorer, fr *Frame, c ssa.CallInstruction) ([]AV, CallMode)
	compare   func(x *Explorer, fr *Frame, op token.Token, l, r ssa.Value) AV
	want      func(e *Effect) bool
	reached   map[ssa.Instruction]bool
	stopAfter bool
}

func (r *reachRule) ValueOf(x *Explorer, fr *Frame, v ssa.Value) AV {
	if r.valueOf != nil {
		return r.valueOf(x, fr, v)
	}
	return Unknown
}
func (r *reachRule) CallResult(x *Explorer, fr *Frame, c ssa.CallInstruction) ([]AV, CallMode) {
	if r.callRes != nil {
		return r.callRes(x, fr, c)
	}
	return nil, CallDefault
}
func (r *reachRule) Compare(x *Explorer, fr *Frame, op token.Token, l, rr ssa.Value) AV {
	if r.compare != nil {
		return r.compare(x, fr, op, l, rr)
	}
	return Unknown
}
func (r *reachRule) OnInstr(x *Explorer, fr *Frame, in ssa.Instruction, st uint64) uint64 {
	if e := r.w.EffectOf(in); e != nil && r.want(e) {
		r.reached[in] = true
	}
	return st
}

func newReach(w *World, want func(e *Effect) bool) *reachRule {
	return &reachRule{w: w, want: want, reached: map[ssa.Instruction]bool{}}
}

func (r *reachRule) list(w *World) string {
	var s []string
	for in := range r.reached {
		s = append(s, w.instrPos(in))
	}
	sort.Strings(s)
	return strings.Join(s, ", ")
}

// findSwitch: the package-level bool read by the AddAllowedBidder handler.
func findSwitch(w *World, handler *ssa.Function) *ssa.Global {
	var found []*ssa.Global
	seen := map[*ssa.Global]bool{}
	for fn := range w.reachableFrom(handler) {
		for _, b := range fn.Blocks {
			for _, in := range b.Instrs {
				u, ok := in.(*ssa.UnOp)
				if !ok || u.Op != token.MUL {
					continue
				}
				g, ok := u.X.(*ssa.Global)
				if !ok || !w.isRepoPkg(g.Pkg.Pkg) {
					continue
				}
				if b, ok := u.Type().Underlying().(*types.Basic); ok && b.Kind() == types.Bool && !seen[g] {
					seen[g] = true
					found = append(found, g)
				}
			}
		}
	}
	if len(found) == 1 {
		return found[0]
	}
	return nil
}

func checkC10(w *World, r *Report) {
	r.Explanation = "Decides: (AL-DOM) in the bid-placing operation the Bid record write is unreachable whenever the AllowedBidder lookup keyed by (the operated auction's id, the message's bidder) returns an error; (AL-GUARD) with the package-level testing switch evaluated to false, abstract exploration of each of the 7 MsgServer methods and of the block hook reaches no AllowedBidder store write (and the 6 handlers other than AddAllowedBidder have no call-graph path to one at all); (SW-OWNER) over the whole import closure of the binary, the only stores to the switch are in its own package's initialisation, fed by strconv.ParseBool of a link-time string whose initialiser parses to false and that nothing else stores to; no other package takes the switch's address; the Makefile's default ldflags do not set the link flag."
	r.NotDecided = "builds that pass the documented testing link flag (outside the property's quantifier; config.yml/config-test.yml do); history clause 'no bid without entry' rests on AL-DOM plus the Bid writer table (C11/C19)."
	r.Rule("AL-DOM", "bid record write guarded by the allow-list lookup of (auction, message bidder)", 2)
	r.Rule("AL-GUARD", "no message (switch off) and no block reaches an allow-list write", 8)
	r.Rule("SW-OWNER", "the testing switch is written only by its own initialisation, to false", 3)

	tm := NewTerms(w)
	ms := w.msgServerMethods()

	// ------------------------------------------------------------------ AL-DOM
	place := ms["PlaceBid"]
	isBidWrite := func(e *Effect) bool { return e.Kind == EffStoreWrite && e.Coll == "Bid" }
	// sanity: reachable at all
	base := newReach(w, isBidWrite)
	NewExplorer(w, tm, base).Run(place, 0)
	r.Check(len(base.reached) > 0, "AL-DOM", "PlaceBid:writes-bid", w.pos(place.Pos()), "the PlaceBid handler reaches a Bid record write (anchor)",
		"no Bid write reachable from MsgServer.PlaceBid: the rule has lost its anchor")
	admitted, btNames := admittedEnum(w, tm, "MsgPlaceBid", "BidType", "BidType")
	if len(admitted) == 0 {
		fatalf("MsgPlaceBid.ValidateBasic admits no bid type")
	}
	for _, bt := range admitted {
		properKeys := 0
		guard := newReach(w, isBidWrite)
		guard.valueOf = bidTypeValuation(bt)
		guard.callRes = func(x *Explorer, fr *Frame, c ssa.CallInstruction) ([]AV, CallMode) {
			e := w.EffectOf(c)
			if e == nil || e.Kind != EffStoreRead || e.Coll != "AllowedBidder" || e.Method != "Get" {
				return nil, CallDefault
			}
			args := c.Common().Args
			if len(args) < 3 {
				return nil, CallDefault
			}
			kt := x.TM.OperandAt(fr, c, args[2])
			if allowKeyOK(kt) {
				properKeys++
				return []AV{Unknown, NonNil}, CallOverride
			}
			return nil, CallDefault
		}
		NewExplorer(w, tm, guard).Run(place, 0)
		r.Check(len(guard.reached) == 0 && properKeys > 0, "AL-DOM", "PlaceBid:allowlist-dominates-bid-write:"+btNames[bt], w.pos(place.Pos()),
			fmt.Sprintf("for the admitted bid type %s: when AllowedBidder.Get(auction id, message bidder) fails, no Bid record is written", btNames[bt]),
			fmt.Sprintf("with every correctly keyed allow-list lookup failing (%d found) the Bid write at %s is still reachable: a bid is recorded for an account that is not on the auction's allow-list", properKeys, guard.list(w)))
	}

	// ------------------------------------------------------------------ AL-GUARD
	isALWrite := func(e *Effect) bool { return e.Kind == EffStoreWrite && e.Coll == "AllowedBidder" }
	handler := ms["AddAllowedBidder"]
	sw := findSwitch(w, handler)
	if sw == nil {
		r.Fail("AL-GUARD", "switch", w.pos(handler.Pos()), "the AddAllowedBidder handler is guarded by one package-level boolean switch",
			"no (or more than one) package-level bool is read by the handler: the message-level allow-list write is not gated")
	}
	for _, name := range sortedKeys(ms) {
		fn := ms[name]
		if name != "AddAllowedBidder" {
			// no call-graph path at all
			var hits []string
			for f := range w.reachableFrom(fn) {
				for _, b := range f.Blocks {
					for _, in := range b.Instrs {
						if e := w.EffectOf(in); e != nil && isALWrite(e) {
							hits = append(hits, w.instrPos(in))
						}
					}
				}
			}
			sort.Strings(hits)
			r.Check(len(hits) == 0, "AL-GUARD", "msg:"+name, w.pos(fn.Pos()), "MsgServer."+name+" has no call path to an AllowedBidder write",
				"it can reach the allow-list write(s) at "+strings.Join(hits, ", ")+": a transaction can change an allow-list")
			continue
		}
		if sw == nil {
			continue
		}
		for _, val := range []bool{false, true} {
			val := val
			rr := newReach(w, isALWrite)
			rr.valueOf = func(x *Explorer, fr *Frame, v ssa.Value) AV {
				if u, ok := v.(*ssa.UnOp); ok && u.Op == token.MUL && u.X == ssa.Value(sw) {
					return Bool(val)
				}
				return Unknown
			}
			NewExplorer(w, tm, rr).Run(fn, 0)
			if !val {
				r.Check(len(rr.reached) == 0, "AL-GUARD", "msg:AddAllowedBidder:switch-off", w.pos(fn.Pos()),
					"with the switch false, MsgServer.AddAllowedBidder reaches no AllowedBidder write",
					"the write at "+rr.list(w)+" is reachable with the switch off: any account can allow-list itself")
			} else {
				r.Check(len(rr.reached) > 0, "AL-GUARD", "msg:AddAllowedBidder:switch-on", w.pos(fn.Pos()),
					"with the switch true the handler does reach the write (the switch is the only gate; anchor)",
					"the handler never reaches an allow-list write: anchor lost")
			}
		}
	}
	bb := w.beginBlockFn()
	{
		var hits []string
		for f := range w.reachableFrom(bb) {
			for _, b := range f.Blocks {
				for _, in := range b.Instrs {
					if e := w.EffectOf(in); e != nil && isALWrite(e) {
						hits = append(hits, w.instrPos(in))
					}
				}
			}
		}
		r.Check(len(hits) == 0, "AL-GUARD", "block-hook", w.pos(bb.Pos()), "block processing has no call path to an AllowedBidder write", strings.Join(hits, ", "))
	}

	// ------------------------------------------------------------------ SW-OWNER
	if sw != nil {
		checkSwitchOwner(w, r, tm, sw)
	}
}

// allowKeyOK: Join(auction id, bidder) with the id of the operated auction and the message's bidder.
func allowKeyOK(kt *Term) bool {
	ok := false
	for _, alt := range kt.Alts() {
		if alt.Op != "call" || !strings.HasSuffix(alt.Name, "collections.Join") || len(alt.Args) != 2 {
			return false
		}
		id, b := alt.Args[0], alt.Args[1]
		idOK := false
		for _, a := range id.Alts() {
			switch {
			case isField(a, "AuctionId") && a.Args[0].Op == "param":
				idOK = true
			case isField(a, "Id") && a.Args[0].Any(func(x *Term) bool { return isField(x, "AuctionId") && x.Args[0].Op == "param" }):
				idOK = true // id of the record loaded by the message's auction id
			default:
				return false
			}
		}
		bOK := b.Any(func(x *Term) bool { return isField(x, "Bidder") && x.Args[0].Op == "param" }) &&
			!b.Any(func(x *Term) bool { return isField(x, "Bidder") && x.Args[0].Op != "param" })
		if !idOK || !bOK {
			return false
		}
		ok = true
	}
	return ok
}

func checkSwitchOwner(w *World, r *Report, tm *Terms, sw *ssa.Global) {
	swObj := sw.Object()
	swName := sw.Pkg.Pkg.Path() + "." + sw.Name()
	// every reference to the switch in every loaded (non-test) package
	type ref struct {
		pkg   string
		pos   token.Pos
		write bool
		addr  bool
		fn    string
	}
	var refs []ref
	scanned := 0
	for _, p := range w.All {
		imports := p.PkgPath == sw.Pkg.Pkg.Path()
		for ip := range p.Imports {
			if ip == sw.Pkg.Pkg.Path() {
				imports = true
			}
		}
		if !imports || p.TypesInfo == nil {
			continue
		}
		scanned++
		for _, f := range p.Syntax {
			walkStack(f, func(n ast.Node, stack []ast.Node) bool {
				id, ok := n.(*ast.Ident)
				if !ok || p.TypesInfo.Uses[id] != swObj {
					return true
				}
				rf := ref{pkg: p.PkgPath, pos: id.Pos()}
				// the expression denoting the variable: ident or pkg.ident
				var expr ast.Node = id
				i := len(stack) - 1
				if i >= 0 {
					if se, ok := stack[i].(*ast.SelectorExpr); ok && se.Sel == id {
						expr = se
						i--
					}
				}
				if i >= 0 {
					switch par := stack[i].(type) {
					case *ast.AssignStmt:
						for _, l := range par.Lhs {
							if l == expr {
								rf.write = true
							}
						}
					case *ast.IncDecStmt:
						rf.write = true
					case *ast.UnaryExpr:
						if par.Op == token.AND {
							rf.addr = true
						}
					case *ast.RangeStmt:
						if par.Key == expr || par.Value == expr {
							rf.write = true
						}
					}
				}
				for j := len(stack) - 1; j >= 0; j-- {
					if fd, ok := stack[j].(*ast.FuncDecl); ok {
						rf.fn = fd.Name.Name
						break
					}
				}
				refs = append(refs, rf)
				return true
			})
		}
	}
	sort.Slice(refs, func(i, j int) bool { return refs[i].pos < refs[j].pos })
	ownWrites := 0
	for _, rf := range refs {
		where := w.pos(rf.pos)
		key := fmt.Sprintf("ref:%s.%s", strings.TrimPrefix(rf.pkg, modPath+"/"), rf.fn)
		switch {
		case rf.addr:
			r.Fail("SW-OWNER", key+":addr", where, "nobody takes the address of "+swName, "the switch's address is taken: it can be written through the pointer")
		case rf.write && rf.pkg == sw.Pkg.Pkg.Path() && rf.fn == "init":
			ownWrites++
			r.Pass("SW-OWNER", key+":write", where, "write of "+swName+" in its own package's init")
		case rf.write && !reaches(w.Repo[mainPath], rf.pkg):
			r.Note("%s: %s.%s writes the switch but the package is not in the import closure of the node binary", where, rf.pkg, rf.fn)
		case rf.write:
			r.Fail("SW-OWNER", key+":write", where, "only "+sw.Pkg.Pkg.Path()+"'s own initialisation writes "+swName,
				fmt.Sprintf("%s.%s assigns the switch; the package is linked into the node binary (import closure of cmd/fundraisingd), so the default build runs this write and message-level allow-listing is enabled for everyone", rf.pkg, rf.fn))
		}
	}
	r.Note("SW-OWNER scanned %d package(s) of the binary's import closure that can name the switch (%d references)", scanned, len(refs))

	// the value the own init computes: ParseBool(link-time string) with an initialiser that parses to false
	kp := w.Repo[sw.Pkg.Pkg.Path()]
	var linkVar *types.Var
	initOK, why := false, "no init assignment of the form switch, err = strconv.ParseBool(<package-level string>) found"
	for _, f := range kp.Syntax {
		for _, d := range f.Decls {
			fd, ok := d.(*ast.FuncDecl)
			if !ok || fd.Name.Name != "init" || fd.Recv != nil {
				continue
			}
			ast.Inspect(fd.Body, func(n ast.Node) bool {
				as, ok := n.(*ast.AssignStmt)
				if !ok || len(as.Lhs) == 0 || len(as.Rhs) != 1 {
					return true
				}
				lid, ok := as.Lhs[0].(*ast.Ident)
				if !ok || kp.TypesInfo.Uses[lid] != swObj {
					return true
				}
				call, ok := as.Rhs[0].(*ast.CallExpr)
				if !ok {
					why = "the switch is assigned from a non-call expression in init"
					return true
				}
				if fobj, _ := calleeOfExpr(kp.TypesInfo, call).(*types.Func); fobj == nil || fobj.FullName() != "strconv.ParseBool" || len(call.Args) != 1 {
					why = "the switch is assigned from something other than strconv.ParseBool"
					return true
				}
				aid, ok := call.Args[0].(*ast.Ident)
				if !ok {
					why = "ParseBool argument is not a package-level variable"
					return true
				}
				v, ok := kp.TypesInfo.Uses[aid].(*types.Var)
				if !ok || v.Parent() != kp.Types.Scope() {
					why = "ParseBool argument is not a package-level variable"
					return true
				}
				linkVar = v
				initOK = true
				return true
			})
		}
	}
	if initOK {
		// initialiser literal of the link-time string and absence of other writes
		lit, found := "", false
		for _, f := range kp.Syntax {
			for _, d := range f.Decls {
				gd, ok := d.(*ast.GenDecl)
				if !ok {
					continue
				}
				for _, sp := range gd.Specs {
					vs, ok := sp.(*ast.ValueSpec)
					if !ok {
						continue
					}
					for i, nm := range vs.Names {
						if kp.TypesInfo.Defs[nm] == linkVar && i < len(vs.Values) {
							if tv, ok := kp.TypesInfo.Types[vs.Values[i]]; ok && tv.Value != nil && tv.Value.Kind() == constant.String {
								lit, found = constant.StringVal(tv.Value), true
							}
						}
					}
				}
			}
		}
		b, perr := strconv.ParseBool(lit)
		switch {
		case !found:
			initOK, why = false, "the link-time string has no constant initialiser"
		case perr != nil:
			initOK, why = false, fmt.Sprintf("the initialiser %q does not parse as a bool: the package init panics", lit)
		case b:
			initOK, why = false, fmt.Sprintf("the link-time string's initialiser is %q: the switch defaults to true", lit)
		}
		// other writes to the link-time string
		for _, f := range kp.Syntax {
			ast.Inspect(f, func(n ast.Node) bool {
				switch s := n.(type) {
				case *ast.AssignStmt:
					for _, l := range s.Lhs {
						if id, ok := l.(*ast.Ident); ok && kp.TypesInfo.Uses[id] == linkVar {
							initOK, why = false, "the link-time string is assigned at "+w.pos(id.Pos())
						}
					}
				case *ast.UnaryExpr:
					if id, ok := s.X.(*ast.Ident); ok && s.Op == token.AND && kp.TypesInfo.Uses[id] == linkVar {
						initOK, why = false, "the link-time string's address is taken at "+w.pos(id.Pos())
					}
				}
				return true
			})
		}
		// declared initialiser of the switch itself
		for _, f := range kp.Syntax {
			for _, d := range f.Decls {
				gd, ok := d.(*ast.GenDecl)
				if !ok {
					continue
				}
				for _, sp := range gd.Specs {
					vs, ok := sp.(*ast.ValueSpec)
					if !ok {
						continue
					}
					for i, nm := range vs.Names {
						if kp.TypesInfo.Defs[nm] == swObj && i < len(vs.Values) {
							if bv, ok := constBool(kp.TypesInfo, vs.Values[i]); !ok || bv {
								initOK, why = false, "the switch's own declaration does not initialise it to the constant false"
							}
						}
					}
				}
			}
		}
	}
	r.Check(initOK && ownWrites > 0, "SW-OWNER", "init-value", w.pos(sw.Pos()),
		"the switch's own initialisation computes ParseBool of a link-time string whose initialiser parses to false and that nothing else writes", why)

	// linkname / unsafe access from other packages cannot be typed; search the directives
	for _, p := range w.All {
		for _, f := range p.Syntax {
			for _, cg := range f.Comments {
				for _, c := range cg.List {
					if strings.HasPrefix(c.Text, "//go:linkname") && strings.Contains(c.Text, sw.Pkg.Pkg.Path()+".") &&
						(strings.Contains(c.Text, "."+sw.Name()) || (linkVar != nil && strings.Contains(c.Text, "."+linkVar.Name()))) {
						r.Fail("SW-OWNER", "linkname:"+p.PkgPath, w.pos(c.Pos()), "no //go:linkname reference to the switch", c.Text)
					}
				}
			}
		}
	}

	// Makefile default ldflags
	mk, err := os.ReadFile(filepath.Join(w.RepoDir, "Makefile"))
	if err != nil {
		r.Note("no Makefile found: the default build is `go build` with no -X flag")
	} else if linkVar != nil {
		needle := sw.Pkg.Pkg.Path() + "." + linkVar.Name() + "="
		depth := 0
		var bad []string
		for i, line := range strings.Split(string(mk), "\n") {
			t := strings.TrimSpace(line)
			switch {
			case strings.HasPrefix(t, "ifeq") || strings.HasPrefix(t, "ifneq") || strings.HasPrefix(t, "ifdef") || strings.HasPrefix(t, "ifndef"):
				depth++
			case strings.HasPrefix(t, "endif"):
				depth--
			}
			if strings.Contains(line, needle) && !strings.HasPrefix(t, "#") && depth == 0 {
				rest := line[strings.Index(line, needle)+len(needle):]
				if b, err := strconv.ParseBool(strings.Trim(strings.Fields(rest + " x")[0], `"' \`)); err != nil || b {
					bad = append(bad, fmt.Sprintf("Makefile:%d", i+1))
				}
			}
		}
		r.Check(len(bad) == 0, "SW-OWNER", "makefile-ldflags", "Makefile", "the Makefile's unconditional ldflags do not set -X "+needle+"true",
			"the default `make build/install` passes the testing link flag at "+strings.Join(bad, ", "))
	}
}

func calleeOfExpr(info *types.Info, call *ast.CallExpr) types.Object {
	switch f := call.Fun.(type) {
	case *ast.Ident:
		return info.Uses[f]
	case *ast.SelectorExpr:
		return info.Uses[f.Sel]
	}
	return nil
}
