package main

// C11 — bids only grow, only by their owner, never removed.
//   MB-GUARD   the modification is committed exactly under its preconditions (M1..M8 of Appendix A)
//   MB-FIELDS  the record written is the loaded record with only Price and Coin replaced, under its own key
//   NO-DELETE  nothing removes a bid or an auction; no Paying→Bidder transfer is reachable from a message
//   (the reservation difference's rounding and pairing are decided under C01/C04)

import (
	"fmt"
	"sort"
	"strings"

	"golang.org/x/tools/go/ssa"
)

func init() { register("C11", checkC11) }

// getErr matches the error of coll.Get on the given collection.
func getErr(w *World, coll string) func(x *Explorer, fr *Frame, c ssa.CallInstruction) bool {
	return func(x *Explorer, fr *Frame, c ssa.CallInstruction) bool {
		e := w.EffectOf(c)
		return e != nil && e.Kind == EffStoreRead && e.Coll == coll && e.Method == "Get"
	}
}

func errCases(name string, m func(x *Explorer, fr *Frame, c ssa.CallInstruction) bool) []guardCase {
	return []guardCase{
		{label: name + " fails", accept: false, build: func(c *caseRule) { c.errs = append(c.errs, errFix{name: name, match: m, fail: true}) }},
		{label: name + " succeeds", accept: true, build: func(c *caseRule) { c.errs = append(c.errs, errFix{name: name, match: m, fail: false}) }},
	}
}

func eqCases(an, bn string, a, b func(t *Term) bool) []guardCase {
	var out []guardCase
	for _, o := range []int{-1, 0, 1} {
		o := o
		out = append(out, guardCase{label: fmt.Sprintf("%s %s %s", an, map[int]string{-1: "≠(<)", 0: "=", 1: "≠(>)"}[o], bn), accept: o == 0,
			build: func(c *caseRule) { c.pairs = append(c.pairs, ordPair{ord: o, match: pairOf(a, b)}) }})
	}
	return out
}

func ordCases(an, bn string, a, b func(t *Term) bool, accept func(o int) bool) []guardCase {
	var out []guardCase
	for _, o := range []int{-1, 0, 1} {
		o := o
		out = append(out, guardCase{label: fmt.Sprintf("%s %s %s", an, ordNames[o], bn), accept: accept(o),
			build: func(c *caseRule) { c.pairs = append(c.pairs, ordPair{ord: o, match: pairOf(a, b)}) }})
	}
	return out
}

func enumCases(w *World, typeName, label string, m func(t *Term, v ssa.Value) bool, accept func(v int64) bool) []guardCase {
	names := w.enumConsts(typeName)
	var vals []int64
	for v := range names {
		vals = append(vals, v)
	}
	sort.Slice(vals, func(i, j int) bool { return vals[i] < vals[j] })
	var out []guardCase
	for _, v := range vals {
		v := v
		out = append(out, guardCase{label: label + "=" + names[v], accept: accept(v), build: func(c *caseRule) {
			c.enums = append(c.enums, enumFix{name: label, val: v, match: func(t *Term, sv ssa.Value) bool {
				return isNamed(sv.Type(), typesPath, typeName) && m(t, sv)
			}})
		}})
	}
	return out
}

func checkC11(w *World, r *Report) {
	r.Explanation = "Decides for the bid-modifying operation (MsgServer.ModifyBid → keeper): (MB-GUARD) the Bid record write is reachable exactly in the accepting cases of each precondition, by evaluating the code over the finite case split of each condition: auction lookup error, stored status (only Started), auction type (only Batch), bid lookup error keyed by the message's (auction id, bid id), stored bidder = message bidder, message price ≥ minimum bid price, stored denomination = message denomination, and the 3×3 orderings of (new price ? old price) × (new amount ? old amount) with accept set {≥}×{≥} minus {(=,=)}; (MB-FIELDS) the value written is the loaded record with exactly Price and Coin replaced by the message's, stored under the key rebuilt from the loaded record's own ids; (NO-DELETE) no Remove/Clear on the Bid or Auction collection anywhere in non-test code, and no message handler reaches a transfer out of the paying escrow."
	r.NotDecided = "equality of the sum of charged differences with the final required reservation as numbers (its structural reason, sibling rounding of both terms, is decided under C01/C04)."
	r.Rule("MB-GUARD", "modification committed exactly under its preconditions", 8)
	r.Rule("MB-FIELDS", "only Price and Coin of the loaded record change; own key", 2)
	r.Rule("NO-DELETE", "bids and auctions are never removed; reservations never refunded by a message", 3)
	tm := NewTerms(w)
	ms := w.msgServerMethods()
	root := ms["ModifyBid"]
	commit := commitStore("Bid")
	g := func(id, what, cons string, cases []guardCase, atoms ...string) {
		runGuard(w, r, tm, guardSpec{rule: "MB-GUARD", id: "ModifyBid:" + id, root: root, what: what, commit: commit, commitTxt: "the Bid record write",
			cases: cases, atoms: atoms, consequence: cons})
	}
	g("M1-auction-exists", "modification requires the auction to exist", "a bid of a non-existent auction can be rewritten", errCases("Auction.Get", getErr(w, "Auction")), "err:Auction.Get")
	g("M2-status", "modification only while the auction is Started", "bids change before opening or after settlement",
		enumCases(w, "AuctionStatus", "status", func(t *Term, v ssa.Value) bool { return isField(t, "Status") && fromColl(t.Args[0], "Auction") }, func(v int64) bool { return v == stStarted }), "enum:status")
	g("M3-type", "modification only for batch auctions", "a fixed-price bid (already deducted from the remainder) can be changed",
		enumCases(w, "AuctionType", "type", func(t *Term, v ssa.Value) bool { return isField(t, "Type") && fromColl(t.Args[0], "Auction") }, func(v int64) bool { return v == 2 }), "enum:type")
	g("M4-bid-exists", "modification requires the bid (auction id, bid id) of the message to exist", "a non-existent bid is created by modification",
		errCases("Bid.Get", func(x *Explorer, fr *Frame, c ssa.CallInstruction) bool {
			if !getErr(w, "Bid")(x, fr, c) {
				return false
			}
			k := x.TM.OperandAt(fr, c, c.Common().Args[2])
			cs := keyComponents(k)
			return len(cs) == 2 && fieldOfParam(cs[0], "AuctionId") && fieldOfParam(cs[1], "BidId")
		}), "err:Bid.Get")
	g("M5-owner", "only the account that placed the bid modifies it", "any account can raise (and pay for) or rewrite another account's bid",
		eqCases("stored bidder", "msg.Bidder", func(t *Term) bool { return storedField(t, "Bid", "Bidder") && !containsFieldOfParam(t, "Bidder") },
			func(t *Term) bool { return containsFieldOfParam(t, "Bidder") && !storedField(t, "Bid", "Bidder") }), "pair0")
	g("M6-min-price", "the new price respects the minimum bid price", "a bid can be moved below the auction's price floor",
		ordCases("msg.Price", "MinBidPrice", func(t *Term) bool { return fieldOfParam(t, "Price") }, func(t *Term) bool { return fieldBase(t, "MinBidPrice") != nil }, func(o int) bool { return o >= 0 }), "pair0")
	g("M7-denom", "the denomination is kept", "a how-much-worth bid becomes a quantity bid (or vice versa) without re-reserving",
		eqCases("stored Coin.Denom", "msg.Coin.Denom", func(t *Term) bool { return isField(t, "Denom") && storedField(t, "Bid", "Coin") },
			func(t *Term) bool { return isField(t, "Denom") && containsFieldOfParam(t, "Coin") }), "pair0")
	// M8: 3x3
	var m8 []guardCase
	for _, po := range []int{-1, 0, 1} {
		for _, ao := range []int{-1, 0, 1} {
			po, ao := po, ao
			m8 = append(m8, guardCase{label: fmt.Sprintf("price new%sold, amount new%sold", ordNames[po], ordNames[ao]), accept: po >= 0 && ao >= 0 && !(po == 0 && ao == 0),
				build: func(c *caseRule) {
					c.pairs = append(c.pairs,
						ordPair{ord: po, match: pairOf(func(t *Term) bool { return fieldOfParam(t, "Price") }, func(t *Term) bool { return isField(t, "Price") && fromColl(t, "Bid") })},
						ordPair{ord: ao, match: pairOf(func(t *Term) bool { return isField(t, "Amount") && containsFieldOfParam(t, "Coin") }, func(t *Term) bool { return isField(t, "Amount") && storedField(t, "Bid", "Coin") })})
				}})
		}
	}
	g("M8-monotone", "price and amount are both not lower and at least one is higher", "a bid can be lowered (reservation stays too high or the order book shrinks) or a no-op modification is accepted", m8, "pair0", "pair1")

	// ---------------------------------------------------------------- MB-FIELDS
	// the Bid writes of the modification, in the calling context of the message handler (a shared setter helper is
	// judged by what this operation hands it)
	for _, site := range tm.sitesWhere([]*ssa.Function{root}, func(fr *Frame, in ssa.Instruction) bool {
		e := w.EffectOf(in)
		return e != nil && e.Kind == EffStoreWrite && e.Coll == "Bid" && e.Method == "Set"
	}) {
		{
			{
				fr, in, fn := site.Fr, site.In, site.Fr.Fn
				args := in.(ssa.CallInstruction).Common().Args
				key, val := tm.OperandAt(fr, in, args[2]), tm.OperandAt(fr, in, args[3])
				construct := fnName(fn) + ":Bid.Set"
				ok, why := val.Op == "upd", ""
				if !ok {
					why = "the written value is " + val.String() + ", not an update of the loaded record"
				} else {
					base := val.Args[0]
					if !(fromColl(base, "Bid") && base.Op == "res") {
						ok, why = false, "the base of the written record is "+base.String()+", not the record loaded from the Bid collection"
					}
					var changed []string
					for _, a := range val.Args[1:] {
						changed = append(changed, a.Name)
						switch a.Name {
						case "Price":
							if !fieldOfParam(a.Args[0], "Price") {
								ok, why = false, "Price is set to "+a.Args[0].String()+", not the message's price"
							}
						case "Coin":
							if !fieldOfParam(a.Args[0], "Coin") {
								ok, why = false, "Coin is set to "+a.Args[0].String()+", not the message's coin"
							}
						default:
							ok, why = false, fmt.Sprintf("field %s of the stored bid is overwritten with %s: a modification must keep auction, owner, id, type and matched flag", a.Name, a.Args[0].String())
						}
					}
					sort.Strings(changed)
					if ok && strings.Join(changed, ",") != "Coin,Price" {
						ok, why = false, fmt.Sprintf("fields replaced: %v (expected Coin and Price)", changed)
					}
				}
				r.Check(ok, "MB-FIELDS", construct+":value", w.instrPos(in), "the bid written by modification is the loaded bid with only Price and Coin replaced by the message's", why)
				cs := keyComponents(key)
				kok := len(cs) == 2 && related(cs[0], normField(val, "AuctionId", nil)) && related(cs[1], normField(val, "Id", nil))
				r.Check(kok, "MB-FIELDS", construct+":key", w.instrPos(in), "the modified bid is stored under the key rebuilt from its own (auction id, id)",
					"key "+key.String()+" does not agree with the record's ids: the modification lands on another bid")
			}
		}
	}

	// ---------------------------------------------------------------- NO-DELETE
	var dels, sets []string
	for _, fn := range w.Funcs {
		for _, b := range fn.Blocks {
			for _, in := range b.Instrs {
				e := w.EffectOf(in)
				if e == nil || e.Kind != EffStoreWrite || (e.Coll != "Bid" && e.Coll != "Auction") {
					continue
				}
				if e.Method == "Remove" || e.Method == "Clear" {
					dels = append(dels, fmt.Sprintf("%s.%s at %s", e.Coll, e.Method, w.instrPos(in)))
				} else {
					sets = append(sets, w.instrPos(in))
				}
			}
		}
	}
	sort.Strings(dels)
	r.Check(len(dels) == 0, "NO-DELETE", "Bid+Auction:no-remove", keeperPath, fmt.Sprintf("no Remove/Clear on the Bid or Auction collection in any non-test function (the same scan sees %d Set sites: positive control)", len(sets)),
		"records are deleted: "+strings.Join(dels, ", "))
	r.Check(len(sets) >= 10, "NO-DELETE", "scanner-control", keeperPath, "the collection-operation scanner recognises the Set sites of Bid/Auction (positive control for the zero-count rule)",
		fmt.Sprintf("only %d Set sites recognised: the scanner lost its anchors", len(sets)))
	// no message reaches a transfer whose payer is a paying escrow
	var hits []string
	for _, name := range sortedKeys(ms) {
		for fn := range w.reachableFrom(ms[name]) {
			fr := tm.Root(fn)
			for _, b := range fn.Blocks {
				for _, in := range b.Instrs {
					e := w.EffectOf(in)
					if e == nil || e.Kind != EffTransfer {
						continue
					}
					for _, a := range in.(ssa.CallInstruction).Common().Args {
						t := tm.OperandAt(fr, in, a)
						if t.Any(func(x *Term) bool { return isField(x, "PayingReserveAddress") }) && e.Method == "InputOutputCoins" {
							hits = append(hits, name+"→"+w.instrPos(in))
						}
					}
				}
			}
		}
	}
	// "the extra amount charged equals the increase in required reservation": the rounding / provenance rules of the difference
	r.SubWhere(checkC04, perRule(map[string]func(string, string) bool{"RD-DIR": keepAny("ModifyBid", "ConvertToPayingAmount")}), "RD-SIB", "RD-DIR")
	r.SubWhere(func(w *World, r *Report) { checkC01(w, r) }, keepPrefix("ModifyBid:"), "CREDIT-RECORD", "PAIR-RESERVE")
	// a bid record is never overwritten by another bid: ids are unique per auction, also across an export/import
	r.SubWhere(checkC19, keepAny("BidSeq", "PlaceBid:id", "Bid.Id"), "ID-MONO")
	r.Check(len(hits) == 0, "NO-DELETE", "msg:no-paying-escrow-refund", keeperPath, "no message handler reaches a per-bidder refund out of a paying escrow (reservations are only lowered by settlement)",
		strings.Join(hits, ", "))
}
