package main

// C01 — escrows hold exactly what the records owe (structural necessary conditions).
//   ESC-ROLE      (shared with C02) who may debit / credit which escrow
//   CREDIT-RECORD what is credited to an escrow is what the record says: offered coin at creation, the bid's own
//                 to-paying conversion (or its worth coin) at placement, the difference of conversions at modification
//   PAIR-RESERVE  reservation ⇔ bid record on every non-failing path (per admitted bid type; modification: iff the difference is positive)
//   DRAIN         the closing transfers take the escrow's whole balance of its denomination
//   VEST-*        (shared with C09) the vesting escrow is filled and emptied together with the queue records

import (
	"fmt"
	"sort"
	"strings"

	"golang.org/x/tools/go/ssa"
)

func init() { register("C01", checkC01) }

// distinctSites: the number of distinct transfer instructions among the instances (one site may be described once per
// explored path).
func distinctSites(tis []TransferInst) int {
	seen := map[ssa.Instruction]bool{}
	for _, ti := range tis {
		seen[ti.Site] = true
	}
	return len(seen)
}

// typedCollector: transfers under a fixed bid type.
func transfersUnder(w *World, tm *Terms, root *ssa.Function, entry string, valueOf func(x *Explorer, fr *Frame, v ssa.Value) AV) []TransferInst {
	rolesTM = tm
	c := &typedCollector{transferCollector: transferCollector{w: w, entry: entry, out: map[string]TransferInst{}}, valueOf: valueOf}
	x := NewExplorer(w, tm, c)
	x.TrackPhi = true
	x.Run(root, 0)
	var out []TransferInst
	for _, k := range sortedKeys(c.out) {
		out = append(out, c.out[k])
	}
	return out
}

type typedCollector struct {
	transferCollector
	valueOf func(x *Explorer, fr *Frame, v ssa.Value) AV
}

func (t *typedCollector) ValueOf(x *Explorer, fr *Frame, v ssa.Value) AV {
	if t.valueOf != nil {
		return t.valueOf(x, fr, v)
	}
	return Unknown
}

// countRule counts reserve transfers and record writes along paths.
type countRule struct {
	BaseRule
	w       *World
	valueOf func(x *Explorer, fr *Frame, v ssa.Value) AV
	callRes func(x *Explorer, fr *Frame, c ssa.CallInstruction) ([]AV, CallMode)
	record  string
}

const (
	crCountMask  = 3
	crRecord     = 1 << 2
	crRecBefore  = 1 << 3
	crRemainder  = 1 << 4
	crAuctionSet = 1 << 5
)

func (c *countRule) ValueOf(x *Explorer, fr *Frame, v ssa.Value) AV {
	if c.valueOf != nil {
		return c.valueOf(x, fr, v)
	}
	return Unknown
}

func (c *countRule) CallResult(x *Explorer, fr *Frame, call ssa.CallInstruction) ([]AV, CallMode) {
	if c.callRes != nil {
		return c.callRes(x, fr, call)
	}
	return nil, CallDefault
}

func (c *countRule) OnInstr(x *Explorer, fr *Frame, in ssa.Instruction, st uint64) uint64 {
	if e := c.w.EffectOf(in); e != nil {
		switch {
		case e.Kind == EffTransfer:
			if st&crCountMask < 2 {
				st++
			}
		case e.Kind == EffStoreWrite && e.Coll == c.record && e.Method == "Set":
			if st&crCountMask == 0 {
				st |= crRecBefore
			}
			st |= crRecord
		case e.Kind == EffStoreWrite && e.Coll == "Auction" && e.Method == "Set":
			st |= crAuctionSet
		}
	}
	if s, ok := in.(*ssa.Store); ok {
		if fa, ok := s.Addr.(*ssa.FieldAddr); ok && isNamed(fa.X.Type(), typesPath, "FixedPriceAuction") && structOf(fa.X.Type()).Field(fa.Field).Name() == "RemainingSellingCoin" {
			st |= crRemainder
		}
	}
	return st
}

func checkC01(w *World, r *Report) {
	r.Explanation = "Decides the structural necessary conditions of the escrow equalities: (ESC-ROLE) every transfer reachable from the entry points has attributed payer/payee in the confirmed table within one auction — nothing else debits or credits an escrow; (CREDIT-RECORD) the coin credited to the selling escrow at creation is the very SellingCoin stored in the record (and the initial remainder); the coin credited to the paying escrow at placement is, per admitted bid type, the bid's own to-paying conversion applied to the price and coin that are stored (fixed price, how-many: {AMT | ceil(AMT×PRICE)}) or the stored worth coin itself; at modification it is the difference of the stored and new worth coins / of the two ceilings; all with rounding directions CEIL, CEIL-DIFF or EXACT; (PAIR-RESERVE) per admitted bid type every non-failing placement performs exactly one reservation before the Bid record write (and for the fixed price type also subtracts the remainder and stores the auction); a modification reserves exactly when the difference coin is positive and always writes the record; (DRAIN) the unsold return, the sweep and the cancel refund send NewCoin(d, SpendableCoins(escrow).AmountOf(d)) of the debited escrow in that escrow's denomination, after the per-bidder transfers (SETTLE-SEQ, C02); (VEST-*) the vesting escrow is credited with the total the queue records sum to and debited only together with marking a record released."
	r.NotDecided = "the numerical equalities themselves for all prices/amounts and interleavings; bank-module behaviour (transfers move exactly the coins named); coins sent to an escrow by third parties. The module's own >= invariants are not registered with the app (noted)."
	r.Rule("ESC-ROLE", "transfers have attributed roles in the confirmed table", 8)
	r.Rule("CREDIT-RECORD", "credited amount = what the record says", 6)
	r.Rule("PAIR-RESERVE", "reservation ⇔ record", 5)
	r.Rule("DRAIN", "closing transfers take the escrow's whole balance", 2)
	r.Rule("VEST-SHARE", "instalment = floor(total × weight) of the swept total, keyed by its own schedule entry", 1)
	r.Rule("VEST-REM", "last instalment takes the running remainder", 1)
	r.Rule("VEST-ONCE", "release transfer ⇔ Released persisted for the same record", 2)
	r.Rule("VEST-WRITERS", "vesting queue writers", 2)
	r.Rule("VEST-DISTINCT", "release times are strictly increasing and after the end time (they key the queue)", 4)
	tm := NewTerms(w)
	ms := w.msgServerMethods()
	insts := checkEscRole(w, r, tm)

	// ---------------------------------------------------------------- CREDIT-RECORD: creation
	for _, m := range []string{"CreateFixedPriceAuction", "CreateBatchAuction"} {
		root := ms[m]
		var credited *Term
		for _, ti := range insts {
			if ti.Entry == "Msg."+m && ti.Method == "SendCoins" {
				credited = ti.Amount
			}
		}
		var written *Term
		for fn := range w.reachableFrom(root) {
			fr := tm.Root(fn)
			for _, b := range fn.Blocks {
				for _, in := range b.Instrs {
					if e := w.EffectOf(in); e != nil && e.Kind == EffStoreWrite && e.Coll == "Auction" && e.Method == "Set" {
						written = tm.OperandAt(fr, in, in.(ssa.CallInstruction).Common().Args[3])
					}
				}
			}
		}
		ok, why := credited != nil && written != nil, "no credit / no record write found"
		if ok {
			sc := recordField(written, "SellingCoin", true)
			inAmount := credited.Any(func(t *Term) bool { return t.Key() == sc.Key() })
			pure := !credited.Any(func(t *Term) bool {
				return t.Op == "call" && (mathName(t) != "" || strings.HasPrefix(t.Name, sdkPath+".Coin."))
			})
			if !inAmount || !pure || sc.Op == "zero" {
				ok, why = false, fmt.Sprintf("credited %s but the record's SellingCoin is %s", credited.String(), sc.String())
			}
			if m == "CreateFixedPriceAuction" {
				if rem := normField(written, "RemainingSellingCoin", nil); rem.Key() != sc.Key() {
					ok, why = false, fmt.Sprintf("the initial remainder %s differs from the offered coin %s", rem.String(), sc.String())
				}
			}
		}
		r.Check(ok, "CREDIT-RECORD", m+":selling-escrow", w.pos(root.Pos()), m+" credits the selling escrow with exactly the SellingCoin it stores (and publishes as initial remainder)", why)
	}

	// ---------------------------------------------------------------- CREDIT-RECORD / PAIR-RESERVE: placement per admitted bid type
	admitted, btNames := admittedEnum(w, tm, "MsgPlaceBid", "BidType", "BidType")
	place := ms["PlaceBid"]
	convSkel := ""
	bidT := w.lookupNamed(typesPath, "Bid")
	convSkel = convPayingSkeleton(w, moneyExcursions(w, tm))
	_ = bidT
	for _, bt := range admitted {
		name := btNames[bt]
		var reserves []TransferInst
		for _, ti := range transfersUnder(w, tm, place, "Msg.PlaceBid", bidTypeValuation(bt)) {
			if ti.Method == "SendCoins" {
				reserves = append(reserves, ti)
			}
		}
		ok, why := distinctSites(reserves) == 1, fmt.Sprintf("%d reservation transfer sites reachable for this bid type", distinctSites(reserves))
		for ri := 0; ok && ri < len(reserves); ri++ {
			amt := reserves[ri].Amount
			d := dirOf(innerAmount(amt))
			usesMsgCoin := containsFieldOfParam(amt, "Coin")
			switch {
			case d != DCeil && d != DExact && d != DCeilDiff:
				ok, why = false, fmt.Sprintf("the reserved amount rounds %s (%s)", d, skeleton(innerAmount(amt)))
			case !usesMsgCoin:
				ok, why = false, "the reserved amount is not computed from the coin that is stored in the bid: "+amt.String()
			default:
				sk := skeleton(innerAmount(amt))
				worth := !amt.Any(func(t *Term) bool { return t.Op == "call" && mathName(t) != "" })
				// on one explored path the conversion has taken one of its two branches; merged paths show both
				conv := sk == "{AMT|"+convSkel+"}" || sk == "{"+convSkel+"|AMT}" || sk == convSkel || sk == "AMT"
				usesPrice := containsFieldOfParam(amt, "Price")
				if !(worth || (conv && usesPrice)) {
					ok, why = false, fmt.Sprintf("the reserved amount %s is neither the stored coin itself nor the bid's to-paying conversion {AMT|%s} of the stored price and coin", sk, convSkel)
				}
			}
		}
		r.Check(ok, "CREDIT-RECORD", "PlaceBid:"+name, w.pos(place.Pos()),
			"for bid type "+name+" the paying escrow is credited with the to-paying conversion of the coin and price that are stored in the bid (or the worth coin itself)", why)

		cr := &countRule{w: w, valueOf: bidTypeValuation(bt), record: "Bid"}
		var bad []string
		n := 0
		for _, o := range NewExplorer(w, tm, cr).Run(place, 0) {
			if o.Kind != ExitReturn {
				continue
			}
			if av, ok := o.ErrAV(place); ok && av.K == avNonNil {
				continue
			}
			n++
			switch {
			case o.St&crRecord == 0:
				bad = append(bad, "a non-failing path writes no Bid record")
			case o.St&crCountMask != 1:
				bad = append(bad, fmt.Sprintf("a non-failing path performs %d reservation transfers for one recorded bid", o.St&crCountMask))
			case o.St&crRecBefore != 0:
				bad = append(bad, "the bid is recorded before the reservation")
			case bt == 1 && (o.St&crRemainder == 0 || o.St&crAuctionSet == 0):
				bad = append(bad, "a fixed price bid is recorded without subtracting it from the stored remainder")
			case bt != 1 && o.St&crRemainder != 0:
				bad = append(bad, "a batch bid changes the fixed price remainder")
			}
		}
		sort.Strings(bad)
		r.Check(len(bad) == 0 && n > 0, "PAIR-RESERVE", "PlaceBid:"+name, w.pos(place.Pos()),
			"for bid type "+name+" every non-failing placement reserves exactly once, before the Bid record write"+map[bool]string{true: ", subtracts the remainder and stores the auction", false: ""}[bt == 1],
			strings.Join(dedupe(bad), "; ")+": the paying escrow no longer equals the sum of the recorded bids' reservations")
	}
	// a bid type the validation does not admit would be recorded without reservation: covered because PAIR-RESERVE runs per admitted type
	r.Note("admitted bid types (from MsgPlaceBid.ValidateBasic): %v", func() []string {
		var s []string
		for _, b := range admitted {
			s = append(s, btNames[b])
		}
		return s
	}())

	// ---------------------------------------------------------------- modification
	mod := ms["ModifyBid"]
	for _, bt := range []int64{2, 3} {
		name := btNames[bt]
		storedType := func(c int64) func(x *Explorer, fr *Frame, v ssa.Value) AV {
			return func(x *Explorer, fr *Frame, v ssa.Value) AV {
				if isNamed(v.Type(), typesPath, "BidType") {
					if t := x.TM.Of(fr, v); isField(t, "Type") && fromColl(t, "Bid") {
						return Int(c)
					}
				}
				return Unknown
			}
		}
		var res []TransferInst
		for _, ti := range transfersUnder(w, tm, mod, "Msg.ModifyBid", storedType(bt)) {
			if ti.Method == "SendCoins" {
				res = append(res, ti)
			}
		}
		ok, why := distinctSites(res) == 1, fmt.Sprintf("%d reservation transfer sites for this type", distinctSites(res))
		for ri := 0; ok && ri < len(res); ri++ {
			amt := innerAmount(res[ri].Amount)
			d := dirOf(amt)
			switch bt {
			case 2:
				if !(amt.Op == "call" && strings.HasSuffix(amt.Name, sdkPath+".Coin.Sub") && fieldOfParam(amt.Args[0], "Coin") && isField(amt.Args[1], "Coin") && fromColl(amt.Args[1], "Bid")) {
					ok, why = false, "the extra reservation is "+amt.String()+", not (message coin − stored coin)"
				}
			case 3:
				if d != DCeilDiff {
					ok, why = false, fmt.Sprintf("the extra reservation rounds %s (%s), not the difference of the two ceilings", d, skeleton(amt))
				}
			}
		}
		r.Check(ok, "CREDIT-RECORD", "ModifyBid:"+name, w.pos(mod.Pos()), "for a stored bid of type "+name+" the extra reservation is the increase of the required reservation (new terms − stored terms)", why)
		for _, positive := range []bool{true, false} {
			cr := &countRule{w: w, valueOf: storedType(bt), record: "Bid"}
			cr.callRes = func(x *Explorer, fr *Frame, c ssa.CallInstruction) ([]AV, CallMode) {
				if strings.HasSuffix(callKey(c.Common()), sdkPath+".Coin.IsPositive") {
					return []AV{Bool(positive)}, CallReplace
				}
				return nil, CallDefault
			}
			var bad []string
			n := 0
			for _, o := range NewExplorer(w, tm, cr).Run(mod, 0) {
				if o.Kind != ExitReturn {
					continue
				}
				if av, ok := o.ErrAV(mod); ok && av.K == avNonNil {
					continue
				}
				n++
				want := uint64(0)
				if positive {
					want = 1
				}
				switch {
				case o.St&crRecord == 0:
					bad = append(bad, "a non-failing path writes no Bid record")
				case o.St&crCountMask != want:
					bad = append(bad, fmt.Sprintf("%d reservation transfers although the difference is positive=%v", o.St&crCountMask, positive))
				case o.St&crRecBefore != 0 && positive:
					bad = append(bad, "the bid is rewritten before the extra reservation")
				}
			}
			sort.Strings(bad)
			r.Check(len(bad) == 0 && n > 0, "PAIR-RESERVE", fmt.Sprintf("ModifyBid:%s:positive=%v", name, positive), w.pos(mod.Pos()),
				fmt.Sprintf("a modification of a %s bid reserves exactly when the difference coin is positive (here %v) and always rewrites the record", name, positive), strings.Join(dedupe(bad), "; "))
		}
	}

	// ---------------------------------------------------------------- DRAIN
	nDrain := map[string]int{}
	for _, ti := range insts {
		if ti.Method != "SendCoins" || len(ti.Payers) != 1 {
			continue
		}
		pk := ti.Payers[0].Kind
		if pk != "SellingEscrow" && pk != "PayingEscrow" {
			continue
		}
		base := fmt.Sprintf("%s:%s:%s→%s", ti.Entry, fnName(ti.Site.Parent()), pk, ti.Payees[0].Kind)
		nDrain[base]++
		ok, why, denom := drainOK(ti.From, ti.Amount)
		if ok {
			want := map[string]string{"SellingEscrow": "SellingCoin", "PayingEscrow": "PayingCoinDenom"}[pk]
			good := (want == "SellingCoin" && isField(denom, "Denom") && fieldBase(denom.Args[0], "SellingCoin") != nil) || (want == "PayingCoinDenom" && fieldBase(denom, "PayingCoinDenom") != nil)
			if !good {
				ok, why = false, "the denomination drained is "+denom.String()+", not the escrow's own ("+want+")"
			}
		}
		r.Check(ok, "DRAIN", fmt.Sprintf("%s#%d", base, nDrain[base]), w.instrPos(ti.Site),
			fmt.Sprintf("%s: the %s is emptied — the transfer sends its whole spendable balance of its denomination", ti.Entry, pk), why+": coins stay behind in (or more than the balance is asked from) the escrow")
	}

	// ---------------------------------------------------------------- vesting escrow
	// how an instalment is rounded is C09's business; the escrow equality needs the sweep, the remainder and the pairing
	saveKeep := r.keep
	notShare := func(rule, construct string) bool {
		return !(rule == "VEST-SHARE" && strings.HasSuffix(construct, ":share"))
	}
	r.keep = notShare
	if saveKeep != nil {
		r.keep = func(rule, construct string) bool { return saveKeep(rule, construct) && notShare(rule, construct) }
	}
	vestingObligations(w, r, tm)
	r.keep = saveKeep
	// a reservation (or any transfer) whose failure is dropped leaves the record written without the coins behind it
	r.SubWhere(checkC02, moneyMoves, "MSG-PROP")
}

// innerAmount strips NewCoins(slice{NewCoin(denom, X)}) down to X (or the coin itself).
func innerAmount(t *Term) *Term {
	var coin *Term
	t.Walk(func(x *Term) bool {
		if coin == nil && x.Op == "fset" && x.Name == "[0]" {
			coin = x.Args[0]
		}
		return coin == nil
	})
	if coin == nil {
		coin = t
	}
	if coin.Op == "call" && strings.HasSuffix(coin.Name, sdkPath+".NewCoin") && len(coin.Args) == 2 {
		return coin.Args[1]
	}
	return coin
}
