package main

// C05 — nobody receives more than allowance, request or supply.
//   CAP-MIN / SUPPLY-GUARD   batch matching (shared with C03)
//   FP-REMAINDER             a fixed price bid is committed only if remainder ≥ bid
//   FP-CAP                   … and only if (stored bids of this bidder in this auction + this bid) ≤ MaxBidAmount of the
//                            allow-list entry keyed by (this auction, this bidder)
//   BATCH-CAP                a batch bid is committed only if its own selling amount ≤ MaxBidAmount
//   SCAN-FILTER              the stored-bid total only counts bids of this auction (shared with C19)

import (
	"fmt"
	"go/token"
	"sort"
	"strings"

	"golang.org/x/tools/go/ssa"
)

func init() { register("C05", checkC05) }

func isCapField(t *Term) bool {
	b := fieldBase(t, "MaxBidAmount")
	return b != nil && fromColl(b, "AllowedBidder")
}

// cmpCollector records the operand terms of comparisons whose one side satisfies sel.
type cmpCollector struct {
	BaseRule
	valueOf func(x *Explorer, fr *Frame, v ssa.Value) AV
	sel     func(t *Term) bool
	other   []*Term
	selT    []*Term
}

func (c *cmpCollector) ValueOf(x *Explorer, fr *Frame, v ssa.Value) AV {
	if c.valueOf != nil {
		return c.valueOf(x, fr, v)
	}
	return Unknown
}

func (c *cmpCollector) OnInstr(x *Explorer, fr *Frame, in ssa.Instruction, st uint64) uint64 {
	call, ok := in.(*ssa.Call)
	if !ok {
		return st
	}
	if _, isCmp := intCmp[callKey(&call.Call)]; !isCmp || len(call.Call.Args) != 2 {
		return st
	}
	l, r := x.TM.Of(fr, call.Call.Args[0]), x.TM.Of(fr, call.Call.Args[1])
	switch {
	case c.sel(r):
		c.other, c.selT = append(c.other, l), append(c.selT, r)
	case c.sel(l):
		c.other, c.selT = append(c.other, r), append(c.selT, l)
	}
	return st
}

func fixedPriceGuards(w *World, r *Report, tm *Terms) {
	r.Rule("FP-REMAINDER", "fixed price bid committed only if the remainder covers it", 1)
	r.Rule("FP-CAP", "fixed price bid committed only within the cumulative allowance", 3)
	r.Rule("BATCH-CAP", "batch bid committed only within the allowance", 2)
	ms := w.msgServerMethods()
	place := ms["PlaceBid"]
	commit := commitStore("Bid")
	fixed := func(c *caseRule) { c.vals = append(c.vals, bidTypeValuation(1)) }
	runGuard(w, r, tm, guardSpec{rule: "FP-REMAINDER", id: "PlaceBid:remainder-covers-bid", root: place, common: fixed, commit: commit, commitTxt: "the Bid record write",
		what: "a fixed price bid is recorded only if RemainingSellingCoin ≥ the bid's selling amount",
		cases: ordCases("remainder", "bid", func(t *Term) bool { return fieldBase(t, "RemainingSellingCoin") != nil },
			func(t *Term) bool {
				return !t.Any(func(x *Term) bool { return isField(x, "RemainingSellingCoin") }) && t.Op != "const"
			}, func(o int) bool { return o >= 0 }),
		atoms: []string{"pair0"}, consequence: "the auction can sell more than it offered (the remainder goes negative / panics)"})
	runGuard(w, r, tm, guardSpec{rule: "FP-CAP", id: "PlaceBid:cumulative-cap", root: place, common: fixed, commit: commit, commitTxt: "the Bid record write",
		what:  "a fixed price bid is recorded only if the bidder's total in this auction including this bid ≤ MaxBidAmount",
		cases: ordCases("total", "MaxBidAmount", func(t *Term) bool { return !isCapField(t) && t.Op != "const" }, isCapField, func(o int) bool { return o <= 0 }),
		atoms: []string{"pair0"}, consequence: "a bidder can exceed the allowance the allow-list granted"})
	// what the total consists of, and which allow-list entry is consulted
	cc := &cmpCollector{valueOf: bidTypeValuation(1), sel: isCapField}
	NewExplorer(w, tm, cc).Run(place, 0)
	ok, why := len(cc.other) > 0, "no comparison with MaxBidAmount on the fixed price path"
	for i, tot := range cc.other {
		cur := tot.Any(func(t *Term) bool { return isExcursionRoot(t) && containsFieldOfParam(t, "Coin") }) || containsFieldOfParam(tot, "Coin")
		stored := tot.Any(func(t *Term) bool { return (isField(t, "Amount") || isField(t, "Coin")) && fromColl(t, "Bid") })
		switch {
		case !cur:
			ok, why = false, "the total compared with the cap does not include the bid being placed: "+tot.String()
		case !stored:
			ok, why = false, "the total compared with the cap does not include the bidder's stored bids: the cap is per bid, not cumulative"
		}
		// the allow-list entry: keyed by (message auction id, message bidder)
		entry := fieldBase(cc.selT[i], "MaxBidAmount")
		keyOK := false
		entry.Walk(func(t *Term) bool {
			if t.Op == "call" && strings.HasSuffix(t.Name, "collections.Map.Get") && len(t.Args) == 3 && isField(t.Args[0], "AllowedBidder") && allowKeyOK(t.Args[2]) {
				keyOK = true
			}
			return true
		})
		if !keyOK {
			ok, why = false, "the allowance consulted is not the entry keyed by (this auction, this bidder): "+entry.String()
		}
	}
	r.Check(ok, "FP-CAP", "PlaceBid:cap-sources", w.pos(place.Pos()),
		"the capped total depends on the bid being placed and on the bidder's stored bids, and the cap is the allow-list entry of (this auction, this bidder)", why)
	// the stored-bid total only counts this auction's bids (global scan filtered by auction id)
	checkScanFilter(w, r, tm, "FP-CAP")
	for _, bt := range []int64{2, 3} {
		bt := bt
		runGuard(w, r, tm, guardSpec{rule: "BATCH-CAP", id: fmt.Sprintf("PlaceBid:type%d", bt), root: place, common: func(c *caseRule) { c.vals = append(c.vals, bidTypeValuation(bt)) },
			commit: commit, commitTxt: "the Bid record write",
			what:  fmt.Sprintf("a batch bid (type %d) is recorded only if its selling amount ≤ MaxBidAmount", bt),
			cases: ordCases("bid", "MaxBidAmount", func(t *Term) bool { return !isCapField(t) && t.Op != "const" }, isCapField, func(o int) bool { return o <= 0 }),
			atoms: []string{"pair0"}, consequence: "a single batch bid can exceed the allowance"})
	}
}

// checkScanFilter: uses of the elements of an unprefixed Bid walk are dominated by an equality test of the
// element's AuctionId with the operated auction's id.
func checkScanFilter(w *World, r *Report, tm *Terms, rule string) {
	scope := w.reachableFrom(func() []*ssa.Function {
		var fs []*ssa.Function
		ms := w.msgServerMethods()
		for _, k := range sortedKeys(ms) {
			fs = append(fs, ms[k])
		}
		return append(fs, w.beginBlockFn())
	}()...)
	// functions that walk the whole Bid collection (nil ranger)
	global := map[*ssa.Function]bool{}
	for _, fn := range w.Funcs {
		for _, b := range fn.Blocks {
			for _, in := range b.Instrs {
				e := w.EffectOf(in)
				if e == nil || e.Kind != EffStoreRead || e.Coll != "Bid" || e.Method != "Walk" {
					continue
				}
				args := in.(ssa.CallInstruction).Common().Args
				if c, ok := args[2].(*ssa.Const); ok && c.Value == nil {
					global[fn] = true
				}
			}
		}
	}
	n := 0
	for _, fn := range sortedFns(scope) {
		fr := tm.Root(fn)
		for _, b := range fn.Blocks {
			for _, in := range b.Instrs {
				c, ok := in.(*ssa.Call)
				if !ok {
					continue
				}
				callee := w.calleeBody(&c.Call)
				if callee == nil || !global[callee] {
					continue
				}
				n++
				construct := fmt.Sprintf("%s:scan#%d", fnName(fn), n)
				// elements of the result list
				var bad, skipEnds []string
				guard := (*ssa.BasicBlock)(nil)
				for _, bb := range fn.Blocks {
					iff, ok := bb.Instrs[len(bb.Instrs)-1].(*ssa.If)
					if !ok {
						continue
					}
					bo, ok := iff.Cond.(*ssa.BinOp)
					if !ok || (bo.Op != token.EQL && bo.Op != token.NEQ) {
						continue
					}
					l, rt := tm.Of(fr, bo.X), tm.Of(fr, bo.Y)
					isElemAuc := func(t *Term) bool {
						return isField(t, "AuctionId") && t.Args[0].Any(func(x *Term) bool { return x.V == ssa.Value(c) })
					}
					isOwn := func(t *Term) bool {
						return (isField(t, "Id") || isField(t, "AuctionId")) && !t.Any(func(x *Term) bool { return x.V == ssa.Value(c) })
					}
					if (isElemAuc(l) && isOwn(rt)) || (isElemAuc(rt) && isOwn(l)) {
						// the successor taken when the ids are equal
						other := bb.Succs[0]
						if bo.Op == token.EQL {
							guard, other = bb.Succs[0], bb.Succs[1]
						} else {
							guard = bb.Succs[1]
						}
						// an element of another auction is skipped, it does not end the scan: the other successor
						// stays inside the loop that visits the elements
						if lp := fnInfo(fn).LoopOf[bb]; lp != nil && !lp.Blocks[other] {
							skipEnds = append(skipEnds, w.instrPos(iff))
						}
					}
				}
				// every use of an element (other than the AuctionId comparison) must be dominated by the guard's true edge
				for _, bb := range fn.Blocks {
					for _, in2 := range bb.Instrs {
						cl, ok := in2.(*ssa.Call)
						if !ok || cl == c {
							continue
						}
						uses := false
						for _, a := range cl.Call.Args {
							// the argument is an element of the scanned list (or a field of one), not a value accumulated from them
							at := tm.OperandAt(fr, in2, a)
							for at.Op == "field" || at.Op == "new" || at.Op == "deref" {
								at = at.Args[0]
							}
							if at.Op == "elem" && at.Args[0].Any(func(y *Term) bool { return y.V == ssa.Value(c) }) {
								uses = true
							}
						}
						if !uses {
							continue
						}
						if guard == nil || !(guard == bb || guard.Dominates(bb)) {
							bad = append(bad, w.instrPos(in2))
						}
					}
				}
				sort.Strings(bad)
				r.Check(len(skipEnds) == 0, rule, construct+":skip-continues", w.instrPos(in),
					"an element of another auction met by the scan is skipped and the scan goes on to the next element",
					"the auction filter at "+strings.Join(skipEnds, ", ")+" leaves the loop when it meets an element of another auction: the scan is ordered by (auction id, bid id), so a bidder's bid in an auction with a lower id hides all their bids in this auction from the total")
				r.Check(len(bad) == 0 && guard != nil, rule, construct, w.instrPos(in),
					"the result of the unprefixed Bid scan ("+fnName(callee)+") is used only for elements whose AuctionId equals the operated auction's id",
					"elements of a scan over all auctions' bids are used without the auction filter at "+strings.Join(dedupe(bad), ", ")+": a bidder's bids in one auction count against (or for) another auction")
			}
		}
	}
	if n == 0 {
		r.Note("no use of an unprefixed Bid scan in message/block code: SCAN-FILTER is vacuous")
	}
}

func reachesAny(w *World, fn *ssa.Function, set map[*ssa.Function]bool) bool {
	for f := range w.reachableFrom(fn) {
		if set[f] {
			return true
		}
	}
	return false
}

func checkC05(w *World, r *Report) {
	r.Explanation = "Decides: batch — (CAP-MIN) every quantity added to a matched amount is MinInt(request, remaining allowance of the bid's bidder) with the allowance map seeded from the allow-list's MaxBidAmount and decremented by exactly the matched quantity, (SUPPLY-GUARD) the accumulation is unreachable when total + quantity > supply for the very quantity accumulated; fixed price — by evaluating the bid-placing operation over the orderings of the compared quantities: (FP-REMAINDER) the Bid record is written only if RemainingSellingCoin ≥ the bid's selling amount, (FP-CAP) only if total ≤ MaxBidAmount, where the total provably depends on both the bid being placed and the bidder's stored bids (cumulative cap), the cap is the allow-list entry keyed by (this auction, this bidder) read at bid time, and the stored bids counted are filtered to this auction; (BATCH-CAP) a batch bid is recorded only if its own selling amount ≤ MaxBidAmount."
	r.NotDecided = "the resulting inequalities as numbers over all histories; caps changed between bids are covered by the cap being read from the store at each acceptance."
	r.Rule("CAP-MIN", "accumulated quantity = min(request, remaining allowance)", 2)
	r.Rule("SUPPLY-GUARD", "accumulation unreachable when total + quantity > supply", 2)
	tm := NewTerms(w)
	tree := settlementTree(w)
	checkCapMin(w, r, tm, tree)
	checkSupplyGuard(w, r, tm, tree)
	fixedPriceGuards(w, r, tm)
	checkAddrCanon(w, r, tm)
}
