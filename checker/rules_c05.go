package main

// C05 — nobody receives more than allowance, request or supply.
//   CAP-MIN / SUPPLY-GUARD   batch matching (shared with C03)
//   FP-REMAINDER             a fixed price bid is committed only if remainder ≥ bid
//   FP-CAP                   … and only if (stored bids of this bidder in this auction + this bid) ≤ MaxBidAmount of the
//                            allow-list entry keyed by (this auction, this bidder)
//   BATCH-CAP                a batch bid is committed only if its own selling amount ≤ MaxBidAmount
//   SCAN-FILTER              the stored-bid total only counts bids of this auction (shared with C19)

import (
	"fmt"
	"go/token"
	"go/types"
	"sort"
	"strings"

	"golang.org/x/tools/go/ssa"
)

func init() { register("C05", checkC05) }

func isCapField(t *Term) bool {
	b := fieldBase(t, "MaxBidAmount")
	return b != nil && fromColl(b, "AllowedBidder")
}

// cmpCollector records the operand terms of comparisons whose one side satisfies sel.
type cmpCollector struct {
	BaseRule
	valueOf func(x *Explorer, fr *Frame, v ssa.Value) AV
	sel     func(t *Term) bool
	other   []*Term
	selT    []*Term
}

func (c *cmpCollector) ValueOf(x *Explorer, fr *Frame, v ssa.Value) AV {
	if c.valueOf != nil {
		return c.valueOf(x, fr, v)
	}
	return Unknown
}

func (c *cmpCollector) OnInstr(x *Explorer, fr *Frame, in ssa.Instruction, st uint64) uint64 {
	call, ok := in.(*ssa.Call)
	if !ok {
		return st
	}
	if _, isCmp := intCmp[callKey(&call.Call)]; !isCmp || len(call.Call.Args) != 2 {
		return st
	}
	l, r := x.TM.Of(fr, call.Call.Args[0]), x.TM.Of(fr, call.Call.Args[1])
	switch {
	case c.sel(r):
		c.other, c.selT = append(c.other, l), append(c.selT, r)
	case c.sel(l):
		c.other, c.selT = append(c.other, r), append(c.selT, l)
	}
	return st
}

func fixedPriceGuards(w *World, r *Report, tm *Terms) {
	r.Rule("FP-REMAINDER", "fixed price bid committed only if the remainder covers it", 1)
	r.Rule("FP-CAP", "fixed price bid committed only within the cumulative allowance", 2)
	r.Rule("BATCH-CAP", "batch bid committed only within the allowance", 2)
	ms := w.msgServerMethods()
	place := ms["PlaceBid"]
	commit := commitStore("Bid")
	fixed := func(c *caseRule) { c.vals = append(c.vals, bidTypeValuation(1)) }
	runGuard(w, r, tm, guardSpec{rule: "FP-REMAINDER", id: "PlaceBid:remainder-covers-bid", root: place, common: fixed, commit: commit, commitTxt: "the Bid record write",
		what: "a fixed price bid is recorded only if RemainingSellingCoin ≥ the bid's selling amount",
		cases: ordCases("remainder", "bid", func(t *Term) bool { return fieldBase(t, "RemainingSellingCoin") != nil },
			func(t *Term) bool {
				return !t.Any(func(x *Term) bool { return isField(x, "RemainingSellingCoin") }) && t.Op != "const"
			}, func(o int) bool { return o >= 0 }),
		atoms: []string{"pair0"}, consequence: "the auction can sell more than it offered (the remainder goes negative / panics)"})
	runGuard(w, r, tm, guardSpec{rule: "FP-CAP", id: "PlaceBid:cumulative-cap", root: place, common: fixed, commit: commit, commitTxt: "the Bid record write",
		what:  "a fixed price bid is recorded only if the bidder's total in this auction including this bid ≤ MaxBidAmount",
		cases: ordCases("total", "MaxBidAmount", func(t *Term) bool { return !isCapField(t) && t.Op != "const" }, isCapField, func(o int) bool { return o <= 0 }),
		atoms: []string{"pair0"}, consequence: "a bidder can exceed the allowance the allow-list granted"})
	// what the total consists of, and which allow-list entry is consulted
	cc := &cmpCollector{valueOf: bidTypeValuation(1), sel: isCapField}
	NewExplorer(w, tm, cc).Run(place, 0)
	ok, why := len(cc.other) > 0, "no comparison with MaxBidAmount on the fixed price path"
	for i, tot := range cc.other {
		cur := tot.Any(func(t *Term) bool { return isExcursionRoot(t) && containsFieldOfParam(t, "Coin") }) || containsFieldOfParam(tot, "Coin")
		stored := tot.Any(func(t *Term) bool { return (isField(t, "Amount") || isField(t, "Coin")) && fromColl(t, "Bid") })
		switch {
		case !cur:
			ok, why = false, "the total compared with the cap does not include the bid being placed: "+tot.String()
		case !stored:
			ok, why = false, "the total compared with the cap does not include the bidder's stored bids: the cap is per bid, not cumulative"
		}
		// the allow-list entry: keyed by (message auction id, message bidder)
		entry := fieldBase(cc.selT[i], "MaxBidAmount")
		keyOK := false
		entry.Walk(func(t *Term) bool {
			if t.Op == "call" && strings.HasSuffix(t.Name, "collections.Map.Get") && len(t.Args) == 3 && isField(t.Args[0], "AllowedBidder") && allowKeyOK(t.Args[2]) {
				keyOK = true
			}
			return true
		})
		if !keyOK {
			ok, why = false, "the allowance consulted is not the entry keyed by (this auction, this bidder): "+entry.String()
		}
	}
	r.Check(ok, "FP-CAP", "PlaceBid:cap-sources", w.pos(place.Pos()),
		"the capped total depends on the bid being placed and on the bidder's stored bids, and the cap is the allow-list entry of (this auction, this bidder)", why)
	// the stored-bid total only counts this auction's bids (global scan filtered by auction id)
	checkScanFilter(w, r, tm, "FP-CAP")
	for _, bt := range []int64{2, 3} {
		bt := bt
		runGuard(w, r, tm, guardSpec{rule: "BATCH-CAP", id: fmt.Sprintf("PlaceBid:type%d", bt), root: place, common: func(c *caseRule) { c.vals = append(c.vals, bidTypeValuation(bt)) },
			commit: commit, commitTxt: "the Bid record write",
			what:  fmt.Sprintf("a batch bid (type %d) is recorded only if its selling amount ≤ MaxBidAmount", bt),
			cases: ordCases("bid", "MaxBidAmount", func(t *Term) bool { return !isCapField(t) && t.Op != "const" }, isCapField, func(o int) bool { return o <= 0 }),
			atoms: []string{"pair0"}, consequence: "a single batch bid can exceed the allowance"})
	}
}

// checkScanFilter: uses of the elements of an unprefixed Bid walk are dominated by an equality test of the
// element's AuctionId with the operated auction's id.
func checkScanFilter(w *World, r *Report, tm *Terms, rule string) {
	scope := w.reachableFrom(func() []*ssa.Function {
		var fs []*ssa.Function
		ms := w.msgServerMethods()
		for _, k := range sortedKeys(ms) {
			fs = append(fs, ms[k])
		}
		return append(fs, w.beginBlockFn())
	}()...)
	// functions that walk the whole Bid collection (nil ranger): wrappers hand every element to a callback parameter,
	// walkers hand it to a closure of their own (directly or through a wrapper)
	wrapper := map[*ssa.Function]bool{}
	global := map[*ssa.Function]bool{}
	callback := map[*ssa.Function]*ssa.MakeClosure{}
	for _, fn := range w.Funcs {
		for _, b := range fn.Blocks {
			for _, in := range b.Instrs {
				e := w.EffectOf(in)
				if e == nil || e.Kind != EffStoreRead || e.Coll != "Bid" || e.Method != "Walk" {
					continue
				}
				args := in.(ssa.CallInstruction).Common().Args
				if c, ok := args[2].(*ssa.Const); !ok || c.Value != nil || len(args) < 4 {
					continue
				}
				switch cb := args[3].(type) {
				case *ssa.Parameter:
					wrapper[fn] = true
				case *ssa.MakeClosure:
					global[fn] = true
					callback[fn] = cb
				default:
					global[fn] = true
				}
			}
		}
	}
	for _, fn := range w.Funcs {
		for _, b := range fn.Blocks {
			for _, in := range b.Instrs {
				c, ok := in.(ssa.CallInstruction)
				if !ok {
					continue
				}
				if callee := w.calleeBody(c.Common()); callee != nil && wrapper[callee] {
					global[fn] = true
					for _, a := range c.Common().Args {
						if mc, ok := a.(*ssa.MakeClosure); ok {
							callback[fn] = mc
						}
					}
				}
			}
		}
	}
	// a function that hands the list of a scan on to its own caller (possibly after keeping only some elements by
	// another criterion) is a scan itself: the obligations fall on whoever uses the elements
	passThrough := map[*ssa.Function]bool{}
	for changed := true; changed; {
		changed = false
		for _, fn := range w.Funcs {
			if global[fn] || fn.Blocks == nil || fn.Signature.Results().Len() == 0 {
				continue
			}
			if _, isSlice := fn.Signature.Results().At(0).Type().Underlying().(*types.Slice); !isSlice {
				continue
			}
			var scans []*ssa.Call
			for _, b := range fn.Blocks {
				for _, in := range b.Instrs {
					if c, ok := in.(*ssa.Call); ok {
						if callee := w.calleeBody(&c.Call); callee != nil && global[callee] {
							scans = append(scans, c)
						}
					}
				}
			}
			if len(scans) == 0 {
				continue
			}
			returned := false
			for _, b := range fn.Blocks {
				if ret, ok := b.Instrs[len(b.Instrs)-1].(*ssa.Return); ok && len(ret.Results) > 0 {
					for _, sc := range scans {
						if derivesFrom(ret.Results[0], sc) {
							returned = true
						}
					}
				}
			}
			if returned {
				global[fn], passThrough[fn], changed = true, true, true
			}
		}
	}
	// a walker whose callback only keeps elements of the auction whose id is one of the walker's parameters
	filteredBy := map[*ssa.Function]int{}
	for fn, mc := range callback {
		cb, _ := mc.Fn.(*ssa.Function)
		if cb == nil || len(cb.Params) == 0 {
			continue
		}
		cfr := tm.PlainRoot(cb) // the walker's own parameters must stay symbolic here
		val := cb.Params[len(cb.Params)-1]
		isVal := func(t *Term) bool {
			return t.Any(func(x *Term) bool { return x.Op == "param" && x.V == ssa.Value(val) })
		}
		idx, eqBlock := -1, (*ssa.BasicBlock)(nil)
		for _, bb := range cb.Blocks {
			iff, ok := bb.Instrs[len(bb.Instrs)-1].(*ssa.If)
			if !ok {
				continue
			}
			bo, ok := iff.Cond.(*ssa.BinOp)
			if !ok || (bo.Op != token.EQL && bo.Op != token.NEQ) {
				continue
			}
			l, rt := tm.Of(cfr, bo.X), tm.Of(cfr, bo.Y)
			if !(isField(l, "AuctionId") && isVal(l)) {
				l, rt = rt, l
			}
			if !(isField(l, "AuctionId") && isVal(l)) || isVal(rt) {
				continue
			}
			// the other side: a parameter of the walker (captured by the closure)
			other := uncell(rt)
			if par, ok := other.V.(*ssa.Parameter); ok && other.Op == "param" && par.Parent() == fn {
				for i, p := range fn.Params {
					if p == par {
						idx = i
					}
				}
				if bo.Op == token.EQL {
					eqBlock = bb.Succs[0]
				} else {
					eqBlock = bb.Succs[1]
				}
			}
		}
		if idx < 0 {
			continue
		}
		// every use of the element other than in comparisons happens under the equal branch
		ok := true
		for _, bb := range cb.Blocks {
			for _, in := range bb.Instrs {
				cl, isCall := in.(*ssa.Call)
				if !isCall {
					continue
				}
				uses := false
				for _, a := range cl.Call.Args {
					if isVal(tm.OperandAt(cfr, in, a)) {
						uses = true
					}
				}
				if uses && !(eqBlock == bb || eqBlock.Dominates(bb)) {
					if _, cmp := intCmp[callKey(&cl.Call)]; !cmp && !strings.HasSuffix(callKey(&cl.Call), ".String") {
						ok = false
					}
				}
			}
		}
		if ok {
			filteredBy[fn] = idx
		}
	}
	n := 0
	for _, fn := range sortedFns(scope) {
		fr := tm.Root(fn)
		for _, b := range fn.Blocks {
			for _, in := range b.Instrs {
				c, ok := in.(*ssa.Call)
				if !ok {
					continue
				}
				callee := w.calleeBody(&c.Call)
				if callee == nil || !global[callee] || passThrough[fn] {
					continue
				}
				n++
				construct := fmt.Sprintf("%s:scan#%d", fnName(fn), n)
				// the scanned list: the call's result, or (when the callee merely forwards to another scanner and the term
				// engine has inlined it) the inner scanner's result
				isScan := func(x *Term) bool {
					if x.V == ssa.Value(c) {
						return true
					}
					if ic, ok := x.V.(*ssa.Call); ok && x.Op == "call" {
						if h := w.calleeBody(&ic.Call); h != nil && global[h] {
							return true
						}
					}
					return false
				}
				if idx, filtered := filteredBy[callee]; filtered {
					// the walker itself keeps only the elements of the auction whose id it is given: that id must be the
					// operated auction's
					var args []ssa.Value
					if c.Call.IsInvoke() {
						args = append(args, c.Call.Value)
					}
					args = append(args, c.Call.Args...)
					okID := false
					why := "the walker is not given an auction id"
					if idx < len(args) {
						at := tm.OperandAt(fr, in, args[idx])
						okID = (isField(at, "Id") || isField(at, "AuctionId")) && !at.Any(func(x *Term) bool { return isScan(x) })
						why = "the scan is filtered by " + at.String() + ", not by the operated auction's id"
					}
					r.Check(okID, rule, construct, w.instrPos(in),
						"the unprefixed Bid scan ("+fnName(callee)+") keeps only the elements whose AuctionId equals the operated auction's id", why+": a bidder's bids in one auction count against (or for) another auction")
					continue
				}
				// elements of the result list, in this function and in the helpers the list is handed to
				var bad, skipEnds []string
				guardFound := false
				var analyse func(fn *ssa.Function, fr *Frame, depth int)
				analyse = func(fn *ssa.Function, fr *Frame, depth int) {
					guard := (*ssa.BasicBlock)(nil)
					for _, bb := range fn.Blocks {
						iff, ok := bb.Instrs[len(bb.Instrs)-1].(*ssa.If)
						if !ok {
							continue
						}
						bo, ok := iff.Cond.(*ssa.BinOp)
						if !ok || (bo.Op != token.EQL && bo.Op != token.NEQ) {
							continue
						}
						l, rt := tm.Of(fr, bo.X), tm.Of(fr, bo.Y)
						isElemAuc := func(t *Term) bool {
							return isField(t, "AuctionId") && t.Args[0].Any(func(x *Term) bool { return isScan(x) })
						}
						isOwn := func(t *Term) bool {
							return (isField(t, "Id") || isField(t, "AuctionId")) && !t.Any(func(x *Term) bool { return isScan(x) })
						}
						if (isElemAuc(l) && isOwn(rt)) || (isElemAuc(rt) && isOwn(l)) {
							// the successor taken when the ids are equal
							other := bb.Succs[0]
							if bo.Op == token.EQL {
								guard, other = bb.Succs[0], bb.Succs[1]
							} else {
								guard = bb.Succs[1]
							}
							// an element of another auction is skipped, it does not end the scan: the other successor
							// stays inside the loop that visits the elements
							if lp := fnInfo(fn).LoopOf[bb]; lp != nil && !lp.Blocks[other] {
								skipEnds = append(skipEnds, w.instrPos(iff))
							}
						}
					}
					// every use of an element (other than the AuctionId comparison) must be dominated by the guard's true edge
					for _, bb := range fn.Blocks {
						for _, in2 := range bb.Instrs {
							cl, ok := in2.(*ssa.Call)
							if !ok || cl == c {
								continue
							}
							uses := false
							for _, a := range cl.Call.Args {
								// the argument is an element of the scanned list (or a field of one), not a value accumulated from them
								at := tm.OperandAt(fr, in2, a)
								for at.Op == "field" || at.Op == "new" || at.Op == "deref" {
									at = at.Args[0]
								}
								if at.Op == "elem" && at.Args[0].Any(func(y *Term) bool { return isScan(y) }) {
									uses = true
								}
							}
							if !uses {
								continue
							}
							if guard == nil || !(guard == bb || guard.Dominates(bb)) {
								bad = append(bad, w.instrPos(in2))
							}
						}
					}
					if guard != nil {
						guardFound = true
					}
					// helpers that are handed the list itself
					if depth < 3 {
						for _, bb := range fn.Blocks {
							for _, in2 := range bb.Instrs {
								cl, ok := in2.(*ssa.Call)
								if !ok || cl == c {
									continue
								}
								h := w.calleeBody(&cl.Call)
								if h == nil || !w.isRepoPkg(pkgOf(h)) || w.isGenerated(h) {
									continue
								}
								gets := false
								for _, a := range cl.Call.Args {
									if _, isSlice := a.Type().Underlying().(*types.Slice); !isSlice {
										continue
									}
									at := uncell(tm.OperandAt(fr, in2, a))
									if at.Any(func(y *Term) bool { return isScan(y) }) && at.Op != "elem" {
										gets = true
									}
								}
								if gets {
									analyse(h, tm.Enter(fr, cl, h), depth+1)
								}
							}
						}
					}
				}
				analyse(fn, fr, 0)
				sort.Strings(bad)
				r.Check(len(skipEnds) == 0, rule, construct+":skip-continues", w.instrPos(in),
					"an element of another auction met by the scan is skipped and the scan goes on to the next element",
					"the auction filter at "+strings.Join(skipEnds, ", ")+" leaves the loop when it meets an element of another auction: the scan is ordered by (auction id, bid id), so a bidder's bid in an auction with a lower id hides all their bids in this auction from the total")
				r.Check(len(bad) == 0 && guardFound, rule, construct, w.instrPos(in),
					"the result of the unprefixed Bid scan ("+fnName(callee)+") is used only for elements whose AuctionId equals the operated auction's id",
					"elements of a scan over all auctions' bids are used without the auction filter at "+strings.Join(dedupe(bad), ", ")+": a bidder's bids in one auction count against (or for) another auction")
			}
		}
	}
	if n == 0 {
		r.Note("no use of an unprefixed Bid scan in message/block code: SCAN-FILTER is vacuous")
	}
}

func reachesAny(w *World, fn *ssa.Function, set map[*ssa.Function]bool) bool {
	for f := range w.reachableFrom(fn) {
		if set[f] {
			return true
		}
	}
	return false
}

func checkC05(w *World, r *Report) {
	r.Explanation = "Decides: batch — (CAP-MIN) every quantity added to a matched amount is MinInt(request, remaining allowance of the bid's bidder) with the allowance map seeded from the allow-list's MaxBidAmount and decremented by exactly the matched quantity, (SUPPLY-GUARD) the accumulation is unreachable when total + quantity > supply for the very quantity accumulated; fixed price — by evaluating the bid-placing operation over the orderings of the compared quantities: (FP-REMAINDER) the Bid record is written only if RemainingSellingCoin ≥ the bid's selling amount, (FP-CAP) only if total ≤ MaxBidAmount, where the total provably depends on both the bid being placed and the bidder's stored bids (cumulative cap), the cap is the allow-list entry keyed by (this auction, this bidder) read at bid time, and the stored bids counted are filtered to this auction; (BATCH-CAP) a batch bid is recorded only if its own selling amount ≤ MaxBidAmount."
	r.NotDecided = "the resulting inequalities as numbers over all histories; caps changed between bids are covered by the cap being read from the store at each acceptance."
	r.Rule("CAP-MIN", "accumulated quantity = min(request, remaining allowance)", 1)
	r.Rule("SUPPLY-GUARD", "accumulation unreachable when total + quantity > supply", 1)
	tm := NewTerms(w)
	tree := settlementTree(w)
	checkCapMin(w, r, tm, tree)
	checkSupplyGuard(w, r, tm, tree, true)
	fixedPriceGuards(w, r, tm)
	checkAddrCanon(w, r, tm)
	// CAP-COVER: the caps above are stated per bid type; every bid type the message validation admits must be one of them,
	// otherwise a bid of the uncovered type is recorded (and paid out at settlement) without any allowance check
	r.Rule("CAP-COVER", "every admitted bid type is subject to an allowance cap", 3)
	admitted, names := admittedEnum(w, tm, "MsgPlaceBid", "BidType", "BidType")
	capped := map[int64]bool{1: true, 2: true, 3: true}
	place := w.msgServerMethods()["PlaceBid"]
	for _, bt := range admitted {
		r.Check(capped[bt], "CAP-COVER", "bid-type:"+names[bt], w.pos(place.Pos()),
			"bid type "+names[bt]+" admitted by MsgPlaceBid.ValidateBasic is checked against the bidder's allowance (FP-CAP / BATCH-CAP)",
			"MsgPlaceBid.ValidateBasic admits bid type "+names[bt]+" for which the placing operation has no allowance check: such a bid is recorded without a cap and is allocated at settlement")
	}
	// a fixed price bid's cap is enforced once, at acceptance: it stays valid only if the bid is never changed afterwards
	r.Sub(checkC06, "FP-NO-REWRITE")
	// the allowances read at settlement and at acceptance are those of the operated auction
	r.SubWhere(checkC19, keepAny(":AllowedBidder:", ":Bid:"), "PREFIX-RANGE")
}
