package main

// rules_c20_cli.go — the module's autocli options as data. The options are read from the provenance term of the value
// AutoCLIOptions returns (and of the stores it makes through pointers into that value), not from the syntax of one
// function body: the literals may be written inline, built by helper functions, collected in local variables or
// appended conditionally.

import (
	"sort"
	"strconv"
	"strings"

	"golang.org/x/tools/go/ssa"
)

type listElem struct {
	t    *Term
	cond bool // present on some paths only
}

// stripRef: the record a pointer term denotes (&T{…} / a composite literal whose address escapes).
func stripRef(t *Term) *Term {
	for {
		switch {
		case (t.Op == "new" || t.Op == "deref") && len(t.Args) == 1:
			t = t.Args[0]
		case t.Op == "cell" && len(t.Args) == 1:
			t = t.Args[0]
		default:
			return t
		}
	}
}

func constStringTerm(t *Term) (string, bool) {
	t = stripRef(t)
	if t.Op == "const" && strings.HasPrefix(t.Name, `"`) {
		if s, err := strconv.Unquote(t.Name); err == nil {
			return s, true
		}
	}
	if t.Op == "zero" {
		return "", true
	}
	return "", false
}

func constBoolTerm(t *Term) (bool, bool) {
	t = stripRef(t)
	switch {
	case t.Op == "const" && t.Name == "true":
		return true, true
	case t.Op == "const" && t.Name == "false", t.Op == "zero":
		return false, true
	}
	return false, false
}

// listElems: the elements of a slice value described by literals, appends, alternatives and helper calls.
// ok=false when part of the list cannot be described (the caller reports a non-constant binding).
func listElems(w *World, tm *Terms, t *Term, depth int) (out []listElem, ok bool) {
	if depth > 8 {
		return nil, false
	}
	t = stripRef(t)
	switch {
	case t.Op == "zero" || (t.Op == "const" && t.Name == "nil"):
		return nil, true
	case t.Op == "slice" && len(t.Args) >= 1:
		return listElems(w, tm, t.Args[0], depth+1)
	case t.Op == "upd":
		// an array literal: fset<[i]>(x)
		type ix struct {
			i int
			t *Term
		}
		var xs []ix
		for _, a := range t.Args[1:] {
			if a.Op == "fset" && strings.HasPrefix(a.Name, "[") {
				if n, err := strconv.Atoi(strings.Trim(a.Name, "[]")); err == nil {
					xs = append(xs, ix{n, a.Args[0]})
					continue
				}
			}
			return nil, false
		}
		sort.Slice(xs, func(i, j int) bool { return xs[i].i < xs[j].i })
		for _, x := range xs {
			out = append(out, listElem{t: x.t})
		}
		return out, true
	case t.Op == "global":
		// a package-level variable: the value its package initialiser stores into it
		if g, ok := t.V.(*ssa.UnOp); ok {
			if gv, ok := g.X.(*ssa.Global); ok {
				return globalListElems(w, tm, gv, depth)
			}
		}
		if gv, ok := t.V.(*ssa.Global); ok {
			return globalListElems(w, tm, gv, depth)
		}
		return nil, false
	case t.Op == "builtin" && t.Name == "append" && len(t.Args) == 2:
		base, ok1 := listElems(w, tm, t.Args[0], depth+1)
		if !ok1 {
			// appended to a list that is described elsewhere (the field being extended in place)
			base = nil
		}
		add, ok2 := listElems(w, tm, t.Args[1], depth+1)
		return append(base, add...), ok2
	case t.Op == "phi" && isMapLoop(t) != nil:
		// a loop that appends one element per element of a literal list: for each x of L: append(acc, f(x))
		app := isMapLoop(t)
		// flattening: for each group of a literal list of lists: append(acc, group...)
		if g := stripRef(app.Args[1]); g.Op == "elem" && len(g.Args) == 2 && g.Args[1].Op != "const" {
			if groups, ok := listElems(w, tm, g.Args[0], depth+1); ok {
				for _, gr := range groups {
					es, ok := listElems(w, tm, gr.t, depth+1)
					if !ok {
						return nil, false
					}
					out = append(out, es...)
				}
				return out, true
			}
		}
		one, ok1 := listElems(w, tm, app.Args[1], depth+1)
		if !ok1 || len(one) != 1 {
			return nil, false
		}
		var src, at *Term // elem(L, i) inside the appended element, with L a literal list
		one[0].t.Walk(func(x *Term) bool {
			if src == nil && x.Op == "elem" && len(x.Args) == 2 && x.Args[1].Op != "const" {
				if _, ok := listElems(w, tm, x.Args[0], depth+1); ok {
					src, at = x.Args[0], x
				}
			}
			return src == nil
		})
		if src == nil {
			return nil, false
		}
		items, _ := listElems(w, tm, src, depth+1)
		for _, it := range items {
			out = append(out, listElem{t: substTerm(one[0].t, at.Key(), it.t)})
		}
		return out, true
	case t.Op == "phi":
		// alternatives: elements of every alternative, conditional unless present in all
		count := map[string]int{}
		var order []*Term
		for _, a := range t.Args {
			es, ok := listElems(w, tm, a, depth+1)
			if !ok {
				return nil, false
			}
			seen := map[string]bool{}
			for _, e := range es {
				k := e.t.Key()
				if !seen[k] {
					seen[k] = true
					if count[k] == 0 {
						order = append(order, e.t)
					}
					count[k]++
				}
			}
		}
		for _, e := range order {
			out = append(out, listElem{t: e, cond: count[e.Key()] < len(t.Args)})
		}
		return out, true
	}
	return nil, false
}

// globalListElems: the elements of the list the package initialiser stores into the global variable.
func globalListElems(w *World, tm *Terms, gv *ssa.Global, depth int) ([]listElem, bool) {
	if gv.Pkg == nil {
		return nil, false
	}
	initFn := gv.Pkg.Func("init")
	if initFn == nil {
		return nil, false
	}
	var out []listElem
	n := 0
	fr := tm.Root(initFn)
	for _, b := range initFn.Blocks {
		for _, in := range b.Instrs {
			st, ok := in.(*ssa.Store)
			if !ok || st.Addr != ssa.Value(gv) {
				continue
			}
			n++
			es, ok := listElems(w, tm, tm.OperandAt(fr, in, st.Val), depth+1)
			if !ok {
				return nil, false
			}
			out = es
		}
	}
	return out, n == 1
}

// isMapLoop: phi(append(rec, S), empty…) — the accumulator of a loop that appends S once per iteration, starting empty.
func isMapLoop(t *Term) *Term {
	var app *Term
	for _, a := range t.Args {
		x := stripRef(a)
		switch {
		case x.Op == "builtin" && x.Name == "append" && len(x.Args) == 2 && x.Args[0].Op == "rec" && app == nil:
			app = x
		case x.Op == "makeslice", x.Op == "zero", x.Op == "const" && x.Name == "nil":
		default:
			return nil
		}
	}
	return app
}

// substTerm replaces every subterm whose key is oldKey by repl.
func substTerm(t *Term, oldKey string, repl *Term) *Term {
	if t.Key() == oldKey {
		return repl
	}
	if len(t.Args) == 0 {
		return t
	}
	changed := false
	args := make([]*Term, len(t.Args))
	for i, a := range t.Args {
		args[i] = substTerm(a, oldKey, repl)
		if args[i] != a {
			changed = true
		}
	}
	if !changed {
		return t
	}
	return &Term{Op: t.Op, Name: t.Name, V: t.V, Args: args}
}

// mappedDescriptors: a helper that turns each element of a (variadic) string parameter into a descriptor whose
// ProtoField is that element — positionalArgs("a", "b"). Returns the descriptors for one call.
func mappedDescriptors(w *World, tm *Terms, call *ssa.Call) ([]cliArg, bool) {
	callee := w.calleeBody(&call.Call)
	if callee == nil {
		return nil, false
	}
	hfr := tm.Root(callee)
	// the parameter whose elements become ProtoField values
	pidx := -1
	for _, b := range callee.Blocks {
		for _, in := range b.Instrs {
			st, ok := in.(*ssa.Store)
			if !ok {
				continue
			}
			fa, ok := st.Addr.(*ssa.FieldAddr)
			if !ok || !isNamed(fa.X.Type(), autocliAPIPath, "PositionalArgDescriptor") {
				continue
			}
			name := structOf(fa.X.Type()).Field(fa.Field).Name()
			vt := tm.OperandAt(hfr, in, st.Val)
			if name != "ProtoField" {
				if name == "Optional" || name == "Varargs" {
					if b, ok := constBoolTerm(vt); ok && !b {
						continue
					}
				}
				return nil, false // the helper sets something this summary does not model
			}
			if !((vt.Op == "elem" || vt.Op == "mapval") && len(vt.Args) >= 1) {
				return nil, false
			}
			src := vt.Args[0]
			for src.Op == "range" && len(src.Args) == 1 {
				src = src.Args[0]
			}
			if par, ok := src.V.(*ssa.Parameter); ok && par.Parent() == callee {
				for i, p := range callee.Params {
					if p == par {
						pidx = i
					}
				}
			}
		}
	}
	if pidx < 0 || pidx >= len(call.Call.Args) {
		return nil, false
	}
	cfr := tm.Root(call.Parent())
	es, ok := listElems(w, tm, tm.OperandAt(cfr, call, call.Call.Args[pidx]), 0)
	if !ok {
		return nil, false
	}
	var out []cliArg
	for _, e := range es {
		s, ok := constStringTerm(e.t)
		if !ok {
			return nil, false
		}
		out = append(out, cliArg{field: s, where: w.instrPos(call)})
	}
	return out, true
}

func termWhere(w *World, t *Term, fallback string) string {
	for x := t; x != nil; {
		if v, ok := x.V.(ssa.Instruction); ok && v.Pos().IsValid() {
			return w.instrPos(v)
		}
		if len(x.Args) == 0 {
			break
		}
		x = x.Args[0]
	}
	return fallback
}

// cliCommands extracts the RpcCommandOptions of both services.
func cliCommands(w *World, tm *Terms, fn *ssa.Function) []*cliCmd {
	fr := tm.Root(fn)
	var cmds []*cliCmd
	fallback := w.pos(fn.Pos())
	// the descriptors of the returned options
	type desc struct {
		svc   string
		alloc ssa.Value
		rec   *Term
	}
	var descs []desc
	for _, b := range fn.Blocks {
		ret, ok := b.Instrs[len(b.Instrs)-1].(*ssa.Return)
		if !ok || len(ret.Results) != 1 {
			continue
		}
		rt := tm.OperandAt(fr, ret, ret.Results[0])
		for _, alt := range rt.Alts() {
			mo := stripRef(alt)
			for _, svc := range []string{"Query", "Tx"} {
				ft := normField(mo, svc, nil)
				d := desc{svc: svc, rec: stripRef(ft)}
				for x := ft; ; {
					if x.Op == "cell" {
						d.alloc = x.V
					}
					if (x.Op == "new" || x.Op == "deref" || x.Op == "cell") && len(x.Args) == 1 {
						x = x.Args[0]
						continue
					}
					break
				}
				descs = append(descs, d)
			}
		}
	}
	addCmd := func(svc string, e listElem) {
		rec := stripRef(e.t)
		c := &cliCmd{service: svc, cond: e.cond, where: termWhere(w, e.t, fallback)}
		get := func(name string) *Term { return normField(rec, name, nil) }
		if s, ok := constStringTerm(get("RpcMethod")); ok {
			c.method = s
		} else {
			c.nonConst = append(c.nonConst, "RpcMethod")
		}
		if s, ok := constStringTerm(get("Use")); ok {
			c.use = s
		} else {
			c.nonConst = append(c.nonConst, "Use")
		}
		if b, ok := constBoolTerm(get("Skip")); ok {
			c.skip = b
		} else {
			c.nonConst = append(c.nonConst, "Skip")
		}
		if es, ok := listElems(w, tm, get("Alias"), 0); ok {
			for _, a := range es {
				if s, ok := constStringTerm(a.t); ok {
					c.aliases = append(c.aliases, s)
				} else {
					c.nonConst = append(c.nonConst, "Alias")
				}
			}
		} else {
			c.nonConst = append(c.nonConst, "Alias")
		}
		pa := get("PositionalArgs")
		if es, ok := listElems(w, tm, pa, 0); ok {
			for _, a := range es {
				ar := stripRef(a.t)
				arg := cliArg{where: termWhere(w, a.t, c.where)}
				if s, ok := constStringTerm(normField(ar, "ProtoField", nil)); ok {
					arg.field = s
				} else {
					c.nonConst = append(c.nonConst, "ProtoField")
				}
				arg.optional, _ = constBoolTerm(normField(ar, "Optional", nil))
				arg.varargs, _ = constBoolTerm(normField(ar, "Varargs", nil))
				c.posArgs = append(c.posArgs, arg)
			}
		} else if call, isCall := pa.V.(*ssa.Call); isCall {
			if args, ok := mappedDescriptors(w, tm, call); ok {
				c.posArgs = args
			} else {
				c.nonConst = append(c.nonConst, "PositionalArgs")
			}
		} else {
			c.nonConst = append(c.nonConst, "PositionalArgs")
		}
		// flag options: a map literal keyed by proto field names
		fo := stripRef(get("FlagOptions"))
		switch {
		case fo.Op == "zero" || (fo.Op == "const" && fo.Name == "nil"):
		case fo.Op == "makemap" && fo.V != nil:
			if mm, ok := fo.V.(*ssa.MakeMap); ok {
				ks, vs := mapUpdatesOf(tm, tm.Root(mm.Parent()), mm)
				for i, k := range ks {
					if s, ok := constStringTerm(k); ok {
						c.flagKeys = append(c.flagKeys, s)
						if i < len(vs) {
							dv := stripRef(vs[i])
							for dv.Op == "deref" && len(dv.Args) == 1 {
								dv = stripRef(dv.Args[0])
							}
							d := normField(dv, "DefaultValue", nil)
							if ds, isConst := constStringTerm(d); isConst {
								if ds != "" {
									c.flagDefaults = append(c.flagDefaults, [2]string{s, ds})
								}
							} else if !(d.Op == "zero" || isField(d, "DefaultValue")) {
								c.flagDefaults = append(c.flagDefaults, [2]string{s, "(" + d.String() + ")"})
							}
						}
					} else {
						c.nonConst = append(c.nonConst, "FlagOptions key")
					}
				}
			}
		default:
			c.nonConst = append(c.nonConst, "FlagOptions")
		}
		cmds = append(cmds, c)
	}
	seen := map[string]bool{}
	for _, d := range descs {
		es, ok := listElems(w, tm, normField(d.rec, "RpcCommandOptions", nil), 0)
		if !ok {
			cmds = append(cmds, &cliCmd{service: d.svc, where: fallback, nonConst: []string{"RpcCommandOptions of the " + d.svc + " descriptor"}})
			continue
		}
		for _, e := range es {
			if k := d.svc + "|" + e.t.Key(); !seen[k] {
				seen[k] = true
				addCmd(d.svc, e)
			}
		}
	}
	// stores through a pointer into one of the descriptors (opts.Tx.RpcCommandOptions = append(…))
	tm.walkFrom(fr, func(sfr *Frame, in ssa.Instruction) {
		st, ok := in.(*ssa.Store)
		if !ok {
			return
		}
		fa, ok := st.Addr.(*ssa.FieldAddr)
		if !ok || !isNamed(fa.X.Type(), autocliAPIPath, "ServiceCommandDescriptor") || structOf(fa.X.Type()).Field(fa.Field).Name() != "RpcCommandOptions" {
			return
		}
		if _, isAlloc := fa.X.(*ssa.Alloc); isAlloc {
			return // the literal's own initialisation (already in the returned value)
		}
		svc := ""
		bt := tm.Of(sfr, fa.X)
		for x := bt; ; {
			if x.Op == "cell" {
				for _, d := range descs {
					if d.alloc != nil && d.alloc == x.V {
						svc = d.svc
					}
				}
			}
			if (x.Op == "new" || x.Op == "deref" || x.Op == "cell") && len(x.Args) == 1 {
				x = x.Args[0]
				continue
			}
			break
		}
		es, ok := listElems(w, tm, tm.OperandAt(sfr, in, st.Val), 0)
		if !ok {
			cmds = append(cmds, &cliCmd{service: svc, where: w.instrPos(in), nonConst: []string{"RpcCommandOptions assigned at " + w.instrPos(in)}})
			return
		}
		// conditional unless the store is on every returning path
		always := true
		for _, b := range in.Parent().Blocks {
			if _, isRet := b.Instrs[len(b.Instrs)-1].(*ssa.Return); isRet && !(in.Block() == b || in.Block().Dominates(b)) {
				always = false
			}
		}
		for _, e := range es {
			if k := svc + "|" + e.t.Key(); !seen[k] {
				seen[k] = true
				e.cond = e.cond || !always
				addCmd(svc, e)
			}
		}
	})
	return cmds
}
