package main

// C12 — only the auctioneer cancels, only before opening, full refund.
//   CN-GUARD   cancellation is committed exactly for an existing auction, signer = stored auctioneer, status StandBy
//   CN-EFFECT  every non-failing path drains the selling escrow to the auctioneer, zeroes the remainder
//              (fixed price), writes Cancelled and stores the same auction
//   (Cancelled is written nowhere else and never left: ST-TRANS under C08)

import (
	"fmt"
	"sort"
	"strings"

	"golang.org/x/tools/go/ssa"
)

func init() { register("C12", checkC12) }

// drainOK: the amount of a SendCoins is the payer's whole spendable balance of one denomination:
// NewCoins(NewCoin(d, AmountOf(SpendableCoins(bank, payer), d))).
func drainOK(payer, amt *Term) (bool, string, *Term) {
	var denom *Term
	ok := false
	why := "the amount is " + amt.String() + ", not the escrow's whole balance"
	amt.Walk(func(t *Term) bool {
		if t.Op == "call" && strings.HasSuffix(t.Name, ".Coins.AmountOf") && len(t.Args) == 2 {
			src := t.Args[0]
			if src.Op == "call" && strings.HasSuffix(src.Name, "BankKeeper.SpendableCoins") {
				addr := src.Args[len(src.Args)-1]
				if addr.Key() == payer.Key() {
					ok = true
					denom = t.Args[1]
				} else {
					why = "the balance read is that of " + addr.String() + " but the account debited is " + payer.String()
				}
			}
		}
		return true
	})
	if !ok {
		return false, why, nil
	}
	// exactly the balance: no arithmetic between the balance read and the coin sent
	if in := innerAmount(amt); !(in.Op == "call" && strings.HasSuffix(in.Name, ".Coins.AmountOf")) {
		return false, "the amount sent is " + in.String() + ", not exactly the balance that was read", nil
	}
	// the coin is built with the same denomination that was read
	same := false
	amt.Walk(func(t *Term) bool {
		if t.Op == "call" && strings.HasSuffix(t.Name, sdkPath+".NewCoin") && len(t.Args) == 2 && t.Args[0].Key() == denom.Key() {
			same = true
		}
		return true
	})
	if !same {
		return false, "the coin sent is not denominated in the denomination whose balance was read", nil
	}
	return true, "", denom
}

type cancelSeq struct {
	caseRule
	tm *Terms
}

const (
	cnTransfer = 1 << 0
	cnStatus   = 1 << 1
	cnStore    = 1 << 2
	cnRemZero  = 1 << 3
	cnBadOrder = 1 << 4
)

func (c *cancelSeq) OnInstr(x *Explorer, fr *Frame, in ssa.Instruction, st uint64) uint64 {
	if e := c.w.EffectOf(in); e != nil {
		switch {
		case e.Kind == EffTransfer:
			st |= cnTransfer
		case e.Kind == EffStatusWrite:
			if v, ok := statusTarget(x, fr, in); ok && v == stCancelled {
				st |= cnStatus
			}
		case e.Kind == EffStoreWrite && e.Coll == "Auction":
			if st&cnStatus == 0 {
				st |= cnBadOrder
			}
			st |= cnStore
		}
	}
	if s, ok := in.(*ssa.Store); ok {
		if fa, ok := s.Addr.(*ssa.FieldAddr); ok && isNamed(fa.X.Type(), typesPath, "FixedPriceAuction") {
			if structOf(fa.X.Type()).Field(fa.Field).Name() == "RemainingSellingCoin" {
				t := x.TM.OperandAt(fr, in, s.Val)
				if t.Op == "call" && strings.HasSuffix(t.Name, sdkPath+".NewCoin") && len(t.Args) == 2 && strings.HasSuffix(t.Args[1].Name, ".ZeroInt") {
					st |= cnRemZero
				}
			}
		}
	}
	return st
}

func checkC12(w *World, r *Report) {
	r.Explanation = "Decides for the cancel operation: (CN-GUARD) the Auction record write is reachable exactly when the auction lookup succeeds, the stored auctioneer equals the message's auctioneer and the stored status is StandBy (finite case split of each condition); (CN-EFFECT) on every non-failing path: one transfer whose payer is the stored auction's selling escrow, whose payee is its auctioneer and whose amount is the escrow's whole spendable balance of the selling denomination (so the escrow is emptied), the fixed-price remainder is assigned a zero coin, the status written is Cancelled, and the Auction store write of the loaded record follows the status write under the record's own id."
	r.NotDecided = "balances as numbers; bank semantics of SendCoins."
	r.Rule("CN-GUARD", "cancellation committed exactly under its preconditions", 3)
	r.Rule("CN-EFFECT", "cancellation drains the escrow, zeroes the remainder, writes Cancelled, stores the auction", 4)
	tm := NewTerms(w)
	ms := w.msgServerMethods()
	root := ms["CancelAuction"]
	commit := func(e *Effect, in ssa.Instruction) bool {
		return (e.Kind == EffStoreWrite && e.Coll == "Auction") || e.Kind == EffTransfer || e.Kind == EffStatusWrite
	}
	g := func(id, what, cons string, cases []guardCase, atoms ...string) {
		runGuard(w, r, tm, guardSpec{rule: "CN-GUARD", id: "CancelAuction:" + id, root: root, what: what, commit: commit, commitTxt: "a cancellation effect (transfer / status / store)",
			cases: cases, atoms: atoms, consequence: cons})
	}
	g("C1-exists", "cancellation requires the auction to exist", "", errCases("Auction.Get", getErr(w, "Auction")), "err:Auction.Get")
	g("C2-auctioneer", "only the stored auctioneer cancels", "any account can cancel (and thereby refund/stop) someone else's auction",
		eqCases("stored auctioneer", "msg.Auctioneer", func(t *Term) bool {
			return storedField(t, "Auction", "Auctioneer") && !containsFieldOfParam(t, "Auctioneer")
		},
			func(t *Term) bool {
				return containsFieldOfParam(t, "Auctioneer") && !storedField(t, "Auction", "Auctioneer")
			}), "pair0")
	g("C3-standby", "cancellation only while the auction is StandBy", "an opened auction with bids can be cancelled, stranding the bidders' reservations",
		enumCases(w, "AuctionStatus", "status", func(t *Term, v ssa.Value) bool { return isField(t, "Status") && fromColl(t.Args[0], "Auction") }, func(v int64) bool { return v == stStandBy }), "enum:status")

	// "once an auction has opened nobody can cancel it": opening is done by the block hook that runs before the block's
	// transactions (BeginBlock), for StartTime ≤ BlockTime — otherwise a cancel in the opening block still sees StandBy
	r.SubWhere(checkC08, perRule(map[string]func(string, string) bool{"TIME-POL": keepPrefix("open:block-hook")}), "BB-BEGIN", "BB-EVERY", "TIME-POL")
	// the cancelled record is written back under its own id: every stored auction's Id is its store key
	r.Sub(checkC19, "KV-AGREE")

	// ---------------------------------------------------------------- CN-EFFECT
	for _, typ := range []int64{1, 2} {
		typ := typ
		cs := &cancelSeq{caseRule: *newCase(w, func(*Effect, ssa.Instruction) bool { return false }), tm: tm}
		cs.enums = []enumFix{{name: "type", val: typ, match: func(t *Term, v ssa.Value) bool {
			return isNamed(v.Type(), typesPath, "AuctionType") && isField(t, "Type")
		}}}
		cs.vals = append(cs.vals, func(x *Explorer, fr *Frame, v ssa.Value) AV {
			if ta, ok := v.(*ssa.TypeAssert); ok && ta.CommaOk {
				return True
			}
			return Unknown
		})
		var bad []string
		n := 0
		for _, o := range NewExplorer(w, tm, cs).Run(root, 0) {
			if o.Kind != ExitReturn {
				continue
			}
			if av, ok := o.ErrAV(root); ok && av.K == avNonNil {
				continue
			}
			n++
			at := w.instrPos(o.Instr)
			switch {
			case o.St&cnTransfer == 0:
				bad = append(bad, "a non-failing path to "+at+" performs no refund transfer")
			case o.St&cnStatus == 0:
				bad = append(bad, "a non-failing path to "+at+" does not write status Cancelled")
			case o.St&cnStore == 0:
				bad = append(bad, "a non-failing path to "+at+" does not store the auction")
			case o.St&cnBadOrder != 0:
				bad = append(bad, "the auction is stored before its status is set to Cancelled on a path to "+at)
			case typ == 1 && o.St&cnRemZero == 0:
				bad = append(bad, "for a fixed price auction a non-failing path to "+at+" does not zero RemainingSellingCoin")
			}
		}
		if n == 0 {
			bad = append(bad, "no non-failing path")
		}
		sort.Strings(bad)
		tn := map[int64]string{1: "FixedPrice", 2: "Batch"}[typ]
		r.Check(len(bad) == 0, "CN-EFFECT", "CancelAuction:sequence:"+tn, w.pos(root.Pos()),
			"every non-failing cancellation of a "+tn+" auction refunds, "+map[int64]string{1: "zeroes the remainder, ", 2: ""}[typ]+"writes Cancelled and then stores the auction",
			strings.Join(dedupe(bad), "; "))
	}
	// the transfer: payer, payee, amount; the store: same record under its own id
	// in the calling context of the message handler: the refund may be written in the operation or in a helper it calls
	for _, site := range tm.sitesWhere([]*ssa.Function{root}, func(fr *Frame, in ssa.Instruction) bool {
		e := w.EffectOf(in)
		return e != nil && (e.Kind == EffTransfer || (e.Kind == EffStoreWrite && e.Coll == "Auction" && e.Method == "Set"))
	}) {
		fr, in := site.Fr, site.In
		e := w.EffectOf(in)
		switch {
		case e.Kind == EffTransfer:
			args := in.(ssa.CallInstruction).Common().Args
			if e.Method != "SendCoins" || len(args) != 4 {
				r.Fail("CN-EFFECT", "CancelAuction:transfer", w.instrPos(in), "the refund is one SendCoins from the selling escrow to the auctioneer", "unexpected bank call "+e.Method)
				continue
			}
			from, to, amt := tm.OperandAt(fr, in, args[1]), tm.OperandAt(fr, in, args[2]), tm.OperandAt(fr, in, args[3])
			var bad []string
			fb := from.Any(func(t *Term) bool { return isField(t, "SellingReserveAddress") && fromColl(t.Args[0], "Auction") })
			if !fb {
				bad = append(bad, "payer is "+from.String()+", not the stored auction's selling escrow")
			}
			if !to.Any(func(t *Term) bool { return isField(t, "Auctioneer") && fromColl(t.Args[0], "Auction") }) {
				bad = append(bad, "payee is "+to.String()+", not the stored auction's auctioneer")
			}
			ok, why, denom := drainOK(from, amt)
			if !ok {
				bad = append(bad, why)
			} else if !(isField(denom, "Denom") && isField(denom.Args[0], "SellingCoin") && fromColl(denom, "Auction")) {
				bad = append(bad, "the denomination refunded is "+denom.String()+", not the stored auction's selling denomination")
			}
			r.Check(len(bad) == 0, "CN-EFFECT", "CancelAuction:transfer", w.instrPos(in),
				"the refund moves the selling escrow's whole balance of the selling denomination to the stored auctioneer", strings.Join(bad, "; "))
		case e.Kind == EffStoreWrite && e.Coll == "Auction" && e.Method == "Set":
			args := in.(ssa.CallInstruction).Common().Args
			key, val := tm.OperandAt(fr, in, args[2]), tm.OperandAt(fr, in, args[3])
			ok := fromColl(val, "Auction") && related(key, recordField(val, "Id", true))
			r.Check(ok, "CN-EFFECT", "CancelAuction:store", w.instrPos(in), "the record stored is the loaded auction, under its own id",
				fmt.Sprintf("stored %s under key %s", val.String(), key.String()))
		}
	}
}
