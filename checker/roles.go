package main

// roles.go — E2: roles of the accounts in bank transfers, resolved through
// helpers by exploring from the entry points (parameters are bound by the frames).

import (
	"fmt"
	"sort"
	"strings"

	"golang.org/x/tools/go/ssa"
)

type Role struct {
	Kind    string // SellingEscrow | PayingEscrow | VestingEscrow | Auctioneer | Signer | Bidder | Unattributed
	Auction string // identity of the auction the role is relative to ("" when message relative)
	Why     string
}

func (r Role) String() string {
	if r.Auction != "" {
		return r.Kind + "[" + r.Auction + "]"
	}
	return r.Kind
}

// auctionIdentity canonicalises the auction a term refers to.
func auctionIdentity(a *Term) string {
	for a.Op == "new" || a.Op == "deref" {
		a = a.Args[0]
	}
	// res<0>(Get(k.Auction, ctx, K))
	if a.Op == "res" && a.Name == "0" && a.Args[0].Op == "call" && strings.HasSuffix(a.Args[0].Name, "collections.Map.Get") && len(a.Args[0].Args) == 3 && isField(a.Args[0].Args[0], "Auction") {
		return "id:" + shortKey(a.Args[0].Args[2])
	}
	if isField(a, "Id") {
		return auctionIdentity(a.Args[0])
	}
	if isField(a, "AuctionId") {
		return "id:" + shortKey(a)
	}
	if a.Op == "param" {
		// the value parameter of a callback handed to a walk over the Auction collection: the iterated auction, like an
		// element of the list the walk would have collected
		if p, ok := a.V.(*ssa.Parameter); ok && curWorld != nil && curWorld.walkValueParamOf(p) == "Auction" {
			return "elem:walk<Auction>"
		}
		return "param:" + a.Name
	}
	// a freshly built auction: its Id
	if a.Op == "upd" {
		id := recordField(a, "Id", true)
		if id.Op != "zero" {
			return "id:" + shortKey(id)
		}
	}
	if a.Op == "elem" {
		return "elem:" + shortKey(a.Args[0])
	}
	if a.Op == "phi" {
		ids := map[string]bool{}
		for _, x := range a.Args {
			ids[auctionIdentity(x)] = true
		}
		if len(ids) == 1 {
			for k := range ids {
				return k
			}
		}
	}
	return "id:" + shortKey(a)
}

func shortKey(t *Term) string {
	s := shorten(t.Key())
	if len(s) > 160 {
		s = s[:160]
	}
	return s
}

var escrowOf = map[string]string{"SellingReserveAddress": "SellingEscrow", "PayingReserveAddress": "PayingEscrow", "VestingReserveAddress": "VestingEscrow"}

var rolesTM *Terms

// bidderKeyed: every update of the local map uses a key that is a bid's / allowed bidder's Bidder field
// (or a key of another bidder-keyed map).
func bidderKeyed(m *Term, depth int) bool {
	mm, ok := m.V.(*ssa.MakeMap)
	if !ok || rolesTM == nil || depth > 3 {
		return false
	}
	ks, _ := mapUpdatesOf(rolesTM, rolesTM.Root(mm.Parent()), mm)
	if len(ks) == 0 {
		return false
	}
	for _, k := range ks {
		switch {
		case isField(k, "Bidder"):
		case k.Op == "mapkey" && len(k.Args) == 1 && k.Args[0].Op == "makemap" && bidderKeyed(k.Args[0], depth+1):
		case k.Op == "mapkey" && len(k.Args) == 1 && (isField(k.Args[0], "AllocationMap") || isField(k.Args[0], "RefundMap") || isField(k.Args[0], "MatchResultByBidder")):
		default:
			// keys re-read from a sorted slice of such keys
			if !k.Any(func(x *Term) bool {
				return x.Op == "mapkey" && len(x.Args) == 1 && (isField(x.Args[0], "AllocationMap") || isField(x.Args[0], "RefundMap") || (x.Args[0].Op == "makemap" && x.Args[0].Key() != m.Key() && bidderKeyed(x.Args[0], depth+1)))
			}) {
				return false
			}
		}
	}
	return true
}

// roleOf classifies an address term.
func roleOf(t *Term) Role {
	var found []Role
	t.Walk(func(x *Term) bool {
		switch {
		case x.Op == "field" && escrowOf[x.Name] != "":
			found = append(found, Role{Kind: escrowOf[x.Name], Auction: auctionIdentity(x.Args[0])})
			return false
		case x.Op == "const" && strings.HasPrefix(x.Name, `"`):
			for pre, kind := range escrowOf {
				if strings.HasPrefix(x.Name, `"`+pre) {
					found = append(found, Role{Kind: kind, Auction: "?derive"})
				}
			}
		case x.Op == "field" && x.Name == "Auctioneer":
			if n := namedOf(typeOfTerm(x.Args[0])); x.Args[0].Op == "param" && n != nil && strings.HasPrefix(n.Obj().Name(), "Msg") {
				found = append(found, Role{Kind: "Signer", Why: "message auctioneer"})
			} else {
				found = append(found, Role{Kind: "Auctioneer", Auction: auctionIdentity(x.Args[0])})
			}
			return false
		case x.Op == "field" && x.Name == "Bidder":
			if x.Args[0].Op == "param" {
				found = append(found, Role{Kind: "Signer", Why: "message bidder"})
			} else {
				found = append(found, Role{Kind: "Bidder"})
			}
			return false
		case x.Op == "mapkey" && len(x.Args) == 1 && (isField(x.Args[0], "AllocationMap") || isField(x.Args[0], "RefundMap")):
			found = append(found, Role{Kind: "Bidder", Why: "key of the allocation/refund map"})
			return false
		case x.Op == "mapkey" && len(x.Args) == 1 && x.Args[0].Op == "makemap" && bidderKeyed(x.Args[0], 0):
			found = append(found, Role{Kind: "Bidder", Why: "key of a map keyed by Bid.Bidder"})
			return false
		}
		return true
	})
	// resolve the id of a derived escrow: the Sprint argument
	for i := range found {
		if found[i].Auction == "?derive" {
			id := ""
			t.Walk(func(x *Term) bool {
				// the decimal rendering of the id, however it is spelled
				if x.Op == "call" && (x.Name == "fmt.Sprint" || x.Name == "fmt.Sprintf" || x.Name == "strconv.FormatUint" || x.Name == "strconv.FormatInt" || x.Name == "strconv.Itoa") && len(x.Args) >= 1 {
					var arg *Term
					for _, a := range x.Args {
						a.Walk(func(y *Term) bool {
							if arg != nil {
								return false
							}
							switch {
							case y.Op == "fset" && strings.HasPrefix(y.Name, "["):
								if y.Args[0].Op != "const" {
									arg = y.Args[0]
								}
								return arg == nil
							case y.Op == "const", y.Op == "slice", y.Op == "new", y.Op == "upd", y.Op == "zero":
								return true
							case y.Op == "call" && (strings.HasSuffix(y.Name, "convert") || y.Name == "convert"):
								return true
							}
							arg = y
							return false
						})
						if arg != nil {
							break
						}
					}
					if arg != nil {
						id = auctionIdentity(arg)
					}
				}
				return id == ""
			})
			found[i].Auction = id
		}
	}
	if len(found) == 0 {
		return Role{Kind: "Unattributed", Why: t.String()}
	}
	// several mentions must agree
	r := found[0]
	for _, f := range found[1:] {
		if f.Kind != r.Kind || f.Auction != r.Auction {
			return Role{Kind: "Unattributed", Why: "ambiguous: " + t.String()}
		}
	}
	return r
}

func typeString(t *Term) string {
	if t != nil && t.V != nil {
		return t.V.Type().String()
	}
	return ""
}

// TransferInst is one bank transfer / fee resolved in the context of an entry point.
type TransferInst struct {
	Entry  string
	Site   ssa.Instruction
	Method string
	Payers []Role
	Payees []Role
	Amount *Term // SendCoins amount / fee amount
	From   *Term
	To     *Term
}

func (ti TransferInst) pairString() string {
	var a, b []string
	for _, r := range ti.Payers {
		a = append(a, r.String())
	}
	for _, r := range ti.Payees {
		b = append(b, r.String())
	}
	return strings.Join(a, "+") + " → " + strings.Join(b, "+")
}

type transferCollector struct {
	BaseRule
	w     *World
	entry string
	out   map[string]TransferInst
}

// resolveMapReads replaces reads of a local map by the values ever stored into it (one level).
func resolveMapReads(tm *Terms, fr *Frame, t *Term, depth int) []*Term {
	var out []*Term
	var rec func(t *Term, d int)
	rec = func(t *Term, d int) {
		t.Walk(func(x *Term) bool {
			if (x.Op == "lookup" || x.Op == "mapval") && len(x.Args) > 0 && x.Args[0].Op == "makemap" && d < 3 {
				mfr := fr
				// the map lives in the function that made it
				if mm, ok := x.Args[0].V.(*ssa.MakeMap); ok {
					for f := fr; f != nil; f = f.Parent {
						if f.Fn == mm.Parent() {
							mfr = f
						}
					}
					if mfr.Fn == mm.Parent() {
						_, vs := mapUpdatesOf(tm, mfr, mm)
						for _, v := range vs {
							out = append(out, v)
							rec(v, d+1)
						}
					}
				}
			}
			return true
		})
	}
	out = append(out, t)
	rec(t, depth)
	return out
}

func (c *transferCollector) OnInstr(x *Explorer, fr *Frame, in ssa.Instruction, st uint64) uint64 {
	e := c.w.EffectOf(in)
	if e == nil || (e.Kind != EffTransfer && e.Kind != EffFee) {
		return st
	}
	args := in.(ssa.CallInstruction).Common().Args
	ti := TransferInst{Entry: c.entry, Site: in, Method: e.Method}
	addRoles := func(dst *[]Role, terms []*Term, ctor string) {
		seen := map[string]bool{}
		for _, t := range terms {
			t.Walk(func(y *Term) bool {
				if y.Op == "call" && strings.HasSuffix(y.Name, ctor) && len(y.Args) >= 1 {
					r := roleOf(y.Args[0])
					if !seen[r.String()] {
						seen[r.String()] = true
						*dst = append(*dst, r)
					}
					return false
				}
				return true
			})
		}
		if len(*dst) == 0 {
			*dst = append(*dst, Role{Kind: "Unattributed", Why: "no " + ctor + " found"})
		}
	}
	switch {
	case e.Kind == EffFee && len(args) == 3:
		ti.Amount = x.TM.OperandAt(fr, in, args[1])
		ti.From = x.TM.OperandAt(fr, in, args[2])
		ti.Payers = []Role{roleOf(ti.From)}
		ti.Payees = []Role{{Kind: "CommunityPool"}}
	case e.Method == "SendCoins" && len(args) == 4:
		ti.From, ti.To, ti.Amount = x.TM.OperandAt(fr, in, args[1]), x.TM.OperandAt(fr, in, args[2]), x.TM.OperandAt(fr, in, args[3])
		ti.Payers, ti.Payees = []Role{roleOf(ti.From)}, []Role{roleOf(ti.To)}
	case e.Method == "InputOutputCoins" && len(args) == 3:
		ins := resolveMapReads(x.TM, fr, x.TM.OperandAt(fr, in, args[1]), 0)
		outs := resolveMapReads(x.TM, fr, x.TM.OperandAt(fr, in, args[2]), 0)
		addRoles(&ti.Payers, ins, "bank/types.NewInput")
		addRoles(&ti.Payees, outs, "bank/types.NewOutput")
	default:
		ti.Payers, ti.Payees = []Role{{Kind: "Unattributed", Why: "bank method " + e.Method}}, []Role{{Kind: "Unattributed"}}
	}
	key := fmt.Sprintf("%p|%s", in, ti.pairString())
	c.out[key] = ti
	return st
}

// collectTransfers explores each entry point and returns every transfer instance found.
func collectTransfers(w *World, tm *Terms, entries map[string]*ssa.Function) []TransferInst {
	var all []TransferInst
	rolesTM = tm
	for _, name := range sortedKeys(entries) {
		c := &transferCollector{w: w, entry: name, out: map[string]TransferInst{}}
		x := NewExplorer(w, tm, c)
		x.TrackPhi = true // a transfer whose payee is selected by an earlier branch is described per path
		x.Run(entries[name], 0)
		for _, k := range sortedKeys(c.out) {
			all = append(all, c.out[k])
		}
	}
	sort.SliceStable(all, func(i, j int) bool {
		if all[i].Entry != all[j].Entry {
			return all[i].Entry < all[j].Entry
		}
		return all[i].Site.Pos() < all[j].Site.Pos()
	})
	return all
}

func allEntries(w *World) map[string]*ssa.Function {
	out := map[string]*ssa.Function{"BeginBlock": w.beginBlockFn()}
	for k, f := range w.msgServerMethods() {
		out["Msg."+k] = f
	}
	return out
}

// allowed (payer → payee) pairs per entry point kind.
func allowedPair(entry string, p, q Role) (bool, string) {
	same := p.Auction == "" || q.Auction == "" || p.Auction == q.Auction
	pair := p.Kind + "→" + q.Kind
	switch {
	case strings.HasPrefix(entry, "Msg.Create"):
		return pair == "Signer→SellingEscrow" || pair == "Signer→CommunityPool", "creation credits the new auction's selling escrow and pays the fee"
	case entry == "Msg.PlaceBid" || entry == "Msg.ModifyBid":
		return pair == "Signer→PayingEscrow" || (entry == "Msg.PlaceBid" && pair == "Signer→CommunityPool"), "a bid reserves into the auction's paying escrow and pays the fee"
	case entry == "Msg.CancelAuction":
		return pair == "SellingEscrow→Auctioneer" && same, "cancellation returns the selling escrow to the auctioneer"
	case entry == "BeginBlock":
		switch pair {
		case "SellingEscrow→Bidder", "PayingEscrow→Bidder":
			return true, "settlement"
		case "SellingEscrow→Auctioneer", "PayingEscrow→Auctioneer", "PayingEscrow→VestingEscrow", "VestingEscrow→Auctioneer":
			return same, "settlement within one auction"
		}
		return false, "not a settlement transfer"
	}
	return false, "this entry point performs no transfer"
}
