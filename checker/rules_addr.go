package main

// ADDR-CANON (shared by C05, C07, C19): account addresses are stored as strings and later used as map keys and in
// string comparisons (the allowance map of the matching routine, the per-bidder reservation / refund maps, the
// stored-bids-of-bidder scan). bech32 admits more than one spelling of one account (all upper case), and
// AccAddressFromBech32 accepts it. The structural condition that makes string identity mean account identity:
// every address string the keeper writes into a record is the canonical rendering AccAddress.String() of a parsed
// address (or is carried over from a stored record), never the caller's raw string. Genesis import is a writer too:
// the Bidder strings of the bids and allow-list entries it stores come from the genesis file, whose validation only
// checks that they parse.

import (
	"fmt"
	"go/token"
	"go/types"
	"strings"

	"golang.org/x/tools/go/ssa"
)

var addrStringFields = map[string][]string{
	"Bid": {"Bidder"}, "AllowedBidder": {"Bidder"}, "Auction": {"Auctioneer"}, "VestingQueue": {"Auctioneer"},
}

// isCanonicalAddrString: every alternative of the written string is either canonical (AccAddress.String of a parsed
// address), carried over from a stored record, or of a provenance the terms cannot resolve to an input (a local list
// of records being written back); an alternative that is, or is a field of, a parameter of the operation is the
// caller's raw string.
func isCanonicalAddrString(t *Term) bool {
	n := 0
	for _, a := range t.Alts() {
		switch {
		case a.Op == "call" && strings.HasSuffix(a.Name, sdkPath+".AccAddress.String"):
			n++
		case a.Op == "field" && (fromColl(a, "Bid") || fromColl(a, "Auction") || fromColl(a, "AllowedBidder") || fromColl(a, "VestingQueue")):
			n++ // carried over from a stored record
		case !a.Any(func(x *Term) bool { return x.Op == "param" }):
			n++ // not an input of the operation
		default:
			return false
		}
	}
	return n > 0
}

func checkAddrCanon(w *World, r *Report, tm *Terms) {
	r.Rule("ADDR-CANON", "address strings written into records are canonical (AccAddress.String of a parsed address)", 3)
	// every Set of a record with an address string, in every calling context from the module's API: a helper's record
	// parameter is judged by what its callers pass, an API function's parameter is the caller's raw input
	type verdict struct {
		in      ssa.Instruction
		fn      *ssa.Function
		coll    string
		field   string
		what    string
		bad     []string
		genesis bool
	}
	byKey := map[string]*verdict{}
	var order []string
	sites := tm.sitesWhere(w.apiRoots(), func(fr *Frame, in ssa.Instruction) bool {
		e := w.EffectOf(in)
		if e == nil || e.Kind != EffStoreWrite || e.Method != "Set" {
			return false
		}
		_, ok := addrStringFields[e.Coll]
		return ok && len(in.(ssa.CallInstruction).Common().Args) >= 4
	})
	for _, s := range sites {
		in, fr, fn := s.In, s.Fr, s.Fr.Fn
		e := w.EffectOf(in)
		args := in.(ssa.CallInstruction).Common().Args
		genesis := pkgOf(fn) != nil && pkgOf(fn).Path() == modulePath // genesis import: records come from the genesis file
		if genesis {
			if e.Coll != "Bid" && e.Coll != "AllowedBidder" {
				continue // only the Bidder strings are compared / used as map keys; an auctioneer string is always parsed
			}
			k := fmt.Sprintf("%p", in)
			if byKey[k] == nil {
				v := &verdict{in: in, fn: fn, coll: e.Coll, field: "Bidder", genesis: true}
				if why := genesisBidderCanon(w, fn, in, args[3]); why != "" {
					v.bad = append(v.bad, why)
				}
				byKey[k] = v
				order = append(order, k)
			}
			continue
		}
		val := expandBuiltElem(tm.OperandAt(fr, in, args[3])) // an entry of a list collected earlier in the operation
		if base := stripUpd(val); fromColl(base, e.Coll) || (e.Coll == "Auction" && (storedAuction(base) || base.Op == "param")) {
			continue // a loaded record (or the auction handed to a settlement step) written back
		}
		for _, f := range addrStringFields[e.Coll] {
			k := fmt.Sprintf("%p.%s", in, f)
			v := byKey[k]
			if v == nil {
				v = &verdict{in: in, fn: fn, coll: e.Coll, field: f}
				byKey[k] = v
				order = append(order, k)
			}
			if ft := recordField(val, f, e.Coll == "Auction"); !isCanonicalAddrString(ft) {
				v.bad = append(v.bad, ft.String())
			}
		}
	}
	seen := map[string]int{}
	for _, k := range order {
		v := byKey[k]
		base := fmt.Sprintf("%s:%s.%s", fnName(v.fn), v.coll, v.field)
		seen[base]++
		construct := fmt.Sprintf("%s#%d", base, seen[base])
		if v.genesis {
			r.Check(len(v.bad) == 0, "ADDR-CANON", construct, w.instrPos(v.in),
				fmt.Sprintf("genesis import stores the canonical rendering of every %s.Bidder string that parses", v.coll),
				strings.Join(dedupe(v.bad), "; ")+": genesis validation only checks that the string parses, and bech32 accepts an all-upper-case spelling of the same account; the imported record then never matches the canonical strings used as map keys and in comparisons (allowance map of the matching routine: missing entry ⇒ nil Int ⇒ panic in block processing at the end time)")
			continue
		}
		r.Check(len(v.bad) == 0, "ADDR-CANON", construct, w.instrPos(v.in),
			fmt.Sprintf("the %s string stored in a new %s record is the canonical rendering of a parsed address", v.field, v.coll),
			fmt.Sprintf("%s.%s is written as %s — the caller's raw string. bech32 accepts an all-upper-case spelling of the same account; the record then never matches the canonical strings used as map keys and in comparisons (allowance map of the matching routine: missing entry ⇒ nil Int ⇒ panic in block processing; stored-bids scan: the cumulative cap counts nothing)", v.coll, v.field, strings.Join(dedupe(v.bad), " / ")))
	}
}

func stripUpd(t *Term) *Term {
	for t.Op == "upd" || t.Op == "new" || t.Op == "deref" {
		t = t.Args[0]
	}
	return t
}

// genesisBidderCanon decides ADDR-CANON for a record written by genesis import from a local copy of a genesis-file
// element: on every path on which the element's Bidder string parses, the copy's Bidder has been overwritten with
// AccAddress.String() of that parse before the write (a string that does not parse cannot be another spelling of an
// account, so what is stored on the failure path is immaterial). Returns "" when it holds, else the reason.
func genesisBidderCanon(w *World, fn *ssa.Function, set ssa.Instruction, val ssa.Value) string {
	ld, ok := val.(*ssa.UnOp)
	if !ok {
		return "the stored record is not a local copy of the genesis element"
	}
	alloc, ok := ld.X.(*ssa.Alloc)
	if !ok {
		return "the stored record is not a local copy of the genesis element"
	}
	isBidderAddr := func(v ssa.Value) bool {
		fa, ok := v.(*ssa.FieldAddr)
		if !ok || fa.X != ssa.Value(alloc) {
			return false
		}
		st, ok := deref(fa.X.Type()).Underlying().(*types.Struct)
		return ok && st.Field(fa.Field).Name() == "Bidder"
	}
	var stores []*ssa.Store
	for _, b := range fn.Blocks {
		for _, in := range b.Instrs {
			if s, ok := in.(*ssa.Store); ok && isBidderAddr(s.Addr) {
				stores = append(stores, s)
			}
		}
	}
	if len(stores) == 0 {
		return "the Bidder string of the genesis element is stored as it stands in the file"
	}
	var parse *ssa.Call
	for _, s := range stores {
		c, ok := s.Val.(*ssa.Call)
		if !ok || callKey(&c.Call) != sdkPath+".AccAddress.String" || len(c.Call.Args) != 1 {
			return "Bidder is overwritten with something other than AccAddress.String() at " + w.instrPos(s)
		}
		ex, ok := c.Call.Args[0].(*ssa.Extract)
		if !ok || ex.Index != 0 {
			return "the canonical string is not taken from a parsed address at " + w.instrPos(s)
		}
		pc, ok := ex.Tuple.(*ssa.Call)
		if !ok || callKey(&pc.Call) != sdkPath+".AccAddressFromBech32" {
			return "the canonical string is not taken from AccAddressFromBech32 at " + w.instrPos(s)
		}
		if l, ok := pc.Call.Args[0].(*ssa.UnOp); !ok || !isBidderAddr(l.X) {
			return "the parsed string is not the element's own Bidder at " + w.instrPos(pc)
		}
		if parse != nil && parse != pc {
			return "Bidder is overwritten from more than one parse"
		}
		parse = pc
	}
	if !instrDominates(parse, set) {
		return "the write can be reached without parsing the Bidder string"
	}
	// the successor taken when the parse succeeded
	var succ *ssa.BasicBlock
	for _, b := range fn.Blocks {
		iff, ok := b.Instrs[len(b.Instrs)-1].(*ssa.If)
		if !ok {
			continue
		}
		bo, ok := iff.Cond.(*ssa.BinOp)
		if !ok {
			continue
		}
		isErr := func(v ssa.Value) bool {
			ex, ok := v.(*ssa.Extract)
			return ok && ex.Tuple == ssa.Value(parse) && ex.Index == 1
		}
		isNil := func(v ssa.Value) bool { c, ok := v.(*ssa.Const); return ok && c.IsNil() }
		if !(isErr(bo.X) && isNil(bo.Y)) && !(isErr(bo.Y) && isNil(bo.X)) {
			continue
		}
		switch bo.Op {
		case token.EQL:
			succ = b.Succs[0]
		case token.NEQ:
			succ = b.Succs[1]
		}
	}
	if succ == nil {
		return "the parse's error is not tested"
	}
	barrier := map[*ssa.BasicBlock]*ssa.Store{}
	for _, s := range stores {
		barrier[s.Block()] = s
	}
	seen := map[*ssa.BasicBlock]bool{}
	stack := []*ssa.BasicBlock{succ}
	for len(stack) > 0 {
		x := stack[len(stack)-1]
		stack = stack[:len(stack)-1]
		if seen[x] {
			continue
		}
		seen[x] = true
		if s := barrier[x]; s != nil {
			if x == set.Block() && !instrDominates(s, set) {
				return "the record is written before its Bidder is made canonical"
			}
			continue
		}
		if x == set.Block() {
			return "a path on which the Bidder string parses reaches the write without making it canonical"
		}
		stack = append(stack, x.Succs...)
	}
	return ""
}

func deref(t types.Type) types.Type {
	if p, ok := t.Underlying().(*types.Pointer); ok {
		return p.Elem()
	}
	return t
}
