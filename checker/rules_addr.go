package main

// ADDR-CANON (shared by C05, C07, C19): account addresses are stored as strings and later used as map keys and in
// string comparisons (the allowance map of the matching routine, the per-bidder reservation / refund maps, the
// stored-bids-of-bidder scan). bech32 admits more than one spelling of one account (all upper case), and
// AccAddressFromBech32 accepts it. The structural condition that makes string identity mean account identity:
// every address string the keeper writes into a record is the canonical rendering AccAddress.String() of a parsed
// address (or is carried over from a stored record), never the caller's raw string.

import (
	"fmt"
	"go/types"
	"strings"

	"golang.org/x/tools/go/ssa"
)

var addrStringFields = map[string][]string{
	"Bid": {"Bidder"}, "AllowedBidder": {"Bidder"}, "Auction": {"Auctioneer"}, "VestingQueue": {"Auctioneer"},
}

// isCanonicalAddrString: every alternative of the written string is either canonical (AccAddress.String of a parsed
// address), carried over from a stored record, or of a provenance the terms cannot resolve to an input (a local list
// of records being written back); an alternative that is, or is a field of, a parameter of the operation is the
// caller's raw string.
func isCanonicalAddrString(t *Term) bool {
	n := 0
	for _, a := range t.Alts() {
		switch {
		case a.Op == "call" && strings.HasSuffix(a.Name, sdkPath+".AccAddress.String"):
			n++
		case a.Op == "field" && (fromColl(a, "Bid") || fromColl(a, "Auction") || fromColl(a, "AllowedBidder") || fromColl(a, "VestingQueue")):
			n++ // carried over from a stored record
		case !a.Any(func(x *Term) bool { return x.Op == "param" }):
			n++ // not an input of the operation
		default:
			return false
		}
	}
	return n > 0
}

func checkAddrCanon(w *World, r *Report, tm *Terms) {
	r.Rule("ADDR-CANON", "address strings written into records are canonical (AccAddress.String of a parsed address)", 4)
	seen := map[string]int{}
	for _, fn := range w.Funcs {
		if p := pkgOf(fn); p == nil || p.Path() != keeperPath || w.isGenerated(fn) {
			continue
		}
		fr := tm.Root(fn)
		for _, b := range fn.Blocks {
			for _, in := range b.Instrs {
				e := w.EffectOf(in)
				if e == nil || e.Kind != EffStoreWrite || e.Method != "Set" {
					continue
				}
				fields, ok := addrStringFields[e.Coll]
				args := in.(ssa.CallInstruction).Common().Args
				if !ok || len(args) < 4 {
					continue
				}
				val := tm.OperandAt(fr, in, args[3])
				if base := stripUpd(val); fromColl(base, e.Coll) || (e.Coll == "Auction" && (storedAuction(base) || base.Op == "param")) {
					continue // a loaded record (or the auction handed to a settlement step) written back
				}
				for _, f := range fields {
					ft := recordField(val, f, e.Coll == "Auction")
					base := fmt.Sprintf("%s:%s.%s", fnName(fn), e.Coll, f)
					seen[base]++
					construct := fmt.Sprintf("%s#%d", base, seen[base])
					r.Check(isCanonicalAddrString(ft), "ADDR-CANON", construct, w.instrPos(in),
						fmt.Sprintf("the %s string stored in a new %s record is the canonical rendering of a parsed address", f, e.Coll),
						fmt.Sprintf("%s.%s is written as %s — the caller's raw string. bech32 accepts an all-upper-case spelling of the same account; the record then never matches the canonical strings used as map keys and in comparisons (allowance map of the matching routine: missing entry ⇒ nil Int ⇒ panic in block processing; stored-bids scan: the cumulative cap counts nothing)", e.Coll, f, ft.String()))
				}
			}
		}
	}
	_ = types.Typ
}

func stripUpd(t *Term) *Term {
	for t.Op == "upd" || t.Op == "new" || t.Op == "deref" {
		t = t.Args[0]
	}
	return t
}
