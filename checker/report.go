package main

// report.go — E9: obligations, violations, known findings, replay files and
// evidence files.

import (
	"crypto/sha1"
	"encoding/json"
	"fmt"
	"os"
	"path/filepath"
	"sort"
	"strings"
	"time"
)

func verifDir() string {
	if d := os.Getenv("VERIF_DIR"); d != "" {
		return d
	}
	return "/verif"
}

// Obligation is one rule instance that was examined.
type Obligation struct {
	Rule   string `json:"rule"`
	Key    string `json:"key"` // position independent: rule:construct
	Where  string `json:"where,omitempty"`
	What   string `json:"what"`
	OK     bool   `json:"ok"`
	Why    string `json:"why,omitempty"` // diagnosis for a failed obligation
	Note   string `json:"note,omitempty"`
	Status string `json:"status,omitempty"` // "", "known-finding"
}

type Report struct {
	Property string
	Tier     string
	Seed     int64
	Start    time.Time
	W        *World

	Rules       map[string]*RuleStat
	ruleOrder   []string
	Obligations []*Obligation
	Notes       []string
	Explanation string
	NotDecided  string
	Assumptions []string

	// only: when non-nil, rules outside the set are ignored (a property reusing part of another property's check)
	only map[string]bool
	// keep: when non-nil, of the rules in `only` just the obligations it accepts are recorded (a property for which
	// only some instances of the other property's rule are necessary conditions)
	keep func(rule, construct string) bool
}

// SubWhere is Sub restricted to the obligations keep accepts.
func (r *Report) SubWhere(f func(w *World, r *Report), keep func(rule, construct string) bool, rules ...string) {
	saveKeep := r.keep
	if saveKeep != nil {
		outer := saveKeep
		inner := keep
		keep = func(rule, construct string) bool { return outer(rule, construct) && inner(rule, construct) }
	}
	r.keep = keep
	r.Sub(f, rules...)
	r.keep = saveKeep
}

// Sub runs another property's check keeping only the named rules.
func (r *Report) Sub(f func(w *World, r *Report), rules ...string) {
	saveE, saveN, saveA, saveOnly := r.Explanation, r.NotDecided, r.Assumptions, r.only
	inner := map[string]bool{}
	for _, x := range rules {
		if saveOnly == nil || saveOnly[x] {
			inner[x] = true // nested: only what the outer selection also wants
		}
	}
	r.only = inner
	if len(inner) > 0 {
		f(r.W, r)
	}
	r.only = saveOnly
	r.Explanation, r.NotDecided, r.Assumptions = saveE, saveN, saveA
}

type RuleStat struct {
	Name      string `json:"name"`
	Statement string `json:"statement"`
	Instances int    `json:"instances"`
	Failed    int    `json:"failed"`
	Floor     int    `json:"confirmed_floor"`
	// Filtered: instances the rule matched that are not obligations of this property (see Report.SubWhere); they count
	// towards the floor — the anchor was found — but are not part of the verdict
	Filtered int `json:"instances_not_needed_for_this_property,omitempty"`
}

func NewReport(w *World, prop, tier string, seed int64) *Report {
	return &Report{Property: prop, Tier: tier, Seed: seed, Start: time.Now(), W: w, Rules: map[string]*RuleStat{}}
}

// Rule declares a rule with its statement and the confirmed floor of
// instances (vacuity guard).
func (r *Report) Rule(name, statement string, floor int) {
	if r.only != nil && !r.only[name] {
		return
	}
	if _, ok := r.Rules[name]; !ok {
		r.Rules[name] = &RuleStat{Name: name, Statement: statement, Floor: floor}
		r.ruleOrder = append(r.ruleOrder, name)
	}
}

func (r *Report) add(rule, construct, where, what string, ok bool, why string) *Obligation {
	if r.only != nil && !r.only[rule] {
		return &Obligation{Rule: rule, OK: ok}
	}
	if r.keep != nil && !r.keep(rule, construct) {
		if st := r.Rules[rule]; st != nil {
			st.Filtered++
		}
		return &Obligation{Rule: rule, OK: ok}
	}
	st := r.Rules[rule]
	if st == nil {
		fatalf("rule %s used before being declared", rule)
	}
	o := &Obligation{Rule: rule, Key: rule + ":" + construct, Where: where, What: what, OK: ok, Why: why}
	st.Instances++
	if !ok {
		st.Failed++
	}
	r.Obligations = append(r.Obligations, o)
	return o
}

// Pass records a discharged obligation.
func (r *Report) Pass(rule, construct, where, what string) *Obligation {
	return r.add(rule, construct, where, what, true, "")
}

// Fail records a violated obligation.
func (r *Report) Fail(rule, construct, where, what, why string) *Obligation {
	return r.add(rule, construct, where, what, false, why)
}

// Check records pass or fail.
func (r *Report) Check(cond bool, rule, construct, where, what, why string) *Obligation {
	if cond {
		return r.Pass(rule, construct, where, what)
	}
	return r.Fail(rule, construct, where, what, why)
}

func (r *Report) Note(format string, a ...any) {
	if r.only != nil {
		return
	}
	r.Notes = append(r.Notes, fmt.Sprintf(format, a...))
}

// ---------------------------------------------------------------------------
// known findings

type KnownFinding struct {
	Property string `json:"property"`
	Key      string `json:"key"`
	What     string `json:"what"`
	Status   string `json:"status"` // "known" | "fixed"
	Commit   string `json:"commit,omitempty"`
}

type knownFile struct {
	Comment  string         `json:"_comment,omitempty"`
	Findings []KnownFinding `json:"findings"`
}

func loadKnown() []KnownFinding {
	b, err := os.ReadFile(filepath.Join(verifDir(), "known_findings.json"))
	if err != nil {
		if os.IsNotExist(err) {
			return nil
		}
		fatalf("known_findings.json: %v", err)
	}
	var kf knownFile
	if err := json.Unmarshal(b, &kf); err != nil {
		fatalf("known_findings.json: %v", err)
	}
	return kf.Findings
}

// ---------------------------------------------------------------------------
// finishing: print, write replay + evidence, compute exit status

type replayFile struct {
	Property string `json:"property"`
	Rule     string `json:"rule"`
	Key      string `json:"key"`
	Where    string `json:"where"`
	What     string `json:"what"`
	Why      string `json:"why"`
	Replay   string `json:"how_to_replay"`
}

// Extra holds thorough-tier additions to the evidence (tag variant, positive controls).
var evidenceExtra = map[string]any{}

func controlMode() bool { return os.Getenv("VERIF_CONTROL") == "1" }

func (r *Report) Finish() int {
	if controlMode() {
		return r.finishControl()
	}
	known := map[string]KnownFinding{}
	for _, k := range loadKnown() {
		if k.Property == r.Property && k.Status == "known" {
			known[k.Key] = k
		}
	}
	// vacuity guard: a rule that lost its anchors gives no verdict — unless other obligations are violated, which are reported first
	anyFail := false
	for _, o := range r.Obligations {
		if !o.OK {
			anyFail = true
		}
	}
	for _, name := range r.ruleOrder {
		st := r.Rules[name]
		if st.Instances+st.Filtered < st.Floor {
			msg := fmt.Sprintf("rule %s matched %d instance(s), below the confirmed floor %d: the rule would pass vacuously (anchor lost?)", name, st.Instances+st.Filtered, st.Floor)
			if !anyFail {
				fatalf("%s", msg)
			}
			fmt.Println("NOTE: " + msg)
		}
	}
	sort.SliceStable(r.Obligations, func(i, j int) bool {
		a, b := r.Obligations[i], r.Obligations[j]
		if a.OK != b.OK {
			return !a.OK
		}
		return false
	})
	viol := 0
	seenKey := map[string]bool{}
	os.MkdirAll(filepath.Join(verifDir(), "replays"), 0o755)
	for _, o := range r.Obligations {
		if o.OK {
			continue
		}
		if k, ok := known[o.Key]; ok {
			o.Status = "known-finding"
			if !seenKey[o.Key] {
				fmt.Printf("KNOWN-FINDING: property=%s %s — %s [%s at %s]\n", r.Property, k.What, o.Why, o.Key, o.Where)
			}
			seenKey[o.Key] = true
			continue
		}
		viol++
		h := sha1.Sum([]byte(o.Key))
		path := filepath.Join(verifDir(), "replays", fmt.Sprintf("%s-%x.json", r.Property, h[:5]))
		rf := replayFile{Property: r.Property, Rule: o.Rule, Key: o.Key, Where: o.Where, What: o.What, Why: o.Why,
			Replay: fmt.Sprintf("cd %s && ./run --replay %s   (re-runs property %s on /repo's current tree and prints the obligations whose key is %q)", verifDir(), path, r.Property, o.Key)}
		b, _ := json.MarshalIndent(rf, "", "  ")
		if err := os.WriteFile(path, b, 0o644); err != nil {
			fatalf("write replay: %v", err)
		}
		fmt.Printf("VIOLATION property=%s replay=%s\n", r.Property, path)
		fmt.Printf("  %s  rule=%s  instance=%s\n  obligation: %s\n  why: %s\n", o.Where, o.Rule, o.Key, o.What, o.Why)
	}
	r.writeEvidence(viol)
	total, disch := 0, 0
	for _, o := range r.Obligations {
		total++
		if o.OK {
			disch++
		}
	}
	var rs []string
	for _, name := range r.ruleOrder {
		st := r.Rules[name]
		rs = append(rs, fmt.Sprintf("%s=%d/%d", name, st.Instances-st.Failed, st.Instances))
	}
	fmt.Printf("%s %s: %d obligations, %d discharged, %d violation(s), %d known finding(s); rules: %s; %.1fs\n",
		r.Property, r.Tier, total, disch, viol, len(seenKey), strings.Join(rs, " "), time.Since(r.Start).Seconds())
	if viol > 0 {
		return 1
	}
	return 0
}

// finishControl: the run is a positive control / variant of another run: print keys only, write nothing.
func (r *Report) finishControl() int {
	known := map[string]bool{}
	for _, k := range loadKnown() {
		if k.Property == r.Property && k.Status == "known" {
			known[k.Key] = true
		}
	}
	n := 0
	for _, o := range r.Obligations {
		if !o.OK && !known[o.Key] {
			n++
			fmt.Printf("CONTROL-VIOLATION %s | %s | %s\n", o.Key, o.Where, o.Why)
		}
	}
	fmt.Printf("CONTROL-SUMMARY obligations=%d violations=%d\n", len(r.Obligations), n)
	if n > 0 {
		return 1
	}
	// the vacuity guard of the real run: a rule below its confirmed floor gives no verdict (exit 2)
	for _, name := range r.ruleOrder {
		if st := r.Rules[name]; st.Instances+st.Filtered < st.Floor {
			fatalf("rule %s matched %d instance(s), below the confirmed floor %d: the rule would pass vacuously (anchor lost?)", name, st.Instances+st.Filtered, st.Floor)
		}
	}
	return 0
}

func (r *Report) writeEvidence(viol int) {
	total, disch := 0, 0
	var samples []any
	for _, o := range r.Obligations {
		total++
		if o.OK {
			disch++
		}
		samples = append(samples, o)
	}
	var rules []any
	for _, name := range r.ruleOrder {
		rules = append(rules, r.Rules[name])
	}
	if r.Assumptions == nil {
		r.Assumptions = []string{}
	}
	if r.Notes == nil {
		r.Notes = []string{}
	}
	var pk []string
	for p := range r.W.Repo {
		pk = append(pk, p)
	}
	sort.Strings(pk)
	ev := map[string]any{
		"property_id": r.Property,
		"tier":        r.Tier,
		"seed":        r.Seed,
		"level":       "other",
		"coverage": map[string]any{
			"explanation": r.Explanation + " NOT DECIDED: " + r.NotDecided,
			"obligations": total,
			"discharged":  disch,
			"rules":       rules,
			"samples":     samples,
			"notes":       r.Notes,
			"checker_cmd": fmt.Sprintf("./run %s %s", r.Property, r.Tier),
			"trusted_base": []string{
				"go/packages + go/types + go/ssa (golang.org/x/tools v0.29.0) resolve the program as the compiler does",
				"semantics of cosmossdk.io/collections, x/bank, x/distribution and SDK message atomicity (dependency calls are atoms)",
			},
			"analysed": map[string]any{
				"repo_dir":              r.W.RepoDir,
				"packages_in_closure":   len(r.W.All),
				"repository_packages":   pk,
				"functions_with_bodies": len(r.W.Funcs),
			},
			"exhaustive": true,
		},
		"assumptions": r.Assumptions,
		"wall_s":      time.Since(r.Start).Seconds(),
		"violations":  viol,
	}
	for k, v := range evidenceExtra {
		ev["coverage"].(map[string]any)[k] = v
	}
	b, err := json.MarshalIndent(ev, "", " ")
	if err != nil {
		fatalf("evidence: %v", err)
	}
	dir := filepath.Join(verifDir(), "evidence")
	os.MkdirAll(dir, 0o755)
	if err := os.WriteFile(filepath.Join(dir, r.Property+".json"), b, 0o644); err != nil {
		fatalf("evidence: %v", err)
	}
}
