package main

// C03 — clearing price = lowest bid price whose capped demand fits supply (structural part).
//   MONO-SEARCH   a binary search for the clearing price has a predicate that is false only when demand exceeds supply
//   SEARCH-DIR    the search runs from the lowest price upwards
//   CAP-MIN       every quantity accumulated into matched amounts is min(request, remaining allowance)   (shared with C05)
//   SUPPLY-GUARD  the accumulation is unreachable when total + quantity exceeds the supply               (shared with C05)

import (
	"fmt"
	"go/token"
	"os"
	"sort"
	"strconv"
	"strings"

	"golang.org/x/tools/go/ssa"
)

func init() { register("C03", checkC03) }

var intCmp = map[string]token.Token{
	mathPath + ".Int.GT": token.GTR, mathPath + ".Int.GTE": token.GEQ, mathPath + ".Int.LT": token.LSS, mathPath + ".Int.LTE": token.LEQ, mathPath + ".Int.Equal": token.EQL,
	mathPath + ".LegacyDec.GT": token.GTR, mathPath + ".LegacyDec.GTE": token.GEQ, mathPath + ".LegacyDec.LT": token.LSS, mathPath + ".LegacyDec.LTE": token.LEQ, mathPath + ".LegacyDec.Equal": token.EQL,
	sdkPath + ".Coin.IsGTE": token.GEQ, sdkPath + ".Coin.IsLT": token.LSS, sdkPath + ".Coin.IsLTE": token.LEQ, sdkPath + ".Coin.IsEqual": token.EQL, sdkPath + ".Coin.IsGT": token.GTR,
	"time.Time.After": token.GTR, "time.Time.Before": token.LSS, "time.Time.Equal": token.EQL,
	// three-way comparisons: the result is the ordering itself (-1, 0, +1)
	"time.Time.Compare": opThreeWay, mathPath + ".LegacyDec.Cmp": opThreeWay,
}

// pseudo operators for three-way comparison methods
const (
	opThreeWay     = token.REM
	opThreeWayFlip = token.QUO
)

// ordering of (A ? B): -1 A<B, 0 A=B, 1 A>B
func cmpUnder(op token.Token, ord int) AV {
	switch op {
	case token.GTR:
		return Bool(ord > 0)
	case token.GEQ:
		return Bool(ord >= 0)
	case token.LSS:
		return Bool(ord < 0)
	case token.LEQ:
		return Bool(ord <= 0)
	case token.EQL:
		return Bool(ord == 0)
	case token.NEQ:
		return Bool(ord != 0)
	case opThreeWay:
		return Int(int64(ord))
	case opThreeWayFlip:
		return Int(int64(-ord))
	}
	return Unknown
}

func flipOp(op token.Token) token.Token {
	switch op {
	case token.GTR:
		return token.LSS
	case token.GEQ:
		return token.LEQ
	case token.LSS:
		return token.GTR
	case token.LEQ:
		return token.GEQ
	case opThreeWay:
		return opThreeWayFlip
	case opThreeWayFlip:
		return opThreeWay
	}
	return op
}

// ordRule fixes the ordering of tracked operand pairs: pairs[i] decides whether
// (l,r) is the i-th tracked pair (1), the reversed pair (-1) or neither (0).
type ordPair struct {
	match func(x *Explorer, fr *Frame, l, r *Term) int
	ord   int
}

type ordRule struct {
	reachRule
	pairs []ordPair
}

func (o *ordRule) decide(x *Explorer, fr *Frame, op token.Token, l, r ssa.Value) AV {
	lt, rt := x.TM.Of(fr, l), x.TM.Of(fr, r)
	for _, p := range o.pairs {
		switch p.match(x, fr, lt, rt) {
		case 1:
			return cmpUnder(op, p.ord)
		case -1:
			return cmpUnder(flipOp(op), p.ord)
		}
	}
	return Unknown
}

func (o *ordRule) CallResult(x *Explorer, fr *Frame, c ssa.CallInstruction) ([]AV, CallMode) {
	cc := c.Common()
	if op, ok := intCmp[callKey(cc)]; ok && len(cc.Args) == 2 {
		if v := o.decide(x, fr, op, cc.Args[0], cc.Args[1]); v.K != avUnknown {
			return []AV{v}, CallReplace
		}
	}
	return o.reachRule.CallResult(x, fr, c)
}

// OnInstr marks (bit 0) that a comparison of a tracked pair was evaluated on the path.
func (o *ordRule) OnInstr(x *Explorer, fr *Frame, in ssa.Instruction, st uint64) uint64 {
	if c, ok := in.(*ssa.Call); ok {
		if op, isCmp := intCmp[callKey(&c.Call)]; isCmp && len(c.Call.Args) == 2 {
			if v := o.decide(x, fr, op, c.Call.Args[0], c.Call.Args[1]); v.K != avUnknown {
				st |= 1
			}
		}
	}
	return o.reachRule.OnInstr(x, fr, in, st)
}

func (o *ordRule) Compare(x *Explorer, fr *Frame, op token.Token, l, r ssa.Value) AV {
	if v := o.decide(x, fr, op, l, r); v.K != avUnknown {
		return v
	}
	return o.reachRule.Compare(x, fr, op, l, r)
}

func newOrdRule(w *World, want func(e *Effect) bool, pairs ...ordPair) *ordRule {
	return &ordRule{reachRule: reachRule{w: w, want: want, reached: map[ssa.Instruction]bool{}}, pairs: pairs}
}

// isSupply: the term is the auction's offered amount (SellingCoin.Amount) — directly or through parameters / captured variables.
func isSupply(t *Term) bool {
	ok := false
	for _, a := range t.Alts() {
		x := a
		for x.Op == "cell" || x.Op == "deref" {
			x = x.Args[0]
		}
		good := false
		for _, y := range x.Alts() {
			if isField(y, "Amount") && isField(y.Args[0], "SellingCoin") {
				good = true
			} else {
				return false
			}
		}
		if !good {
			return false
		}
		ok = true
	}
	return ok
}

// demandVsSupply matches (anything, supply).
func demandVsSupply(x *Explorer, fr *Frame, l, r *Term) int {
	switch {
	case isSupply(r) && !isSupply(l):
		return 1
	case isSupply(l) && !isSupply(r):
		return -1
	}
	return 0
}

// settlementTree: functions reachable from the block hook.
func settlementTree(w *World) map[*ssa.Function]bool { return w.reachableFrom(w.beginBlockFn()) }

func checkC03(w *World, r *Report) {
	r.Explanation = "Decides structural necessary conditions of the clearing-price rule: (MONO-SEARCH) every sort.Search in the settlement call tree has a predicate that, evaluated abstractly with 'accumulated demand never exceeds the supply', can only return true, and with 'demand exceeds the supply' can only return false — so the predicate is the monotone 'capped demand fits' and binary search finds the lowest qualifying price; a predicate that is also false when nothing positive matched (a dust bid at a high price) makes the search miss a qualifying lower price; (SEARCH-DIR) the index of the search maps to ascending price order; (CAP-MIN) every quantity added to a matched amount is math.MinInt(request, remaining allowance) where the allowance map is seeded from the allow-list's MaxBidAmount per bidder and decremented by exactly the matched quantity; (SUPPLY-GUARD) the accumulation is unreachable when total+quantity > supply, and the guarded quantity is the accumulated one."
	r.NotDecided = "that the matching arithmetic equals the stated demand function for all order books; ties; the allocation amounts themselves; zero-demand handling as numbers."
	r.Rule("MONO-SEARCH", "binary-search predicate is false only when demand exceeds supply", 2)
	r.Rule("SEARCH-DIR", "the search runs over prices in ascending order", 1)
	r.Rule("CAP-MIN", "accumulated quantity = min(request, remaining allowance)", 1)
	r.Rule("SUPPLY-GUARD", "accumulation unreachable when total + quantity > supply", 1)
	tm := NewTerms(w)
	tree := settlementTree(w)
	checkMonoSearch(w, r, tm, tree)
	checkCapMin(w, r, tm, tree)
	checkSupplyGuard(w, r, tm, tree, false)
	// the clearing price that was computed is the one the auction record keeps (it is what users and queries see)
	r.Sub(checkC16, "PUB-PRICE")
	// a bidder's demand at a price is floor(amount/price): rounded otherwise, a qualifying price is rejected (or a
	// non-qualifying one taken)
	r.SubWhere(checkC04, func(_, c string) bool {
		return strings.Contains(c, ":quantity") && !strings.Contains(c, "ConvertToSellingAmount")
	}, "RD-DIR")
	// the cap that limits a bidder's demand is found by the bidder string: the allow-list entry and the bid spell it alike
	checkAddrCanon(w, r, tm)
	// the allowances that cap the demand are those of the auction being settled
	r.SubWhere(checkC19, keepAny(":AllowedBidder:", ":Bid:"), "PREFIX-RANGE")
}

func checkMonoSearch(w *World, r *Report, tm *Terms, tree map[*ssa.Function]bool) {
	n := 0
	for _, fn := range sortedFns(tree) {
		for _, b := range fn.Blocks {
			for _, in := range b.Instrs {
				c, ok := in.(ssa.CallInstruction)
				if !ok || callKey(c.Common()) != "sort.Search" || len(c.Common().Args) != 2 {
					continue
				}
				n++
				construct := fmt.Sprintf("%s:sort.Search#%d", fnName(fn), occurrence(fn, c))
				mc, ok := c.Common().Args[1].(*ssa.MakeClosure)
				if !ok {
					r.Fail("MONO-SEARCH", construct, w.instrPos(in), "the search predicate is a closure of the function", "predicate is not a function literal: cannot be analysed")
					continue
				}
				pred := mc.Fn.(*ssa.Function)
				for _, ord := range []int{-1, 1} {
					rule := newOrdRule(w, func(*Effect) bool { return false }, ordPair{match: demandVsSupply, ord: ord})
					x := NewExplorer(w, tm, rule)
					got := map[string]bool{}
					for _, o := range x.Run(pred, 0) {
						if o.Kind == ExitReturn && len(o.Rets) == 1 {
							if ord > 0 && o.St&1 == 0 {
								continue // no demand/supply comparison on this path (no bid at or above the probed price)
							}
							got[o.Rets[0].String()] = true
						}
					}
					var gl []string
					for k := range got {
						gl = append(gl, k)
					}
					sort.Strings(gl)
					if ord < 0 {
						r.Check(len(got) == 1 && got["true"], "MONO-SEARCH", construct+":fits", w.instrPos(in),
							"whenever the accumulated demand never exceeds the supply at the probed price, the predicate is true",
							fmt.Sprintf("the predicate can return %v although demand fits: it also depends on something that is not monotone in the price (e.g. 'something positive matched'), so sort.Search may skip a qualifying lower price — witness: bids {worth 5 @ 10, quantity 100 @ 5}, supply 1000: probing 10 gives false (dust converts to 0), the search never probes 5", gl))
					} else {
						r.Check(len(got) == 1 && got["false"], "MONO-SEARCH", construct+":exceeds", w.instrPos(in),
							"whenever the accumulated demand exceeds the supply at the probed price, the predicate is false",
							fmt.Sprintf("the predicate can return %v although demand exceeds the supply", gl))
					}
				}
				checkSearchDir(w, r, tm, fn, c, pred, construct)
			}
		}
	}
	if n == 0 {
		r.Note("no sort.Search in the settlement call tree: MONO-SEARCH is vacuous (a linear scan has no monotonicity requirement)")
		r.Rules["MONO-SEARCH"].Floor = 0
		r.Rules["SEARCH-DIR"].Floor = 0
	}
}

// checkSearchDir: the price handed to the matching routine is P[(len(P)-1)-i] with P sorted descending, or P[i] with P ascending.
func checkSearchDir(w *World, r *Report, tm *Terms, fn *ssa.Function, search ssa.CallInstruction, pred *ssa.Function, construct string) {
	fr := tm.Root(pred)
	// find element reads of LegacyDec slices indexed by something derived from the predicate's parameter
	var dir string
	var priceList *Term
	for _, b := range pred.Blocks {
		for _, in := range b.Instrs {
			u, ok := in.(*ssa.UnOp)
			if !ok || u.Op != token.MUL {
				continue
			}
			ia, ok := u.X.(*ssa.IndexAddr)
			if !ok || !isNamed(u.Type(), mathPath, "LegacyDec") {
				continue
			}
			it := tm.Of(fr, ia.Index)
			base := tm.Of(fr, ia.X)
			param := pred.Params[0].Name()
			// the index as a linear form a·i + b·len(list) + c, however it is spelled
			if a, bl, c, ok := linearIndex(it, param, base); ok {
				switch {
				case a == 1 && bl == 0 && c == 0:
					dir, priceList = "direct", base
				case a == -1 && bl == 1 && c == -1:
					dir, priceList = "reversed", base
				}
			}
		}
	}
	// the SSA for `i = (len(prices)-1) - i` rebinding the parameter gives a BinOp used directly as index: handled above
	if dir == "" {
		r.Fail("SEARCH-DIR", construct+":dir", w.instrPos(search), "the probed price is an element of the sorted price list indexed by the search index",
			"cannot relate the probed price to the search index")
		return
	}
	// how is the price list sorted? find the producing function's sort call comparator
	order := ""
	if os.Getenv("VERIF_DEBUG") == "searchdir" {
		fmt.Fprintln(os.Stderr, "SEARCH-DIR priceList", priceList.String())
	}
	priceList.Walk(func(t *Term) bool {
		if t.Op == "call" {
			if c, ok := t.V.(*ssa.Call); ok {
				if f := w.calleeBody(&c.Call); f != nil {
					// the producing function or a helper it calls sorts the list
					for _, g := range sortedFns(w.reachableFrom(f)) {
						if o := sortOrderOfDecSlice(w, tm, g); o != "" {
							order = o
						}
					}
				}
			}
		}
		// the list as the producing function built it (its body inlined into the term): the function that made it
		if order == "" {
			if in, isInstr := t.V.(ssa.Instruction); isInstr && (t.Op == "makeslice" || t.Op == "builtin") && in.Parent() != nil {
				for _, g := range sortedFns(w.reachableFrom(in.Parent())) {
					if g == fn || g == pred {
						continue
					}
					if o := sortOrderOfDecSlice(w, tm, g); o != "" {
						order = o
					}
				}
			}
		}
		return true
	})
	ok := (dir == "reversed" && order == "descending") || (dir == "direct" && order == "ascending")
	r.Check(ok, "SEARCH-DIR", construct+":dir", w.instrPos(search),
		"the search index maps to ascending prices (so the first true is the lowest qualifying price)",
		fmt.Sprintf("index mapping is %q over a price list sorted %q: the first index for which the predicate holds is not the lowest price", dir, order))
}

func uncell(t *Term) *Term {
	for t.Op == "cell" && len(t.Args) == 1 {
		t = t.Args[0]
	}
	return t
}

// linearIndex: t = a·param + b·len(list) + c over integer +/- (ok=false for anything else).
func linearIndex(t *Term, param string, list *Term) (a, b, c int64, ok bool) {
	switch {
	case t.Op == "param" && t.Name == param:
		return 1, 0, 0, true
	case t.Op == "const":
		if n, err := strconv.ParseInt(t.Name, 10, 64); err == nil {
			return 0, 0, n, true
		}
	case t.Op == "cell" && len(t.Args) == 1: // a variable captured by the closure: its content
		return linearIndex(t.Args[0], param, list)
	case t.Op == "builtin" && t.Name == "len" && len(t.Args) == 1 && uncell(t.Args[0]).Key() == uncell(list).Key():
		return 0, 1, 0, true
	case t.Op == "binop" && (t.Name == "+" || t.Name == "-") && len(t.Args) == 2:
		a1, b1, c1, ok1 := linearIndex(t.Args[0], param, list)
		a2, b2, c2, ok2 := linearIndex(t.Args[1], param, list)
		if ok1 && ok2 {
			if t.Name == "+" {
				return a1 + a2, b1 + b2, c1 + c2, true
			}
			return a1 - a2, b1 - b2, c1 - c2, true
		}
	case t.Op == "call" && len(t.Args) == 1 && (strings.HasSuffix(t.Name, "convert") || t.Name == "convert"):
		return linearIndex(t.Args[0], param, list)
	}
	return 0, 0, 0, false
}

// sortOrderOfDecSlice: fn sorts a []LegacyDec with sort.Slice and a comparator s[i].GT(s[j]) (descending) or LT (ascending).
func sortOrderOfDecSlice(w *World, tm *Terms, fn *ssa.Function) string {
	for _, b := range fn.Blocks {
		for _, in := range b.Instrs {
			c, ok := in.(ssa.CallInstruction)
			if !ok || !strings.HasPrefix(callKey(c.Common()), "sort.Slice") || len(c.Common().Args) != 2 {
				continue
			}
			mc, ok := c.Common().Args[1].(*ssa.MakeClosure)
			if !ok {
				continue
			}
			less := mc.Fn.(*ssa.Function)
			lfr := tm.Root(less)
			for _, lb := range less.Blocks {
				ret, ok := lb.Instrs[len(lb.Instrs)-1].(*ssa.Return)
				if !ok || len(ret.Results) != 1 {
					continue
				}
				t := tm.Of(lfr, ret.Results[0])
				if t.Op != "call" || len(t.Args) != 2 {
					continue
				}
				a0, a1 := t.Args[0], t.Args[1]
				if !(a0.Op == "elem" && a1.Op == "elem" && len(a0.Args) == 2 && len(a1.Args) == 2) {
					continue
				}
				if !isNamed(a0.V.Type(), mathPath, "LegacyDec") {
					continue
				}
				isPar := func(x *Term, k int) bool { return x.Op == "param" && x.V == ssa.Value(less.Params[k]) }
				iFirst := isPar(a0.Args[1], 0) && isPar(a1.Args[1], 1)
				jFirst := isPar(a0.Args[1], 1) && isPar(a1.Args[1], 0)
				if !iFirst && !jFirst {
					continue
				}
				// less(i, j) = s[i] > s[j]  (or, re-spelled, s[j] < s[i]): descending; the mirror images: ascending
				gt := strings.HasSuffix(t.Name, ".LegacyDec.GT")
				lt := strings.HasSuffix(t.Name, ".LegacyDec.LT")
				switch {
				case (gt && iFirst) || (lt && jFirst):
					return "descending"
				case (lt && iFirst) || (gt && jFirst):
					return "ascending"
				}
			}
		}
	}
	return ""
}

// ---------------------------------------------------------------- CAP-MIN / SUPPLY-GUARD

// accumulation sites: stores to a field named MatchedAmount (of the matching result structs) in the settlement tree
type accSite struct {
	fn    *ssa.Function
	st    *ssa.Store
	added ssa.Value // the quantity operand of the Add
}

func accumulationSites(w *World, tree map[*ssa.Function]bool) []accSite {
	var out []accSite
	for _, fn := range sortedFns(tree) {
		for _, b := range fn.Blocks {
			for _, in := range b.Instrs {
				st, ok := in.(*ssa.Store)
				if !ok {
					continue
				}
				fa, ok := st.Addr.(*ssa.FieldAddr)
				if !ok {
					continue
				}
				s := structOf(fa.X.Type())
				if s == nil || s.Field(fa.Field).Name() != "MatchedAmount" {
					continue
				}
				call, ok := st.Val.(*ssa.Call)
				if !ok || callKey(&call.Call) != mathPath+".Int.Add" || len(call.Call.Args) != 2 {
					continue // initialisation (ZeroInt), not an accumulation
				}
				out = append(out, accSite{fn: fn, st: st, added: call.Call.Args[1]})
			}
		}
	}
	return out
}

func checkCapMin(w *World, r *Report, tm *Terms, tree map[*ssa.Function]bool) {
	sites := accumulationSites(w, tree)
	for i, s := range sites {
		fr := tm.Root(s.fn)
		construct := fmt.Sprintf("%s:MatchedAmount+=#%d", fnName(s.fn), i+1)
		t := tm.Of(fr, s.added)
		what := "the quantity added to a matched amount is math.MinInt(request, remaining allowance of the bid's bidder)"
		if !(t.Op == "call" && t.Name == mathPath+".MinInt" && len(t.Args) == 2) {
			r.Fail("CAP-MIN", construct, w.instrPos(s.st), what, "the quantity is "+t.String()+": the bidder's allowance does not cap it")
			continue
		}
		// one operand is a lookup in the allowance map keyed by the bid's bidder
		// the allowance operand: allowance[bidder], or that with "absent ⇒ zero" (comma-ok form with a zero default)
		var capT, reqT, capOperand *Term
		for j, a := range t.Args {
			var lk *Term
			okAlts := true
			for _, alt := range a.Alts() {
				alt = uncell(alt)
				switch {
				case alt.Op == "lookup" && len(alt.Args) == 2 && uncell(alt.Args[0]).Op == "makemap":
					lk = alt
				case alt.Op == "call" && strings.HasSuffix(alt.Name, ".ZeroInt"):
				default:
					okAlts = false
				}
			}
			if okAlts && lk != nil {
				capT, reqT, capOperand = lk, t.Args[1-j], a
			}
		}
		if capT == nil {
			r.Fail("CAP-MIN", construct, w.instrPos(s.st), what, "neither operand of MinInt is the per-bidder allowance lookup: "+t.String())
			continue
		}
		keyOK := isField(capT.Args[1], "Bidder")
		// the allowance map: seeded with MaxBidAmount under the allowed bidder's Bidder, decremented by the same quantity
		ks, vs := mapUpdatesOf(tm, fr, capT.Args[0].V)
		seeded, decOK, other := false, false, ""
		for k := range ks {
			v := vs[k]
			switch {
			case isField(v, "MaxBidAmount") && isField(ks[k], "Bidder") && v.Args[0].Key() == ks[k].Args[0].Key():
				seeded = true
			case v.Op == "call" && v.Name == mathPath+".Int.Sub" && len(v.Args) == 2 && v.Args[1].Key() == t.Key() &&
				((v.Args[0].Op == "lookup" && v.Args[0].Args[0].Key() == capT.Args[0].Key()) || v.Args[0].Key() == capOperand.Key()) && ks[k].Key() == capT.Args[1].Key():
				decOK = true
			default:
				other = fmt.Sprintf("allowance map updated with %s under key %s", v.String(), ks[k].String())
			}
		}
		ok := keyOK && seeded && decOK && other == ""
		why := ""
		switch {
		case !keyOK:
			why = "the allowance is looked up under " + capT.Args[1].String() + ", not under the bid's bidder"
		case !seeded:
			why = "the allowance map is not seeded with each allowed bidder's MaxBidAmount under that bidder"
		case !decOK:
			why = "the remaining allowance is not decremented by exactly the matched quantity: several bids of one bidder can each use the full allowance"
		case other != "":
			why = other
		}
		_ = reqT
		r.Check(ok, "CAP-MIN", construct, w.instrPos(s.st), what, why)
	}
	if len(sites) == 0 {
		r.Fail("CAP-MIN", "anchor", "", "the matching routine accumulates matched amounts", "no accumulation into a MatchedAmount field found in the settlement tree")
	}
	// the decrement and the accumulation happen under the same condition as each other (one block or same dominating branch) — checked by SUPPLY-GUARD's reachability
}

// upperBoundOK: for "nobody gets more than the supply" (C05) a guard on a quantity that is certainly not smaller than
// the accumulated one is enough (the accumulated is MinInt(guarded, ·)); for the clearing price (C03) the guard must be
// on the accumulated quantity itself, or qualifying prices are rejected.
func checkSupplyGuard(w *World, r *Report, tm *Terms, tree map[*ssa.Function]bool, upperBoundOK bool) {
	sites := accumulationSites(w, tree)
	byFn := map[*ssa.Function][]accSite{}
	for _, s := range sites {
		byFn[s.fn] = append(byFn[s.fn], s)
	}
	for _, fn := range sortedFns(tree) {
		ss := byFn[fn]
		if len(ss) == 0 {
			continue
		}
		// the guard: a comparison against the supply whose left operand is Add(total, q) with q the accumulated quantity
		guardQ := map[ssa.Value]bool{}
		supplyParams := map[*ssa.Parameter]bool{}
		isMatchedAmountLoad := func(v ssa.Value) bool {
			u, ok := v.(*ssa.UnOp)
			if !ok || u.Op != token.MUL {
				return false
			}
			fa, ok := u.X.(*ssa.FieldAddr)
			if !ok {
				return false
			}
			st := structOf(fa.X.Type())
			return st != nil && st.Field(fa.Field).Name() == "MatchedAmount"
		}
		for _, b := range fn.Blocks {
			for _, in := range b.Instrs {
				c, ok := in.(*ssa.Call)
				if !ok {
					continue
				}
				if _, isCmp := intCmp[callKey(&c.Call)]; !isCmp || len(c.Call.Args) != 2 {
					continue
				}
				// total.Add(q) compared with the supply parameter, in either operand order
				for _, o := range [][2]int{{0, 1}, {1, 0}} {
					sp, isParam := c.Call.Args[o[1]].(*ssa.Parameter)
					if !isParam {
						continue
					}
					if add, ok := c.Call.Args[o[0]].(*ssa.Call); ok && callKey(&add.Call) == mathPath+".Int.Add" && len(add.Call.Args) == 2 && isMatchedAmountLoad(add.Call.Args[0]) {
						guardQ[add.Call.Args[1]] = true
						supplyParams[sp] = true
					}
				}
			}
		}
		// SUPPLY-SRC: what every caller passes as the supply is the auction's offered amount
		for p := range supplyParams {
			idx := -1
			for i, q := range fn.Params {
				if q == p {
					idx = i
				}
			}
			var bad []string
			sites := 0
			for _, cs := range w.callSitesOf(fn) {
				if !tree[cs.Parent()] && (cs.Parent().Parent() == nil || !tree[cs.Parent().Parent()]) {
					continue
				}
				sites++
				at := tm.OperandAt(tm.Root(cs.Parent()), cs, cs.Common().Args[idx])
				if !isSupply(at) {
					bad = append(bad, fmt.Sprintf("%s passes %s", w.instrPos(cs), at.String()))
				}
			}
			r.Check(len(bad) == 0 && sites > 0, "SUPPLY-GUARD", fnName(fn)+":supply-is-offered-amount", w.pos(fn.Pos()),
				"the supply the matching is bounded by is the auction's offered amount (SellingCoin.Amount) at every call site",
				strings.Join(bad, "; ")+": the bound is something other than what the auctioneer offered (e.g. an account balance anyone can top up)")
		}
		for i, s := range ss {
			construct := fmt.Sprintf("%s:MatchedAmount+=#%d", fnName(fn), i+1)
			// reachability of the store when every (x ? supply-parameter) comparison says "exceeds"
			rule := newOrdRule(w, func(*Effect) bool { return false }, ordPair{ord: 1, match: func(x *Explorer, f *Frame, l, rr *Term) int {
				isSup := func(t *Term) bool {
					return (t.Op == "param" || isSupply(t)) && t.V != nil && isNamed(t.V.Type(), mathPath, "Int")
				}
				isSum := func(t *Term) bool { return t.Op == "call" && t.Name == mathPath+".Int.Add" }
				switch {
				case isSup(rr) && isSum(l):
					return 1
				case isSup(l) && isSum(rr):
					return -1
				}
				return 0
			}})
			hit := false
			hr := &hitRule{ordRule: rule, target: s.st}
			x := NewExplorer(w, tm, hr)
			x.Run(fn, 0)
			hit = hr.hit
			qOK := guardQ[s.added]
			if !qOK && upperBoundOK {
				if mc, ok := s.added.(*ssa.Call); ok && callKey(&mc.Call) == mathPath+".MinInt" {
					for _, a := range mc.Call.Args {
						if guardQ[a] {
							qOK = true
						}
					}
				}
			}
			why := ""
			switch {
			case hit:
				why = "the accumulation is reachable although total + quantity exceeds the supply: more than the offered amount can be sold"
			case !qOK:
				why = "the quantity checked against the supply is not the quantity that is accumulated"
			}
			r.Check(!hit && qOK, "SUPPLY-GUARD", construct, w.instrPos(s.st),
				"the accumulation is unreachable when total + quantity > supply, for the very quantity that is accumulated", why)
		}
	}
}

type hitRule struct {
	*ordRule
	target ssa.Instruction
	hit    bool
}

func (h *hitRule) OnInstr(x *Explorer, fr *Frame, in ssa.Instruction, st uint64) uint64 {
	if in == h.target {
		h.hit = true
	}
	return st
}
