package main

// NO-MUT (C19, C13): cosmossdk.io/math values (Int, LegacyDec) hold a *big.Int; copying the struct copies the pointer.
// The "…Mut" methods (MulMut, AddMut, QuoMut, …) and the other in-place setters change the number behind that
// pointer, so calling one on a value that is a field of a record (or was handed in by a caller) changes that record's
// field in place — an agreed term such as ExtendedRoundRate, StartPrice or a bid's price silently becomes another
// number, and the next store of the record persists it. The rule: the receiver of an in-place math method is never a
// record field, a parameter, or a value read from a map/slice — only a value the function computed itself.

import (
	"fmt"
	"go/types"
	"sort"
	"strings"

	"golang.org/x/tools/go/ssa"
)

// inPlaceMath: the method mutates its receiver's big.Int (cosmossdk.io/math v1.3.0: LegacyDec.*Mut, Set*, Int has none
// exported besides Unmarshal*/Scan — deserialisers are not arithmetic and are not called by hand).
func inPlaceMath(o *types.Func) bool {
	rn := recvNamed(o)
	if rn == nil || rn.Obj().Pkg() == nil || rn.Obj().Pkg().Path() != mathPath {
		return false
	}
	n := o.Name()
	return strings.HasSuffix(n, "Mut") || n == "Set" || n == "SetInt64"
}

func checkNoMut(w *World, r *Report, tm *Terms, rule string) {
	r.Rule(rule, "no in-place math mutator is applied to a number that belongs to a record or a caller", 10)
	type agg struct {
		where string
		n     int
		bad   []string
	}
	byC := map[string]*agg{}
	for _, fn := range w.Funcs {
		p := pkgOf(fn)
		if p == nil || !w.isRepoPkg(p) || p.Path() == simPath || w.isGenerated(fn) {
			continue
		}
		var fr *Frame
		for _, b := range fn.Blocks {
			for _, in := range b.Instrs {
				c, ok := in.(ssa.CallInstruction)
				if !ok || c.Common().IsInvoke() {
					continue
				}
				o := staticCalleeObj(c.Common())
				if o == nil || len(c.Common().Args) == 0 {
					continue
				}
				rn := recvNamed(o)
				if rn == nil || rn.Obj().Pkg() == nil || rn.Obj().Pkg().Path() != mathPath {
					continue
				}
				if fr == nil {
					fr = tm.PlainRoot(fn)
				}
				rt := tm.OperandAt(fr, in, c.Common().Args[0])
				// who owns the receiver
				owner := ""
				for _, alt := range rt.Alts() {
					a := uncell(alt)
					for a.Op == "deref" && len(a.Args) == 1 {
						a = uncell(a.Args[0])
					}
					switch a.Op {
					case "field", "fieldaddr":
						tn := "?"
						if len(a.Args) > 0 && a.Args[0].V != nil {
							if n := namedOf(a.Args[0].V.Type()); n != nil {
								tn = n.Obj().Name()
							}
						}
						owner = "field:" + tn + "." + a.Name
					case "param":
						owner = "param:" + a.Name
					case "lookup", "elem", "mapval", "range", "global":
						owner = a.Op
					}
				}
				if owner == "" {
					continue // a value computed here
				}
				key := fnName(fn) + ":" + owner
				g := byC[key]
				if g == nil {
					g = &agg{where: w.instrPos(in)}
					byC[key] = g
				}
				g.n++
				if inPlaceMath(o) {
					g.where = w.instrPos(in)
					g.bad = append(g.bad, o.Name()+" at "+w.instrPos(in))
				}
			}
		}
	}
	keys := make([]string, 0, len(byC))
	for k := range byC {
		keys = append(keys, k)
	}
	sort.Strings(keys)
	for _, k := range keys {
		g := byC[k]
		r.Check(len(g.bad) == 0, rule, k, g.where,
			fmt.Sprintf("%d math method call(s) on this number, none mutates it in place", g.n),
			fmt.Sprintf("in-place mutator(s) %s applied to a number owned by a record/caller: math values share their big.Int, so the owner's value (an agreed term, a stored amount) changes with it", strings.Join(g.bad, ", ")))
	}
}
