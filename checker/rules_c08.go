package main

// C08 — lifecycle moves only forward, at the right block.
//   ST-TRANS    typestate: every status write is a constant and an allowed transition from the stored status
//   TIME-POL    opening / settling / releasing / creation-rejection happen exactly at the stated time orderings
//   OPEN-GUARD  bids and modifications are committed only for status Started
//   FINISH-LAST the Vesting→Finished write needs a due, unreleased instalment that is the last of the list

import (
	"fmt"
	"go/token"
	"sort"
	"strings"

	"golang.org/x/tools/go/ssa"
)

func init() { register("C08", checkC08) }

const (
	stStandBy   = 1
	stStarted   = 2
	stVesting   = 3
	stFinished  = 4
	stCancelled = 5
)

// statusTarget returns the constant written by a StatusWrite effect (ok=false when it is computed).
func statusTarget(x *Explorer, fr *Frame, in ssa.Instruction) (int64, bool) {
	var v ssa.Value
	switch x := in.(type) {
	case *ssa.Store:
		v = x.Val
	case ssa.CallInstruction:
		args := x.Common().Args
		if len(args) == 0 {
			return 0, false
		}
		v = args[len(args)-1]
	}
	if c, ok := v.(*ssa.Const); ok && c.Value != nil {
		av := constAV(c)
		return av.N, av.K == avInt
	}
	// a number chosen by an earlier branch on this path
	if av := x.CurrentAV(v); av.K == avInt {
		return av.N, true
	}
	// a parameter of a constructor / setter: resolve through the call frames
	t := x.TM.Of(fr, v)
	if t.Op == "const" {
		var n int64
		if _, err := fmt.Sscan(t.Name, &n); err == nil {
			return n, true
		}
	}
	return 0, false
}

func statusTargetConst(in ssa.Instruction) (int64, bool) {
	var v ssa.Value
	switch x := in.(type) {
	case *ssa.Store:
		v = x.Val
	case ssa.CallInstruction:
		args := x.Common().Args
		if len(args) == 0 {
			return 0, false
		}
		v = args[len(args)-1]
	}
	if c, ok := v.(*ssa.Const); ok && c.Value != nil {
		av := constAV(c)
		return av.N, av.K == avInt
	}
	return 0, false
}

// statusReceiver returns the term of the auction whose status is written.
func statusReceiver(x *Explorer, fr *Frame, in ssa.Instruction) *Term {
	switch y := in.(type) {
	case *ssa.Store:
		if fa, ok := y.Addr.(*ssa.FieldAddr); ok {
			return x.TM.Of(fr, fa.X)
		}
	case ssa.CallInstruction:
		cc := y.Common()
		if cc.IsInvoke() {
			return x.TM.Of(fr, cc.Value)
		}
		if len(cc.Args) > 0 {
			return x.TM.OperandAt(fr, in, cc.Args[0])
		}
	}
	return mk("unknown", "", nil)
}

// storedAuction: the term denotes an auction record that came out of the store
// (read from the Auction collection, or handed to the function as an AuctionI parameter).
func storedAuction(t *Term) bool {
	if fromColl(t, "Auction") {
		return true
	}
	stored := false
	t.Walk(func(x *Term) bool {
		if x.Op == "param" && x.V != nil && isNamed(x.V.Type(), typesPath, "AuctionI") {
			stored = true
		}
		return !stored
	})
	return stored
}

type transRule struct {
	caseRule
	found map[string]string // "T" or "?" -> position
	fresh map[string]string
}

func (t *transRule) OnInstr(x *Explorer, fr *Frame, in ssa.Instruction, st uint64) uint64 {
	if e := t.w.EffectOf(in); e != nil && e.Kind == EffStatusWrite {
		recv := statusReceiver(x, fr, in)
		key := "?"
		if v, ok := statusTarget(x, fr, in); ok {
			key = fmt.Sprint(v)
		}
		if storedAuction(recv) {
			t.found[key] = t.w.instrPos(in)
		} else {
			t.fresh[key] = t.w.instrPos(in)
		}
	}
	return st
}

func checkC08(w *World, r *Report) {
	r.Explanation = "Decides: (ST-TRANS) for every entry point (7 message handlers, the block hook) and every stored status value, the status writes reachable on a stored auction are constants and form only the transitions StandBy→Started, Started→Vesting, Started→Finished, Vesting→Finished, StandBy→Cancelled; nothing is written for Finished/Cancelled; a freshly constructed auction is written only StandBy or Started; (TIME-POL) by evaluating the code over all orderings of the compared instants: opening is reachable exactly for StartTime ≤ BlockTime (block hook and creation; in the block hook also under every ordering of the current end time and the block time), any settlement effect exactly for last(EndTimes) ≤ BlockTime, a release transfer exactly for ReleaseTime ≤ BlockTime and not yet released, creation is committed exactly for EndTime ≥ BlockTime; (OPEN-GUARD) a Bid record is written by placement/modification only for status Started; (FINISH-LAST) Vesting→Finished is reachable only when the instalment being released is the last index of the list read from the store in key (= release time) order."
	r.NotDecided = "the history-level statement (which block is the first at or after an instant) beyond comparator polarity and dispatch structure; skipped blocks are covered by the ≤ comparison being re-evaluated at each block."
	r.Rule("ST-TRANS", "status writes are constants and allowed transitions", 10)
	r.Rule("TIME-POL", "time comparisons have the stated accept tables", 7)
	r.Rule("TIME-REL", "an instalment is released exactly when due and not yet released", 1)
	r.Rule("OPEN-GUARD", "bids are committed only while the auction is Started", 2)
	r.Rule("FINISH-LAST", "finishing needs the last instalment", 2)
	r.Rule("BB-BEGIN", "status processing runs in BeginBlock, before the block's messages", 1)
	tm := NewTerms(w)
	ms := w.msgServerMethods()
	bb := w.beginBlockFn()
	names := w.enumConsts("AuctionStatus")

	// BB-BEGIN: the messages of a block decide from the stored status; it agrees with the block's time only if the
	// per-auction processing has run before them, i.e. from the module's BeginBlock.
	decl := w.declaredBeginBlockFn()
	r.Check(decl == bb, "BB-BEGIN", "BeginBlock:runs-status-processing", w.pos(decl.Pos()),
		"the module's BeginBlock (appmodule.HasBeginBlocker) reaches the keeper's per-auction processing",
		"the per-auction processing is not reached from BeginBlock (it is run from "+fnName(bb)+"): status changes take effect only after the block's transactions, so a message in the first block at or after the start/end time still sees the old status (an auction can be cancelled after its start time, a bid is accepted after the end time)")

	checkEveryAuction(w, r, tm, "BB-EVERY")
	checkModuleIface(w, r, "MOD-IFACE", "BeginBlock")

	allowed := map[[2]int64]bool{{stStandBy, stStarted}: true, {stStarted, stVesting}: true, {stStarted, stFinished}: true, {stVesting, stFinished}: true, {stStandBy, stCancelled}: true}
	seen := map[[2]int64]bool{}
	entries := map[string]*ssa.Function{"BeginBlock": bb}
	for k, f := range ms {
		entries["Msg."+k] = f
	}
	for _, en := range sortedKeys(entries) {
		root := entries[en]
		for _, from := range []int64{1, 2, 3, 4, 5} {
			tr := &transRule{caseRule: *newCase(w, func(*Effect, ssa.Instruction) bool { return false }), found: map[string]string{}, fresh: map[string]string{}}
			tr.enums = []enumFix{{name: "status", val: from, match: func(t *Term, v ssa.Value) bool {
				return isField(t, "Status") && isNamed(v.Type(), typesPath, "AuctionStatus") && storedAuction(t.Args[0])
			}}}
			NewExplorer(w, tm, tr).Run(root, 0)
			construct := fmt.Sprintf("%s:from:%s", en, names[from])
			var bad []string
			var tos []string
			for _, k := range sortedKeys(tr.found) {
				if k == "?" {
					bad = append(bad, "a computed (non-constant) status is written at "+tr.found[k])
					continue
				}
				var to int64
				fmt.Sscan(k, &to)
				tos = append(tos, names[to])
				if to == from {
					continue // rewriting the same status is not a transition
				}
				if !allowed[[2]int64{from, to}] {
					bad = append(bad, fmt.Sprintf("%s → %s is written at %s", names[from], names[to], tr.found[k]))
				} else {
					seen[[2]int64{from, to}] = true
				}
			}
			for _, k := range sortedKeys(tr.fresh) {
				var to int64
				fmt.Sscan(k, &to)
				if k == "?" || (to != stStandBy && to != stStarted) {
					bad = append(bad, fmt.Sprintf("a newly created auction is given status %s at %s", k, tr.fresh[k]))
				}
			}
			r.Check(len(bad) == 0, "ST-TRANS", construct, w.pos(root.Pos()),
				fmt.Sprintf("%s on a stored auction in status %s writes only allowed transitions (writes found: %v)", en, names[from], tos),
				strings.Join(bad, "; ")+": the lifecycle moves backwards or leaves a terminal status")
		}
	}
	var missing []string
	for tr := range allowed {
		if !seen[tr] {
			missing = append(missing, names[tr[0]]+"→"+names[tr[1]])
		}
	}
	sort.Strings(missing)
	r.Check(len(missing) == 0, "ST-TRANS", "all-transitions-present", w.pos(bb.Pos()), "each of the five lifecycle transitions is performed somewhere (anchor)",
		"no code performs "+strings.Join(missing, ", ")+": auctions get stuck before that status")

	// ---------------------------------------------------------------- TIME-POL
	isStatusWriteTo := func(to int64) func(e *Effect, in ssa.Instruction) bool {
		return func(e *Effect, in ssa.Instruction) bool {
			if e.Kind != EffStatusWrite {
				return false
			}
			v, ok := statusTargetConst(in)
			if !ok && commitX != nil {
				v, ok = statusTarget(commitX, commitFr, in) // the status is a parameter of a helper: bound by the call frames
			}
			return ok && v == to
		}
	}
	statusIs := func(c int64) func(cr *caseRule) {
		return func(cr *caseRule) {
			cr.enums = append(cr.enums, enumFix{name: "status", val: c, match: func(t *Term, v ssa.Value) bool {
				return isField(t, "Status") && isNamed(v.Type(), typesPath, "AuctionStatus")
			}})
			cr.vals = append(cr.vals, func(x *Explorer, fr *Frame, v ssa.Value) AV {
				if ta, ok := v.(*ssa.TypeAssert); ok && ta.CommaOk {
					return True
				}
				return Unknown
			})
		}
	}
	timeCases := func(a func(t *Term) bool, acceptOrd func(o int) bool, an string) []guardCase {
		var out []guardCase
		for _, o := range []int{-1, 0, 1} {
			o := o
			out = append(out, guardCase{label: fmt.Sprintf("%s %s BlockTime", an, ordNames[o]), accept: acceptOrd(o), build: func(c *caseRule) {
				c.pairs = append(c.pairs, ordPair{ord: o, match: pairOf(a, isBlockTime)})
			}})
		}
		return out
	}
	leq := func(o int) bool { return o <= 0 }
	geq := func(o int) bool { return o >= 0 }
	startOfStored := func(t *Term) bool { b := fieldBase(t, "StartTime"); return b != nil && storedAuction(b) }
	runGuard(w, r, tm, guardSpec{rule: "TIME-POL", id: "open:block-hook", root: bb, common: statusIs(stStandBy),
		what: "the block hook writes Started on a StandBy auction exactly when StartTime ≤ BlockTime", commit: isStatusWriteTo(stStarted), commitTxt: "the Started status write",
		cases: timeCases(startOfStored, leq, "StartTime"), atoms: []string{"pair0"},
		consequence: "the auction opens one block late / early at the boundary instant"})
	// the same table crossed with the ordering of the current end time: opening may depend on the start time only
	// (a hook that also wants "not yet over" leaves an auction whose whole window falls between two blocks waiting for
	// ever: it never opens, can still be cancelled after its start time, and never settles). Only the orderings that a
	// stored auction can have (StartTime < every end time) are listed.
	{
		lastEndT := func(t *Term) bool { return t.Op == "last" && fieldBase(t.Args[0], "EndTimes") != nil }
		var cs []guardCase
		for _, oe := range [][2]int{{-1, -1}, {-1, 0}, {-1, 1}, {0, 1}, {1, 1}} {
			os, oend := oe[0], oe[1]
			cs = append(cs, guardCase{label: fmt.Sprintf("StartTime %s BlockTime, last(EndTimes) %s BlockTime", ordNames[os], ordNames[oend]), accept: os <= 0, build: func(c *caseRule) {
				c.pairs = append(c.pairs, ordPair{ord: os, match: pairOf(startOfStored, isBlockTime)})
				c.pairs = append(c.pairs, ordPair{ord: oend, match: pairOf(lastEndT, isBlockTime)})
			}})
		}
		runGuard(w, r, tm, guardSpec{rule: "TIME-POL", id: "open:block-hook:any-end", root: bb, common: statusIs(stStandBy),
			what: "the block hook writes Started on a StandBy auction when StartTime ≤ BlockTime whatever the ordering of its end time and the block time", commit: isStatusWriteTo(stStarted), commitTxt: "the Started status write",
			cases: cs, atoms: []string{"pair0"},
			consequence: "an auction whose start and end both fall between two consecutive blocks stays waiting for ever: it never opens or settles and its auctioneer can cancel it after the start time"})
	}
	for _, m := range []string{"CreateFixedPriceAuction", "CreateBatchAuction"} {
		runGuard(w, r, tm, guardSpec{rule: "TIME-POL", id: "open:create:" + m, root: ms[m],
			what: m + " stores the new auction as Started exactly when StartTime ≤ BlockTime", commit: isStatusWriteTo(stStarted), commitTxt: "the Started status write",
			cases: timeCases(func(t *Term) bool { return fieldBase(t, "StartTime") != nil }, leq, "msg.StartTime"), atoms: []string{"pair0"},
			consequence: "an auction whose start time has passed is created in the wrong status"})
		runGuard(w, r, tm, guardSpec{rule: "TIME-POL", id: "create-reject:" + m, root: ms[m],
			what: m + " is committed exactly when EndTime ≥ BlockTime", commit: commitStore("Auction"), commitTxt: "the Auction record write",
			cases: timeCases(func(t *Term) bool { return fieldOfParam(t, "EndTime") }, geq, "msg.EndTime"), atoms: []string{"pair0"},
			consequence: "an auction that is already over can be created, or a valid one is refused"})
	}
	lastEnd := func(t *Term) bool { return t.Op == "last" && fieldBase(t.Args[0], "EndTimes") != nil }
	runGuard(w, r, tm, guardSpec{rule: "TIME-POL", id: "settle:block-hook", root: bb, common: statusIs(stStarted),
		what: "on a Started auction the block hook performs a transfer / store write exactly when last(EndTimes) ≤ BlockTime",
		commit: func(e *Effect, in ssa.Instruction) bool {
			return e.Kind == EffTransfer || e.Kind == EffStoreWrite || e.Kind == EffStatusWrite
		}, commitTxt: "a settlement effect",
		cases: timeCases(lastEnd, leq, "last(EndTimes)"), atoms: []string{"pair0"},
		consequence: "the auction settles a block late/early, or compares an end time other than the current (last) one"})
	// release: ReleaseTime ≤ BlockTime and not released
	var relCases []guardCase
	for _, o := range []int{-1, 0, 1} {
		for _, rel := range []bool{false, true} {
			o, rel := o, rel
			relCases = append(relCases, guardCase{label: fmt.Sprintf("ReleaseTime %s BlockTime, released=%v", ordNames[o], rel), accept: o <= 0 && !rel,
				build: func(c *caseRule) {
					c.pairs = append(c.pairs, ordPair{ord: o, match: pairOf(func(t *Term) bool { return fieldBase(t, "ReleaseTime") != nil }, isBlockTime)})
					c.vals = append(c.vals, func(x *Explorer, fr *Frame, v ssa.Value) AV {
						if t := x.TM.Of(fr, v); isField(t, "Released") {
							c.used["released"]++
							return Bool(rel)
						}
						return Unknown
					})
				}})
		}
	}
	runGuard(w, r, tm, guardSpec{rule: "TIME-REL", id: "release:block-hook", root: bb, common: statusIs(stVesting),
		what:   "on a Vesting auction a transfer is performed exactly for an instalment with ReleaseTime ≤ BlockTime that is not yet released",
		commit: func(e *Effect, in ssa.Instruction) bool { return e.Kind == EffTransfer }, commitTxt: "the release transfer",
		cases: relCases, atoms: []string{"pair0", "released"},
		consequence: "an instalment is paid early, late, or twice"})

	// every due instalment is released: with ReleaseTime ≤ BlockTime and released=false fixed, no non-failing path of a
	// loop iteration (or of the function) that evaluated the comparison goes on without the transfer and the
	// Released=true write — an instalment that is skipped (e.g. because its amount is zero) stays unreleased for ever
	// and, if it is the last one, the auction never finishes
	{
		var bad []string
		evaluated := false
		for _, o := range []int{-1, 0} {
			o := o
			c := newCase(w, func(*Effect, ssa.Instruction) bool { return false })
			statusIs(stVesting)(c)
			c.pairs = append(c.pairs, ordPair{ord: o, match: pairOf(func(t *Term) bool { return fieldBase(t, "ReleaseTime") != nil }, isBlockTime)})
			c.vals = append(c.vals, func(x *Explorer, fr *Frame, v ssa.Value) AV {
				if t := x.TM.Of(fr, v); isField(t, "Released") {
					return False
				}
				return Unknown
			})
			ra := &relAllRule{caseRule: c}
			for _, out := range NewExplorer(w, tm, ra).Run(bb, 0) {
				if out.St&raDue != 0 {
					evaluated = true
				}
				if out.St&raViol != 0 {
					bad = append(bad, fmt.Sprintf("ReleaseTime %s BlockTime, not released: a path to %s goes on to the next instalment (or returns) without the release transfer and the Released=true write", ordNames[o], w.instrPos(out.Instr)))
				}
				if out.Kind == ExitReturn && out.St&raDue != 0 && out.St&raDone != raDone {
					if av, ok := out.ErrAV(bb); !ok || av.K != avNonNil {
						bad = append(bad, fmt.Sprintf("ReleaseTime %s BlockTime, not released: the block hook returns at %s without the release transfer and the Released=true write", ordNames[o], w.instrPos(out.Instr)))
					}
				}
			}
		}
		sort.Strings(bad)
		r.Check(len(bad) == 0 && evaluated, "TIME-REL", "release:every-due-instalment", w.pos(bb.Pos()),
			"on a Vesting auction every instalment with ReleaseTime ≤ BlockTime that is not yet released is paid and marked released on every non-failing path",
			strings.Join(dedupe(bad), "; "))
	}

	// ---------------------------------------------------------------- OPEN-GUARD
	for _, m := range []string{"PlaceBid", "ModifyBid"} {
		var cases []guardCase
		for _, c := range []int64{1, 2, 3, 4, 5} {
			c := c
			cases = append(cases, guardCase{label: "status=" + names[c], accept: c == stStarted, build: func(cr *caseRule) {
				cr.enums = append(cr.enums, enumFix{name: "status", val: c, match: func(t *Term, v ssa.Value) bool {
					return isField(t, "Status") && fromColl(t.Args[0], "Auction")
				}})
			}})
		}
		runGuard(w, r, tm, guardSpec{rule: "OPEN-GUARD", id: m, root: ms[m], what: m + " writes a Bid record only when the auction's stored status is Started",
			commit: commitStore("Bid"), commitTxt: "the Bid record write", cases: cases, atoms: []string{"enum:status"},
			consequence: "bids are accepted before opening or after settlement"})
	}

	// ---------------------------------------------------------------- FINISH-LAST
	var flCases []guardCase
	for _, eq := range []bool{true, false} {
		eq := eq
		o := 0
		if !eq {
			o = -1
		}
		flCases = append(flCases, guardCase{label: fmt.Sprintf("index %s len-1", map[bool]string{true: "=", false: "≠"}[eq]), accept: eq, build: func(c *caseRule) {
			c.pairs = append(c.pairs, ordPair{ord: o, match: lastIndexPair})
		}})
	}
	runGuard(w, r, tm, guardSpec{rule: "FINISH-LAST", id: "block-hook", root: bb, common: statusIs(stVesting),
		what: "Vesting→Finished is written only while releasing the last instalment of the list", commit: isStatusWriteTo(stFinished), commitTxt: "the Finished status write",
		cases: flCases, atoms: []string{"pair0"}, consequence: "the auction finishes before its last instalment is paid (later instalments are never released) or never finishes"})
	_ = token.ADD
	// "the last of the list" means the last instalment of the auction only if the list is the auction's whole queue in
	// key (= release time) order: every read of the queue in block processing is the plain walk over the auction's
	// prefix, not one narrowed to a time window or reversed
	nq := 0
	for _, s := range tm.sitesWhere([]*ssa.Function{bb}, func(fr *Frame, in ssa.Instruction) bool {
		e := w.EffectOf(in)
		return e != nil && e.Kind == EffStoreRead && e.Coll == "VestingQueue" && (e.Method == "Walk" || e.Method == "Iterate" || e.Method == "IterateRaw")
	}) {
		args := s.In.(ssa.CallInstruction).Common().Args
		if len(args) < 3 {
			continue
		}
		nq++
		ok, why := true, ""
		if c, isC := args[2].(*ssa.Const); !(isC && c.Value == nil) {
			rt := tm.OperandAt(s.Fr, s.In, args[2])
			for _, alt := range rt.Alts() {
				a := uncell(alt)
				for (a.Op == "deref" || a.Op == "allocref" || a.Op == "cellref") && len(a.Args) == 1 {
					a = uncell(a.Args[0])
				}
				if !(a.Op == "call" && strings.Contains(a.Name, "NewPrefixedPairRange")) {
					ok, why = false, "the queue is read through the range "+rt.String()+": the list is a window of (or is ordered differently from) the auction's queue, so its last element need not be the auction's last instalment — the auction finishes before later instalments are paid, which then never are"
				}
			}
		}
		r.Check(ok, "FINISH-LAST", fmt.Sprintf("complete-queue:%s#%d", fnName(s.In.Parent()), nq), w.instrPos(s.In),
			"block processing reads the auction's whole vesting queue in key order (plain prefix walk)", why)
	}
}

// relAllRule: per loop iteration, once the tracked "due" comparison has been evaluated (raDue), the iteration must
// perform a transfer (raXfer) and a VestingQueue write (raWrite) before the loop continues.
type relAllRule struct {
	*caseRule
}

const (
	raDue   = 1 << 0
	raXfer  = 1 << 1
	raWrite = 1 << 2
	raViol  = 1 << 3
	raDone  = raXfer | raWrite
)

func (ra *relAllRule) OnInstr(x *Explorer, fr *Frame, in ssa.Instruction, st uint64) uint64 {
	// the tracked comparison, as a call (Time.After/Before/…) or an operator
	switch c := in.(type) {
	case *ssa.Call:
		if op, isCmp := intCmp[callKey(&c.Call)]; isCmp && len(c.Call.Args) == 2 {
			if v := ra.caseRule.decide(x, fr, op, c.Call.Args[0], c.Call.Args[1]); v.K != avUnknown {
				st |= raDue
			}
		}
	case *ssa.BinOp:
		if v := ra.caseRule.decide(x, fr, c.Op, c.X, c.Y); v.K != avUnknown {
			st |= raDue
		}
	}
	if e := ra.w.EffectOf(in); e != nil {
		switch {
		case e.Kind == EffTransfer:
			st |= raXfer
		case e.Kind == EffStoreWrite && e.Coll == "VestingQueue":
			st |= raWrite
		}
	}
	return st
}

// CallResult: a transfer that is attempted succeeds here; a refused transfer is C07's subject (BB-ERRPROP).
func (ra *relAllRule) CallResult(x *Explorer, fr *Frame, c ssa.CallInstruction) ([]AV, CallMode) {
	if e := ra.w.EffectOf(c); e != nil && e.Kind == EffTransfer && lastResultIsError(c.Common()) {
		n := c.Common().Signature().Results().Len()
		vals := make([]AV, n)
		vals[n-1] = Nil
		return vals, CallOverride
	}
	return ra.caseRule.CallResult(x, fr, c)
}

func (ra *relAllRule) OnBlock(x *Explorer, fr *Frame, b, pred *ssa.BasicBlock, st uint64) uint64 {
	if pred == nil {
		return st
	}
	// a back edge of a loop: the iteration is over
	for _, l := range fnInfo(fr.Fn).Loops {
		if l.Header == b && l.Blocks[pred] {
			if st&raDue != 0 && st&raDone != raDone {
				st |= raViol
			}
			st &^= raDue | raXfer | raWrite
		}
	}
	return st
}
