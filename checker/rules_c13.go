package main

// C13 — extended rounds follow the anti-sniping rule and are bounded.
//   EXT-APPEND  every writer of EndTimes other than the constructor appends last+ExtendedPeriod days to the current list
//   EXT-BOUND   the extension is unreachable when MaxExtendedRound+1 == len(EndTimes); creation enforces the round limit
//   EXT-RULE    extension / settlement are reachable exactly as the anti-sniping decision table says
//   EXT-ORDER   the stored last matched length is read before the calculation overwrites it; only settlement code writes it

import (
	"fmt"
	"sort"
	"strings"

	"golang.org/x/tools/go/ssa"
)

func init() { register("C13", checkC13) }

// endTimesWrite: the instruction writes BaseAuction.EndTimes (setter call or field store outside the setter itself).
func endTimesWrite(w *World, in ssa.Instruction) (recv, val ssa.Value, ok bool) {
	switch x := in.(type) {
	case *ssa.Store:
		fa, isFA := x.Addr.(*ssa.FieldAddr)
		if !isFA || namedOf(fa.X.Type()) != w.BaseAuction {
			return nil, nil, false
		}
		if structOf(fa.X.Type()).Field(fa.Field).Name() != "EndTimes" {
			return nil, nil, false
		}
		if x.Parent().Name() == "SetEndTimes" {
			return nil, nil, false
		}
		return fa.X, x.Val, true
	case ssa.CallInstruction:
		cc := x.Common()
		if cc.IsInvoke() {
			if namedOf(cc.Value.Type()) == w.AuctionI && cc.Method.Name() == "SetEndTimes" && len(cc.Args) == 1 {
				return cc.Value, cc.Args[0], true
			}
			return nil, nil, false
		}
		if o := staticCalleeObj(cc); o != nil && recvNamed(o) == w.BaseAuction && o.Name() == "SetEndTimes" && len(cc.Args) == 2 {
			return cc.Args[0], cc.Args[1], true
		}
	}
	return nil, nil, false
}

func checkC13(w *World, r *Report) {
	r.Explanation = "Decides: (EXT-APPEND) the only writers of BaseAuction.EndTimes are the constructor (a one-element list at creation) and code that stores append(current EndTimes, last(current EndTimes).AddDate(0,0,Params.ExtendedPeriod)) on the same auction — so earlier end times are preserved and each extension adds exactly one configured period; (EXT-BOUND) evaluating the settlement routine with MaxExtendedRound+1 = len(EndTimes) makes every EndTimes write unreachable (with ≠ it is reachable), and batch creation is committed only for MaxExtendedRound ≤ the constant limit; (EXT-RULE) over the case split (last matched length = 0 or not) × (1 − cur/last ? rate), with rounds left: an extension is reachable exactly for 'last = 0' or '≥ rate' and a settlement transfer exactly otherwise, and the compared quantity has the shape 1 − Dec(current matched length)/Dec(last matched length); (EXT-ORDER) on every path of the settlement routine the stored last matched length is read before any write of it, and no message handler can write it."
	r.NotDecided = "the 18-decimal rounding of cur/last; interaction with the order book's evolution between end times."
	r.Rule("EXT-APPEND", "EndTimes writers append exactly one period to the current list", 2)
	r.Rule("EXT-BOUND", "extension bounded by MaxExtendedRound; creation enforces the limit", 2)
	r.Rule("EXT-RULE", "anti-sniping decision table", 2)
	r.Rule("EXT-ORDER", "last matched length read before overwritten; written only by settlement", 2)
	tm := NewTerms(w)
	bb := w.beginBlockFn()
	tree := w.reachableFrom(bb)
	ms := w.msgServerMethods()

	// ---------------------------------------------------------------- EXT-APPEND
	// every write of an auction's EndTimes, in every calling context from the module's API (a constructor's or helper's
	// parameter is what its callers pass): either the one-element list [msg.EndTime] of a creation, or the append form
	type etVerdict struct {
		in       ssa.Instruction
		creation bool
		bad      []string
	}
	byIn := map[ssa.Instruction]*etVerdict{}
	var order []ssa.Instruction
	for _, site := range tm.sitesWhere(w.apiRoots(), func(fr *Frame, in ssa.Instruction) bool {
		if p := pkgOf(fr.Fn); p == nil || p.Path() == simPath || w.isGenerated(fr.Fn) {
			return false // simulation is not consensus code; generated decoders rebuild records from bytes
		}
		_, _, ok := endTimesWrite(w, in)
		return ok
	}) {
		fr, in := site.Fr, site.In
		recv, val, _ := endTimesWrite(w, in)
		v := byIn[in]
		if v == nil {
			v = &etVerdict{in: in}
			byIn[in] = v
			order = append(order, in)
		}
		vt := tm.OperandAt(fr, in, val)
		rt := tm.OperandAt(fr, in, recv)
		for rt.Op == "new" || rt.Op == "deref" {
			rt = rt.Args[0]
		}
		// creation: the one-element list [msg.EndTime]
		if vt.Op == "slice" && vt.Args[0].Op == "new" && vt.Args[0].Args[0].Op == "upd" && len(vt.Args[0].Args[0].Args) == 2 &&
			vt.Args[0].Args[0].Args[1].Name == "[0]" && vt.Args[0].Args[0].Args[0].Op == "zero" {
			v.creation = true
			if !fieldOfParam(vt.Args[0].Args[0].Args[1].Args[0], "EndTime") {
				v.bad = append(v.bad, "the one end time set at creation is "+vt.Args[0].Args[0].Args[1].Args[0].String()+", not the message's EndTime")
			}
			continue
		}
		if vt.Op == "param" {
			continue // reached as an API function on its own (its callers' contexts are judged separately)
		}
		why := "the value written is " + vt.String()
		ok2 := false
		if vt.Op == "builtin" && vt.Name == "append" && len(vt.Args) == 2 {
			cur := vt.Args[0]
			switch {
			case fieldBase(cur, "EndTimes") == nil || fieldBase(cur, "EndTimes").Key() != rt.Key():
				why = "the list appended to is " + cur.String() + ", not the current EndTimes of the auction being written (" + rt.String() + ")"
			default:
				add := vt.Args[1]
				// slice(new(upd(zero, [0]:=X)))
				var x *Term
				if add.Op == "slice" && add.Args[0].Op == "new" && add.Args[0].Args[0].Op == "upd" && len(add.Args[0].Args[0].Args) == 2 {
					x = add.Args[0].Args[0].Args[1].Args[0]
				}
				switch {
				case x == nil:
					why = "more or other than one element is appended: " + add.String()
				case !(x.Op == "call" && x.Name == "time.Time.AddDate" && len(x.Args) == 4):
					why = "the appended end time is " + x.String() + ", not last.AddDate(0,0,period)"
				case !(x.Args[0].Op == "last" && x.Args[0].Args[0].Key() == cur.Key()):
					why = "the period is added to " + x.Args[0].String() + ", not to the last current end time"
				case x.Args[1].Key() != "const<0>" || x.Args[2].Key() != "const<0>":
					why = "years/months are added: " + x.String()
				case !(fieldBase(x.Args[3], "ExtendedPeriod") != nil && fromColl(x.Args[3], "Params")):
					why = "the number of days added is " + x.Args[3].String() + ", not Params.ExtendedPeriod read from the store"
				default:
					ok2 = true
				}
			}
		}
		if !ok2 {
			v.bad = append(v.bad, why)
		}
	}
	nw := 0
	for _, in := range order {
		v := byIn[in]
		nw++
		construct := fmt.Sprintf("%s:EndTimes-write#%d", fnName(in.Parent()), nw)
		if v.creation && len(v.bad) == 0 {
			r.Check(true, "EXT-APPEND", construct+":constructor", w.instrPos(in), "at creation EndTimes is the one-element list [msg.EndTime]", "")
			continue
		}
		r.Check(len(v.bad) == 0, "EXT-APPEND", construct+":append", w.instrPos(in),
			"the write stores append(current EndTimes, last(current EndTimes).AddDate(0,0,Params.ExtendedPeriod)) on the same auction (or, at creation, the one-element list [msg.EndTime])", strings.Join(dedupe(v.bad), "; "))
	}

	// ---------------------------------------------------------------- EXT-BOUND
	settle := batchSettleFn(w, tree)
	if settle == nil {
		fatalf("batch settlement routine not found")
	}
	isEndWrite := func(e *Effect, in ssa.Instruction) bool { return false }
	_ = isEndWrite
	roundsLeft := func(o int) ordPair {
		return ordPair{ord: o, match: pairOf(
			func(t *Term) bool {
				return t.Op == "binop" && t.Name == "+" && fieldBase(t.Args[0], "MaxExtendedRound") != nil && t.Args[1].Key() == "const<1>"
			},
			func(t *Term) bool {
				return t.Op == "builtin" && t.Name == "len" && fieldBase(t.Args[0], "EndTimes") != nil
			})}
	}
	assertOK := func(x *Explorer, fr *Frame, v ssa.Value) AV {
		if ta, ok := v.(*ssa.TypeAssert); ok && ta.CommaOk {
			return True
		}
		return Unknown
	}
	type extRule struct {
		caseRule
		ext, settled bool
	}
	run := func(build func(c *caseRule)) (ext, settled bool, used map[string]int) {
		c := newCase(w, func(e *Effect, in ssa.Instruction) bool { return e.Kind == EffTransfer })
		c.vals = append(c.vals, assertOK)
		build(c)
		er := &endWriteRule{caseRule: c, w: w}
		NewExplorer(w, tm, er).Run(settle, 0)
		return er.ext, len(c.reached) > 0, c.used
	}
	extEq, _, u1 := run(func(c *caseRule) { c.pairs = append(c.pairs, roundsLeft(0)) })
	extNe, _, _ := run(func(c *caseRule) { c.pairs = append(c.pairs, roundsLeft(-1)) })
	r.Check(!extEq && extNe && u1["pair0"] > 0, "EXT-BOUND", fnName(settle)+":limit", w.pos(settle.Pos()),
		"with MaxExtendedRound+1 = len(EndTimes) no EndTimes write is reachable in the settlement routine; with rounds left it is",
		fmt.Sprintf("extension reachable at the limit: %v; reachable with rounds left: %v; comparison evaluated: %v — an auction can be extended beyond 1+MaxExtendedRound end times (never settles) or never extends", extEq, extNe, u1["pair0"] > 0))
	runGuard(w, r, tm, guardSpec{rule: "EXT-BOUND", id: "CreateBatchAuction:max-rounds", root: ms["CreateBatchAuction"], commit: commitStore("Auction"), commitTxt: "the Auction record write",
		what:  "a batch auction is created only with MaxExtendedRound ≤ the constant limit",
		cases: ordCases("msg.MaxExtendedRound", "limit", func(t *Term) bool { return fieldOfParam(t, "MaxExtendedRound") }, func(t *Term) bool { return t.Op == "const" && t.Name != "nil" }, func(o int) bool { return o <= 0 }),
		atoms: []string{"pair0"}, consequence: "an auctioneer can ask for more extension rounds than the module's bound"})

	// ---------------------------------------------------------------- EXT-RULE
	lastZero := func(o int) ordPair {
		return ordPair{ord: o, match: pairOf(func(t *Term) bool {
			return fromColl(t, "MatchedBidsLen") && !t.Any(func(x *Term) bool { return x.Op == "call" && strings.HasSuffix(x.Name, "LegacyNewDec") })
		},
			func(t *Term) bool { return t.Key() == "const<0>" })}
	}
	rate := func(o int) ordPair {
		return ordPair{ord: o, match: pairOf(func(t *Term) bool { return fieldBase(t, "ExtendedRoundRate") == nil }, func(t *Term) bool { return fieldBase(t, "ExtendedRoundRate") != nil })}
	}
	var bad []string
	var table []string
	usedAll := map[string]int{}
	for _, lz := range []int{0, 1} {
		for _, ro := range []int{-1, 0, 1} {
			ext, settled, used := run(func(c *caseRule) { c.pairs = append(c.pairs, roundsLeft(-1), lastZero(lz), rate(ro)) })
			for k, v := range used {
				usedAll[k] += v
			}
			wantExt := lz == 0 || ro >= 0
			label := fmt.Sprintf("last%s0, drop%srate", map[int]string{0: "=", 1: ">"}[lz], ordNames[ro])
			table = append(table, fmt.Sprintf("%s→ext=%v,settle=%v", label, ext, settled))
			if ext != wantExt || settled == wantExt {
				bad = append(bad, fmt.Sprintf("case [%s]: extension reachable=%v, settlement reachable=%v, expected extension=%v, settlement=%v", label, ext, settled, wantExt, !wantExt))
			}
		}
	}
	for _, a := range []string{"pair0", "pair1", "pair2"} {
		if usedAll[a] == 0 {
			bad = append(bad, "condition "+a+" of the decision (rounds left / last length = 0 / drop ≥ rate) is never evaluated")
		}
	}
	r.Check(len(bad) == 0, "EXT-RULE", fnName(settle)+":decision", w.pos(settle.Pos()),
		"with rounds left: extend iff last matched length = 0 or (1 − cur/last) ≥ rate; otherwise settle ["+strings.Join(table, "; ")+"]", strings.Join(bad, "; "))
	// shape of the compared quantity
	shapeOK, shapeWhy := false, "no comparison against ExtendedRoundRate found"
	// the comparison may live in the settlement routine or in a helper it calls, with the rate on either side
	tm.walkContexts([]*ssa.Function{settle}, func(fr *Frame, in ssa.Instruction) {
		c, ok := in.(*ssa.Call)
		if !ok {
			return
		}
		if _, isCmp := intCmp[callKey(&c.Call)]; !isCmp || len(c.Call.Args) != 2 {
			return
		}
		l, rt := tm.Of(fr, c.Call.Args[0]), tm.Of(fr, c.Call.Args[1])
		if fieldBase(rt, "ExtendedRoundRate") == nil {
			l, rt = rt, l
		}
		if fieldBase(rt, "ExtendedRoundRate") == nil || fieldBase(l, "ExtendedRoundRate") != nil {
			return
		}
		// l = Sub(OneDec, Quo(NewDec(cur), NewDec(last)))
		shapeWhy = "the quantity compared with the rate is " + l.String()
		if l.Op == "call" && strings.HasSuffix(l.Name, "LegacyDec.Sub") && len(l.Args) == 2 && strings.HasSuffix(l.Args[0].Name, "LegacyOneDec") {
			q := l.Args[1]
			if q.Op == "call" && strings.HasSuffix(q.Name, "LegacyDec.Quo") && len(q.Args) == 2 {
				cur, last := q.Args[0], q.Args[1]
				// the current matched length: the count the matching just produced (its MatchedLen, or len of its
				// MatchedBids), never the stored value
				curOK := cur.Op == "call" && strings.HasSuffix(cur.Name, "LegacyNewDec") && !cur.Any(func(x *Term) bool { return fromColl(x, "MatchedBidsLen") }) &&
					cur.Any(func(x *Term) bool {
						return isField(x, "MatchedLen") || (x.Op == "builtin" && x.Name == "len" && len(x.Args) == 1 && x.Args[0].Any(func(y *Term) bool { return isField(y, "MatchedBids") }))
					})
				lastOK := last.Op == "call" && strings.HasSuffix(last.Name, "LegacyNewDec") && fromColl(last.Args[0], "MatchedBidsLen")
				if curOK && lastOK {
					shapeOK = true
				} else {
					shapeWhy = "numerator " + cur.String() + " / denominator " + last.String() + " are not (current matched length, stored last matched length)"
				}
			}
		}
	})
	r.Check(shapeOK, "EXT-RULE", fnName(settle)+":ratio", w.pos(settle.Pos()), "the quantity compared with the rate is 1 − Dec(current matched length)/Dec(stored last matched length)", shapeWhy)

	// ---------------------------------------------------------------- EXT-ORDER
	or := &orderRule{w: w}
	var obad []string
	for _, o := range NewExplorer(w, tm, or).Run(settle, 0) {
		if o.St&2 != 0 {
			obad = append(obad, "a path to "+w.instrPos(o.Instr)+" writes MatchedBidsLen before reading the stored value")
		}
	}
	// every evaluation of the rule records the current matched length — also when it is zero — so that the next end
	// time compares with this round and not with an older one: every non-failing path that read the stored value (the
	// rule was evaluated) also wrote it
	var wbad []string
	for _, o := range NewExplorer(w, tm, or).Run(settle, 0) {
		if o.Kind != ExitReturn || o.St&1 == 0 || o.St&4 != 0 {
			continue
		}
		if av, ok := o.ErrAV(settle); ok && av.K == avNonNil {
			continue
		}
		wbad = append(wbad, "a non-failing path to "+w.instrPos(o.Instr)+" reads the stored last matched length but does not store the current one")
	}
	sort.Strings(wbad)
	r.Check(len(wbad) == 0, "EXT-ORDER", fnName(settle)+":written-every-round", w.pos(settle.Pos()),
		"every non-failing evaluation of the round stores the current matched length (whatever its value)",
		strings.Join(dedupe(wbad), "; ")+": after a round that does not store it (e.g. nothing matched) the next end time is compared with the length of an older round")
	sort.Strings(obad)
	r.Check(len(obad) == 0, "EXT-ORDER", fnName(settle)+":read-before-write", w.pos(settle.Pos()),
		"the stored last matched length is read before the matching calculation overwrites it", strings.Join(dedupe(obad), "; ")+": the rule then compares the current length with itself")
	var hits []string
	for _, name := range sortedKeys(ms) {
		for fn := range w.reachableFrom(ms[name]) {
			for _, b := range fn.Blocks {
				for _, in := range b.Instrs {
					if e := w.EffectOf(in); e != nil && e.Kind == EffStoreWrite && e.Coll == "MatchedBidsLen" {
						hits = append(hits, name+"→"+w.instrPos(in))
					}
				}
			}
		}
	}
	r.Check(len(hits) == 0, "EXT-ORDER", "msg:no-writer", keeperPath, "no message handler can write the last matched length", strings.Join(hits, ", "))
	// an extended round lasts until its own (the last) end time: the settlement decision is taken against last(EndTimes)
	r.SubWhere(checkC08, keepPrefix("settle:"), "TIME-POL")
	// the agreed extended-round rate and the counts compared with it are not changed by the comparison itself
	checkNoMut(w, r, tm, "NO-MUT")
	// an extension that fails (the end-time setter, the store write) is reported, not taken for done: otherwise the
	// round counter does not advance and the auction is extended for ever
	r.SubWhere(checkC07, keepAny("ExtendRound", "CloseBatchAuction", "ExecuteStartedStatus", "BeginBlocker", "AppModule).BeginBlock", "SetMatchedBidsLen", "GetLastMatchedBidsLen"), "BB-ERRPROP")
}

type endWriteRule struct {
	*caseRule
	w   *World
	ext bool
}

func (e *endWriteRule) OnInstr(x *Explorer, fr *Frame, in ssa.Instruction, st uint64) uint64 {
	if _, _, ok := endTimesWrite(e.w, in); ok {
		e.ext = true
	}
	return e.caseRule.OnInstr(x, fr, in, st)
}

type orderRule struct {
	BaseRule
	w *World
}

func (o *orderRule) OnInstr(x *Explorer, fr *Frame, in ssa.Instruction, st uint64) uint64 {
	if e := o.w.EffectOf(in); e != nil && e.Coll == "MatchedBidsLen" {
		switch e.Kind {
		case EffStoreRead:
			st |= 1
		case EffStoreWrite:
			if st&1 == 0 {
				st |= 2
			}
			st |= 4
		}
	}
	return st
}
