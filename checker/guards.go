package main

// guards.go — E4: GUARD / ORD-EVAL / ENUM-EVAL obligations. An operation (an
// entry function) is explored once per case of a finite case split (orderings
// of tracked operand pairs, values of an enum, a lookup failing or not). For
// each case the set of reached "commit" effects is compared with what the
// property states: unreachable in rejecting cases, reachable in accepting ones.

import (
	"fmt"
	"go/token"
	"go/types"
	"os"
	"sort"
	"strconv"
	"strings"

	"golang.org/x/tools/go/ssa"
)

// extra comparison atoms (equality-only APIs)
var eqCalls = map[string]bool{
	sdkPath + ".AccAddress.Equals": true, "bytes.Equal": true, "strings.EqualFold": false,
	mathPath + ".LegacyDec.Equal": true, mathPath + ".Int.Equal": true, sdkPath + ".Coin.IsEqual": true, sdkPath + ".Coin.Equal": true,
}

// caseRule is the rule used for one case of a guard obligation.
type caseRule struct {
	BaseRule
	w       *World
	pairs   []ordPair
	enums   []enumFix
	errs    []errFix
	vals    []func(x *Explorer, fr *Frame, v ssa.Value) AV
	calls   []func(x *Explorer, fr *Frame, c ssa.CallInstruction) ([]AV, CallMode)
	commit  func(e *Effect, in ssa.Instruction) bool
	reached map[ssa.Instruction]bool
	used    map[string]int // how often each atom decided something (vacuity control)
}

type enumFix struct {
	name  string
	match func(t *Term, v ssa.Value) bool
	val   int64
}

type errFix struct {
	name  string
	match func(x *Explorer, fr *Frame, c ssa.CallInstruction) bool
	fail  bool
}

func newCase(w *World, commit func(e *Effect, in ssa.Instruction) bool) *caseRule {
	return &caseRule{w: w, commit: commit, reached: map[ssa.Instruction]bool{}, used: map[string]int{}}
}

func (c *caseRule) decide(x *Explorer, fr *Frame, op token.Token, l, r ssa.Value) AV {
	if len(c.pairs) == 0 {
		return Unknown
	}
	lt, rt := x.TM.Of(fr, l), x.TM.Of(fr, r)
	if os.Getenv("VERIF_DEBUG") == "pairs" {
		fmt.Fprintf(os.Stderr, "decide %s in %s: %s ? %s\n", op, fr.Fn, lt.String(), rt.String())
	}
	for i, p := range c.pairs {
		switch p.match(x, fr, lt, rt) {
		case 1:
			c.used[fmt.Sprintf("pair%d", i)]++
			return cmpUnder(op, p.ord)
		case -1:
			c.used[fmt.Sprintf("pair%d", i)]++
			return cmpUnder(flipOp(op), p.ord)
		}
	}
	return Unknown
}

func (c *caseRule) CallResult(x *Explorer, fr *Frame, call ssa.CallInstruction) ([]AV, CallMode) {
	cc := call.Common()
	k := callKey(cc)
	for _, f := range c.calls {
		if vals, mode := f(x, fr, call); mode != CallDefault {
			return vals, mode
		}
	}
	if op, ok := intCmp[k]; ok && len(cc.Args) == 2 {
		if v := c.decide(x, fr, op, cc.Args[0], cc.Args[1]); v.K != avUnknown {
			return []AV{v}, CallReplace
		}
	}
	if eqCalls[k] && len(cc.Args) == 2 {
		if v := c.decide(x, fr, token.EQL, cc.Args[0], cc.Args[1]); v.K != avUnknown {
			return []AV{v}, CallReplace
		}
	}
	for _, e := range c.errs {
		if e.match(x, fr, call) {
			c.used["err:"+e.name]++
			n := cc.Signature().Results().Len()
			vals := make([]AV, n)
			if e.fail {
				vals[n-1] = NonNil
			} else {
				vals[n-1] = Nil
			}
			return vals, CallOverride
		}
	}
	return nil, CallDefault
}

func (c *caseRule) Compare(x *Explorer, fr *Frame, op token.Token, l, r ssa.Value) AV {
	return c.decide(x, fr, op, l, r)
}

func (c *caseRule) ValueOf(x *Explorer, fr *Frame, v ssa.Value) AV {
	if len(c.enums) > 0 {
		if _, isBasic := v.Type().Underlying().(*types.Basic); isBasic {
			if n := namedOf(v.Type()); n != nil {
				t := x.TM.Of(fr, v)
				for _, e := range c.enums {
					if e.match(t, v) {
						c.used["enum:"+e.name]++
						return Int(e.val)
					}
				}
			}
		}
	}
	for _, f := range c.vals {
		if a := f(x, fr, v); a.K != avUnknown {
			return a
		}
	}
	if ta, ok := v.(*ssa.TypeAssert); ok && ta.CommaOk {
		return Unknown
	}
	return Unknown
}

// the explorer and frame of the instruction a commit predicate is being asked about (commit predicates that need to
// resolve an operand through the call frames — e.g. a status handed to a helper as a parameter — read them)
var (
	commitX  *Explorer
	commitFr *Frame
)

func (c *caseRule) OnInstr(x *Explorer, fr *Frame, in ssa.Instruction, st uint64) uint64 {
	commitX, commitFr = x, fr
	defer func() { commitX, commitFr = nil, nil }()
	if e := c.w.EffectOf(in); e != nil && c.commit(e, in) {
		c.reached[in] = true
	}
	return st
}

// guardCase is one case of an obligation.
type guardCase struct {
	label  string
	build  func(c *caseRule)
	accept bool
}

type guardSpec struct {
	rule        string
	id          string // position independent construct key
	what        string
	root        *ssa.Function
	commit      func(e *Effect, in ssa.Instruction) bool
	commitTxt   string
	common      func(c *caseRule) // valuation common to all cases (e.g. a fixed bid type)
	cases       []guardCase
	atoms       []string // atoms that must have decided something in at least one case (vacuity control)
	consequence string
}

// runGuard evaluates a guard obligation.
func runGuard(w *World, r *Report, tm *Terms, g guardSpec) {
	var bad []string
	usedTotal := map[string]int{}
	var table []string
	for _, gc := range g.cases {
		c := newCase(w, g.commit)
		if g.common != nil {
			g.common(c)
		}
		gc.build(c)
		x := NewExplorer(w, tm, c)
		x.Run(g.root, 0)
		for k, n := range c.used {
			usedTotal[k] += n
		}
		got := len(c.reached) > 0
		table = append(table, fmt.Sprintf("%s→%s", gc.label, map[bool]string{true: "commit", false: "reject"}[got]))
		if got != gc.accept {
			var at []string
			for in := range c.reached {
				at = append(at, w.instrPos(in))
			}
			sort.Strings(at)
			if gc.accept {
				bad = append(bad, fmt.Sprintf("case [%s] must be accepted but %s is unreachable", gc.label, g.commitTxt))
			} else {
				bad = append(bad, fmt.Sprintf("case [%s] must be rejected but %s is reachable (%s)", gc.label, g.commitTxt, strings.Join(at, ",")))
			}
		}
	}
	for _, a := range g.atoms {
		if usedTotal[a] == 0 {
			bad = append(bad, fmt.Sprintf("the tracked condition %q is never evaluated on any path of %s (the check it stands for is gone or compares something else)", a, fnName(g.root)))
		}
	}
	why := strings.Join(bad, "; ")
	if why != "" && g.consequence != "" {
		why += " — " + g.consequence
	}
	o := r.Check(len(bad) == 0, g.rule, g.id, w.pos(g.root.Pos()), g.what+" [decision table: "+strings.Join(table, ", ")+"]", why)
	_ = o
}

// ---------------------------------------------------------------------------
// operand matchers

// pairOf builds an ordPair matcher from two term predicates.
func pairOf(a, b func(t *Term) bool) func(x *Explorer, fr *Frame, l, r *Term) int {
	return func(x *Explorer, fr *Frame, l, r *Term) int {
		switch {
		case a(l) && b(r):
			return 1
		case a(r) && b(l):
			return -1
		}
		return 0
	}
}

// fromColl: the term derives from a record read from the given keeper collection
// (a collections call on that field, or a repository helper whose call tree reads it).
func fromColl(t *Term, coll string) bool {
	return t.Any(func(x *Term) bool {
		if x.Op == "param" && theWorld != nil {
			// the value handed to a callback of a walk over the collection
			if p, ok := x.V.(*ssa.Parameter); ok && theWorld.walkValueParamOf(p) == coll {
				return true
			}
		}
		if x.Op != "call" {
			return false
		}
		if strings.Contains(x.Name, collPath+".") && len(x.Args) > 0 && isField(x.Args[0], coll) {
			return true
		}
		if c, ok := x.V.(*ssa.Call); ok && theWorld != nil {
			if f := theWorld.calleeBody(&c.Call); f != nil {
				return theWorld.readsColl(f, coll)
			}
		}
		return false
	})
}

var theWorld *World
var walkParamMemo = map[*ssa.Parameter]string{}

// walkValueParamOf: p is the last parameter of a closure passed as callback to a read (Walk, Iterate…) of a keeper
// collection, directly or through a wrapper that hands its callback parameter on; returns the collection's name.
func (w *World) walkValueParamOf(p *ssa.Parameter) string {
	if v, ok := walkParamMemo[p]; ok {
		return v
	}
	walkParamMemo[p] = ""
	cb := p.Parent()
	if cb == nil || cb.Parent() == nil || len(cb.Params) == 0 || cb.Params[len(cb.Params)-1] != p {
		return ""
	}
	for _, b := range cb.Parent().Blocks {
		for _, in := range b.Instrs {
			c, ok := in.(ssa.CallInstruction)
			if !ok {
				continue
			}
			passes := false
			for _, a := range c.Common().Args {
				if mc, ok := a.(*ssa.MakeClosure); ok && mc.Fn == cb {
					passes = true
				}
			}
			if !passes {
				continue
			}
			if e := w.EffectOf(in); e != nil && e.Kind == EffStoreRead {
				walkParamMemo[p] = e.Coll
				return e.Coll
			}
			// a wrapper that walks one collection with the callback it is given
			if callee := w.calleeBody(c.Common()); callee != nil {
				for _, cb2 := range callee.Blocks {
					for _, in2 := range cb2.Instrs {
						if e := w.EffectOf(in2); e != nil && e.Kind == EffStoreRead {
							for _, a := range in2.(ssa.CallInstruction).Common().Args {
								if _, isParam := a.(*ssa.Parameter); isParam && isFuncType(a.Type()) {
									walkParamMemo[p] = e.Coll
									return e.Coll
								}
							}
						}
					}
				}
			}
		}
	}
	return ""
}

func isFuncType(t types.Type) bool {
	_, ok := t.Underlying().(*types.Signature)
	return ok
}

var readsCollMemo = map[string]bool{}

// readsColl: fn's call tree contains a store read of the collection.
func (w *World) readsColl(fn *ssa.Function, coll string) bool {
	k := fn.String() + "|" + coll
	if v, ok := readsCollMemo[k]; ok {
		return v
	}
	res := false
	for f := range w.reachableFrom(fn) {
		for _, b := range f.Blocks {
			for _, in := range b.Instrs {
				if e := w.EffectOf(in); e != nil && e.Kind == EffStoreRead && e.Coll == coll {
					res = true
				}
			}
		}
	}
	readsCollMemo[k] = res
	return res
}

// fieldOfMsg: field<name> of a parameter (the message / request).
func fieldOfParam(t *Term, name string) bool {
	for _, a := range t.Alts() {
		if a.Op == "const" {
			continue
		}
		if !(isField(a, name) && uncell(a.Args[0]).Op == "param") {
			return false
		}
	}
	return t.Any(func(x *Term) bool { return isField(x, name) && uncell(x.Args[0]).Op == "param" })
}

// containsFieldOfParam: some sub-term is field<name>(param).
func containsFieldOfParam(t *Term, name string) bool {
	return t.Any(func(x *Term) bool { return isField(x, name) && uncell(x.Args[0]).Op == "param" })
}

// storedField: field<name> of a record read from collection coll (and nothing of the message).
func storedField(t *Term, coll, name string) bool {
	return t.Any(func(x *Term) bool { return isField(x, name) && fromColl(x.Args[0], coll) })
}

// isBlockTime: the block time of the context.
func isBlockTime(t *Term) bool {
	for _, a := range t.Alts() {
		if !(a.Op == "call" && strings.HasSuffix(a.Name, ".Context.BlockTime")) {
			return false
		}
	}
	return true
}

func enumOfField(field string) func(t *Term, v ssa.Value) bool {
	return func(t *Term, v ssa.Value) bool { return isField(t, field) }
}

func commitStore(coll string) func(e *Effect, in ssa.Instruction) bool {
	return func(e *Effect, in ssa.Instruction) bool { return e.Kind == EffStoreWrite && e.Coll == coll }
}

// three-way orderings
var ordNames = map[int]string{-1: "<", 0: "=", 1: ">"}

// linearForm: t as Σ coef·symbol + c over integer +/−, where a symbol is len(x) ("len:"+key of x) or any other term
// (its key). ok=false if t contains an integer operation other than + and −.
func linearForm(t *Term) (coef map[string]int64, c int64, ok bool) {
	coef = map[string]int64{}
	var rec func(t *Term, sign int64) bool
	rec = func(t *Term, sign int64) bool {
		t = uncell(t)
		switch {
		case t.Op == "const":
			n, err := strconv.ParseInt(t.Name, 10, 64)
			if err != nil {
				return false
			}
			c += sign * n
			return true
		case t.Op == "binop" && t.Name == "+" && len(t.Args) == 2 && t.Args[1].Key() == "const<1>" && t.Args[0].Op == "phi" &&
			t.Args[0].Any(func(x *Term) bool { return x.Key() == "const<-1>" }):
			// the index of a range loop (SSA: phi(-1, next) + 1) is one symbol
			coef[t.Key()] += sign
			return true
		case t.Op == "binop" && (t.Name == "+" || t.Name == "-") && len(t.Args) == 2:
			if !rec(t.Args[0], sign) {
				return false
			}
			if t.Name == "-" {
				return rec(t.Args[1], -sign)
			}
			return rec(t.Args[1], sign)
		case t.Op == "builtin" && t.Name == "len" && len(t.Args) == 1:
			coef["len:"+uncell(t.Args[0]).Key()] += sign
			return true
		case t.Op == "binop":
			return false
		}
		coef[t.Key()] += sign
		return true
	}
	ok = rec(t, 1)
	for k, v := range coef {
		if v == 0 {
			delete(coef, k)
		}
	}
	return
}

// lastIndexPair matches a comparison of an index with the last index of a list, however it is spelled
// (i == len(l)-1, i+1 == len(l), len(l)-1 == i, i == last with last := len(l)-1): +1 when l − r = i − (len−1),
// −1 when it is the negation, 0 otherwise.
func lastIndexPair(x *Explorer, fr *Frame, l, r *Term) int {
	lc, lk, ok1 := linearForm(l)
	rc, rk, ok2 := linearForm(r)
	if !ok1 || !ok2 {
		return 0
	}
	d := map[string]int64{}
	for k, v := range lc {
		d[k] += v
	}
	for k, v := range rc {
		d[k] -= v
	}
	c := lk - rk
	var lenCoef, idxCoef int64
	nLen, nIdx := 0, 0
	for k, v := range d {
		if v == 0 {
			continue
		}
		if strings.HasPrefix(k, "len:") {
			lenCoef, nLen = v, nLen+1
		} else {
			idxCoef, nIdx = v, nIdx+1
		}
	}
	if nLen != 1 || nIdx != 1 {
		return 0
	}
	switch {
	case idxCoef == 1 && lenCoef == -1 && c == 1:
		return 1
	case idxCoef == -1 && lenCoef == 1 && c == -1:
		return -1
	}
	return 0
}
