package main

// guards.go — E4: GUARD / ORD-EVAL / ENUM-EVAL obligations. An operation (an
// entry function) is explored once per case of a finite case split (orderings
// of tracked operand pairs, values of an enum, a lookup failing or not). For
// each case the set of reached "commit" effects is compared with what the
// property states: unreachable in rejecting cases, reachable in accepting ones.

import (
	"fmt"
	"go/token"
	"go/types"
	"sort"
	"strings"

	"golang.org/x/tools/go/ssa"
)

// extra comparison atoms (equality-only APIs)
var eqCalls = map[string]bool{
	sdkPath + ".AccAddress.Equals": true, "bytes.Equal": true, "strings.EqualFold": false,
	mathPath + ".LegacyDec.Equal": true, mathPath + ".Int.Equal": true, sdkPath + ".Coin.IsEqual": true, sdkPath + ".Coin.Equal": true,
}

// caseRule is the rule used for one case of a guard obligation.
type caseRule struct {
	BaseRule
	w       *World
	pairs   []ordPair
	enums   []enumFix
	errs    []errFix
	vals    []func(x *Explorer, fr *Frame, v ssa.Value) AV
	calls   []func(x *Explorer, fr *Frame, c ssa.CallInstruction) ([]AV, CallMode)
	commit  func(e *Effect, in ssa.Instruction) bool
	reached map[ssa.Instruction]bool
	used    map[string]int // how often each atom decided something (vacuity control)
}

type enumFix struct {
	name  string
	match func(t *Term, v ssa.Value) bool
	val   int64
}

type errFix struct {
	name  string
	match func(x *Explorer, fr *Frame, c ssa.CallInstruction) bool
	fail  bool
}

func newCase(w *World, commit func(e *Effect, in ssa.Instruction) bool) *caseRule {
	return &caseRule{w: w, commit: commit, reached: map[ssa.Instruction]bool{}, used: map[string]int{}}
}

func (c *caseRule) decide(x *Explorer, fr *Frame, op token.Token, l, r ssa.Value) AV {
	if len(c.pairs) == 0 {
		return Unknown
	}
	lt, rt := x.TM.Of(fr, l), x.TM.Of(fr, r)
	for i, p := range c.pairs {
		switch p.match(x, fr, lt, rt) {
		case 1:
			c.used[fmt.Sprintf("pair%d", i)]++
			return cmpUnder(op, p.ord)
		case -1:
			c.used[fmt.Sprintf("pair%d", i)]++
			return cmpUnder(flipOp(op), p.ord)
		}
	}
	return Unknown
}

func (c *caseRule) CallResult(x *Explorer, fr *Frame, call ssa.CallInstruction) ([]AV, CallMode) {
	cc := call.Common()
	k := callKey(cc)
	for _, f := range c.calls {
		if vals, mode := f(x, fr, call); mode != CallDefault {
			return vals, mode
		}
	}
	if op, ok := intCmp[k]; ok && len(cc.Args) == 2 {
		if v := c.decide(x, fr, op, cc.Args[0], cc.Args[1]); v.K != avUnknown {
			return []AV{v}, CallReplace
		}
	}
	if eqCalls[k] && len(cc.Args) == 2 {
		if v := c.decide(x, fr, token.EQL, cc.Args[0], cc.Args[1]); v.K != avUnknown {
			return []AV{v}, CallReplace
		}
	}
	for _, e := range c.errs {
		if e.match(x, fr, call) {
			c.used["err:"+e.name]++
			n := cc.Signature().Results().Len()
			vals := make([]AV, n)
			if e.fail {
				vals[n-1] = NonNil
			} else {
				vals[n-1] = Nil
			}
			return vals, CallOverride
		}
	}
	return nil, CallDefault
}

func (c *caseRule) Compare(x *Explorer, fr *Frame, op token.Token, l, r ssa.Value) AV {
	return c.decide(x, fr, op, l, r)
}

func (c *caseRule) ValueOf(x *Explorer, fr *Frame, v ssa.Value) AV {
	if len(c.enums) > 0 {
		if _, isBasic := v.Type().Underlying().(*types.Basic); isBasic {
			if n := namedOf(v.Type()); n != nil {
				t := x.TM.Of(fr, v)
				for _, e := range c.enums {
					if e.match(t, v) {
						c.used["enum:"+e.name]++
						return Int(e.val)
					}
				}
			}
		}
	}
	for _, f := range c.vals {
		if a := f(x, fr, v); a.K != avUnknown {
			return a
		}
	}
	if ta, ok := v.(*ssa.TypeAssert); ok && ta.CommaOk {
		return Unknown
	}
	return Unknown
}

func (c *caseRule) OnInstr(x *Explorer, fr *Frame, in ssa.Instruction, st uint64) uint64 {
	if e := c.w.EffectOf(in); e != nil && c.commit(e, in) {
		c.reached[in] = true
	}
	return st
}

// guardCase is one case of an obligation.
type guardCase struct {
	label  string
	build  func(c *caseRule)
	accept bool
}

type guardSpec struct {
	rule        string
	id          string // position independent construct key
	what        string
	root        *ssa.Function
	commit      func(e *Effect, in ssa.Instruction) bool
	commitTxt   string
	common      func(c *caseRule) // valuation common to all cases (e.g. a fixed bid type)
	cases       []guardCase
	atoms       []string // atoms that must have decided something in at least one case (vacuity control)
	consequence string
}

// runGuard evaluates a guard obligation.
func runGuard(w *World, r *Report, tm *Terms, g guardSpec) {
	var bad []string
	usedTotal := map[string]int{}
	var table []string
	for _, gc := range g.cases {
		c := newCase(w, g.commit)
		if g.common != nil {
			g.common(c)
		}
		gc.build(c)
		x := NewExplorer(w, tm, c)
		x.Run(g.root, 0)
		for k, n := range c.used {
			usedTotal[k] += n
		}
		got := len(c.reached) > 0
		table = append(table, fmt.Sprintf("%s→%s", gc.label, map[bool]string{true: "commit", false: "reject"}[got]))
		if got != gc.accept {
			var at []string
			for in := range c.reached {
				at = append(at, w.instrPos(in))
			}
			sort.Strings(at)
			if gc.accept {
				bad = append(bad, fmt.Sprintf("case [%s] must be accepted but %s is unreachable", gc.label, g.commitTxt))
			} else {
				bad = append(bad, fmt.Sprintf("case [%s] must be rejected but %s is reachable (%s)", gc.label, g.commitTxt, strings.Join(at, ",")))
			}
		}
	}
	for _, a := range g.atoms {
		if usedTotal[a] == 0 {
			bad = append(bad, fmt.Sprintf("the tracked condition %q is never evaluated on any path of %s (the check it stands for is gone or compares something else)", a, fnName(g.root)))
		}
	}
	why := strings.Join(bad, "; ")
	if why != "" && g.consequence != "" {
		why += " — " + g.consequence
	}
	o := r.Check(len(bad) == 0, g.rule, g.id, w.pos(g.root.Pos()), g.what+" [decision table: "+strings.Join(table, ", ")+"]", why)
	_ = o
}

// ---------------------------------------------------------------------------
// operand matchers

// pairOf builds an ordPair matcher from two term predicates.
func pairOf(a, b func(t *Term) bool) func(x *Explorer, fr *Frame, l, r *Term) int {
	return func(x *Explorer, fr *Frame, l, r *Term) int {
		switch {
		case a(l) && b(r):
			return 1
		case a(r) && b(l):
			return -1
		}
		return 0
	}
}

// fromColl: the term derives from a record read from the given keeper collection
// (a collections call on that field, or a repository helper whose call tree reads it).
func fromColl(t *Term, coll string) bool {
	return t.Any(func(x *Term) bool {
		if x.Op != "call" {
			return false
		}
		if strings.Contains(x.Name, collPath+".") && len(x.Args) > 0 && isField(x.Args[0], coll) {
			return true
		}
		if c, ok := x.V.(*ssa.Call); ok && theWorld != nil {
			if f := theWorld.calleeBody(&c.Call); f != nil {
				return theWorld.readsColl(f, coll)
			}
		}
		return false
	})
}

var theWorld *World
var readsCollMemo = map[string]bool{}

// readsColl: fn's call tree contains a store read of the collection.
func (w *World) readsColl(fn *ssa.Function, coll string) bool {
	k := fn.String() + "|" + coll
	if v, ok := readsCollMemo[k]; ok {
		return v
	}
	res := false
	for f := range w.reachableFrom(fn) {
		for _, b := range f.Blocks {
			for _, in := range b.Instrs {
				if e := w.EffectOf(in); e != nil && e.Kind == EffStoreRead && e.Coll == coll {
					res = true
				}
			}
		}
	}
	readsCollMemo[k] = res
	return res
}

// fieldOfMsg: field<name> of a parameter (the message / request).
func fieldOfParam(t *Term, name string) bool {
	for _, a := range t.Alts() {
		if a.Op == "const" {
			continue
		}
		if !(isField(a, name) && a.Args[0].Op == "param") {
			return false
		}
	}
	return t.Any(func(x *Term) bool { return isField(x, name) && x.Args[0].Op == "param" })
}

// containsFieldOfParam: some sub-term is field<name>(param).
func containsFieldOfParam(t *Term, name string) bool {
	return t.Any(func(x *Term) bool { return isField(x, name) && x.Args[0].Op == "param" })
}

// storedField: field<name> of a record read from collection coll (and nothing of the message).
func storedField(t *Term, coll, name string) bool {
	return t.Any(func(x *Term) bool { return isField(x, name) && fromColl(x.Args[0], coll) })
}

// isBlockTime: the block time of the context.
func isBlockTime(t *Term) bool {
	for _, a := range t.Alts() {
		if !(a.Op == "call" && strings.HasSuffix(a.Name, ".Context.BlockTime")) {
			return false
		}
	}
	return true
}

func enumOfField(field string) func(t *Term, v ssa.Value) bool {
	return func(t *Term, v ssa.Value) bool { return isField(t, field) }
}

func commitStore(coll string) func(e *Effect, in ssa.Instruction) bool {
	return func(e *Effect, in ssa.Instruction) bool { return e.Kind == EffStoreWrite && e.Coll == coll }
}

// three-way orderings
var ordNames = map[int]string{-1: "<", 0: "=", 1: ">"}
