package main

// C15 — exported genesis validates and re-imports.
//   GEN-COVER   every keeper collection is written by import and read by export (or is a derived counter)
//   GEN-PAIR    each genesis list is exported from and imported into the same collection, unchanged
//   GEN-DUPKEY  the duplicate key of GenesisState.Validate uses exactly the fields that form the store key
//   KV-AGREE    import stores each record under the key formed from the record's own fields

import (
	"fmt"
	"go/token"
	"go/types"
	"sort"
	"strings"

	"golang.org/x/tools/go/ssa"
)

func init() { register("C15", checkC15) }

// derived counters: re-derived by import instead of being exported (ids are dense because nothing deletes records: NO-DELETE, C11)
var derivedCounters = map[string]string{
	"AuctionSeq": "re-derived: import draws every auction id from AuctionSeq.Next in stored (= id) order",
	"BidSeq":     "re-derived: import draws every bid id from the per-auction allocator in stored (= id) order",
}

// storeKeyFields derives, from the keeper's own Set sites, which fields of a
// record form its store key: collection -> ordered field names.
func storeKeyFields(w *World, tm *Terms) (map[string][]string, map[string]string) {
	out := map[string][]string{}
	src := map[string]string{}
	for _, fn := range w.Funcs {
		if pkgOf(fn) == nil || pkgOf(fn).Path() != keeperPath {
			continue
		}
		fr := tm.Root(fn)
		for _, b := range fn.Blocks {
			for _, in := range b.Instrs {
				e := w.EffectOf(in)
				if e == nil || e.Kind != EffStoreWrite || e.Method != "Set" {
					continue
				}
				args := in.(ssa.CallInstruction).Common().Args
				if len(args) < 4 {
					continue
				}
				key := tm.OperandAt(fr, in, args[2])
				val := tm.OperandAt(fr, in, args[3])
				rec := recordStruct(args[3].Type())
				if rec == nil {
					continue
				}
				comps := keyComponents(key)
				var fields []string
				ok := true
				for _, c := range comps {
					f := fieldMatching(val, rec, c, e.Coll == "Auction")
					if f == "" {
						ok = false
						break
					}
					fields = append(fields, f)
				}
				if ok && len(fields) > 0 {
					if prev, have := out[e.Coll]; !have || len(prev) == 0 {
						out[e.Coll] = fields
						src[e.Coll] = w.instrPos(in)
					}
				}
			}
		}
	}
	return out, src
}

// recordStruct returns the struct type of a record value (Bid, AllowedBidder, VestingQueue; AuctionI -> BaseAuction).
func recordStruct(t types.Type) *types.Struct {
	if n := namedOf(t); n != nil {
		if _, isIface := n.Underlying().(*types.Interface); isIface && n.Obj().Name() == "AuctionI" {
			if o := n.Obj().Pkg().Scope().Lookup("BaseAuction"); o != nil {
				return structOf(o.Type())
			}
		}
		if s, ok := n.Underlying().(*types.Struct); ok {
			return s
		}
	}
	return structOf(t)
}

func keyComponents(key *Term) []*Term {
	if key.Op == "call" && strings.HasSuffix(key.Name, "collections.Join") {
		return key.Args
	}
	return []*Term{key}
}

// related: the key component and the field value denote the same datum
// (equal, or one is a parse/format of the other).
func related(a, b *Term) bool {
	ca, cb := canon(a), canon(b)
	if ca.Key() == cb.Key() {
		return true
	}
	if ca.Op == "zero" || cb.Op == "zero" || ca.Op == "const" || cb.Op == "const" {
		return false
	}
	contains := func(x, y *Term) bool { return x.Any(func(t *Term) bool { return t.Key() == y.Key() }) }
	return contains(ca, cb) || contains(cb, ca)
}

func fieldMatching(val *Term, rec *types.Struct, comp *Term, auction bool) string {
	for i := 0; i < rec.NumFields(); i++ {
		f := rec.Field(i).Name()
		ft := recordField(val, f, auction)
		if ft.Op == "zero" {
			continue
		}
		if related(comp, ft) {
			return f
		}
	}
	return ""
}

func checkC15(w *World, r *Report) {
	r.Explanation = "Decides: (GEN-COVER) every collection field of keeper.Keeper is written in the call tree of genesis import and read in the call tree of export, or is a counter that import re-derives; (GEN-PAIR) every list of GenesisState is filled by export from a walk over one collection with the stored value unchanged, and import stores the elements of that list into the same collection; (GEN-DUPKEY) for each list, the fields GenesisState.Validate builds its duplicate-detection key from are exactly the record fields that form the collection's store key (derived from the keeper's own Set sites), so a state that the store can hold is never rejected as a duplicate and two records the store would merge are; (KV-AGREE) import stores each record under the key built from the record's own fields (or sets the record's id to the key first)."
	r.NotDecided = "per-object Validate acceptance of every reachable value (e.g. vesting schedules re-validated against an extended last end time); lock-step behavioural equivalence after re-import."
	checkModuleIface(w, r, "MOD-IFACE", "InitGenesis", "ExportGenesis", "ValidateGenesis", "DefaultGenesis")
	r.Rule("GEN-COVER", "every collection round-trips through genesis or is a derived counter", 8)
	r.Rule("GEN-PAIR", "each genesis list is exported from and imported into the same collection", 4)
	r.Rule("GEN-DUPKEY", "Validate's duplicate key = the store key's fields", 4)
	r.Rule("KV-AGREE", "import keys each record by its own fields", 4)
	r.Rule("GEN-VALID-END", "genesis validation checks schedules against the end time they were agreed for", 1)
	r.Rule("GEN-PARAMS", "export/import change a Params field only to normalise that same field's nil slice", 4)
	r.Rule("GEN-VALID-POS", "stored-record validators demand positivity only of fields whose writers guarantee it", 3)

	tm := NewTerms(w)
	initM, exportM := w.genesisFns()
	initTree, exportTree := w.reachableFrom(initM), w.reachableFrom(exportM)

	// ------------------------------------------------------------ GEN-COVER
	written, read := map[string]string{}, map[string]string{}
	for fn := range initTree {
		for _, b := range fn.Blocks {
			for _, in := range b.Instrs {
				if e := w.EffectOf(in); e != nil && e.Kind == EffStoreWrite {
					written[e.Coll] = w.instrPos(in)
				}
			}
		}
	}
	for fn := range exportTree {
		for _, b := range fn.Blocks {
			for _, in := range b.Instrs {
				if e := w.EffectOf(in); e != nil && e.Kind == EffStoreRead {
					read[e.Coll] = w.instrPos(in)
				}
			}
		}
	}
	for _, c := range sortedKeys(w.CollFields) {
		where := w.pos(w.CollFields[c].Pos())
		what := fmt.Sprintf("collection %s is written by genesis import and read by genesis export", c)
		switch {
		case written[c] != "" && read[c] != "":
			r.Pass("GEN-COVER", "coll:"+c, where, what+fmt.Sprintf(" (import %s, export %s)", written[c], read[c]))
		case written[c] != "" && derivedCounters[c] != "":
			r.Pass("GEN-COVER", "coll:"+c, where, what+" — "+derivedCounters[c])
		case written[c] == "" && read[c] == "":
			r.Fail("GEN-COVER", "coll:"+c, where, what, "the collection is neither exported nor imported: its contents are lost across an export/import and the re-imported chain behaves differently")
		case written[c] == "":
			r.Fail("GEN-COVER", "coll:"+c, where, what, "exported but never imported")
		default:
			r.Fail("GEN-COVER", "coll:"+c, where, what, "imported but never exported")
		}
	}

	// ------------------------------------------------------------ GEN-PAIR
	gs := w.lookupNamed(typesPath, "GenesisState")
	gst := gs.Underlying().(*types.Struct)
	var lists []string
	for i := 0; i < gst.NumFields(); i++ {
		if _, ok := gst.Field(i).Type().Underlying().(*types.Slice); ok {
			lists = append(lists, gst.Field(i).Name())
		}
	}
	// export: list <- collection
	exportFrom := map[string]string{}
	exportVal := map[string]bool{}
	exportCond := map[string]string{}
	// walkCallbackOf: fn is handed as a callback to a read (Walk/Iterate) of a keeper collection; returns the
	// collection, the call, and the frame-free range argument check
	walkCallbackOf := func(fn *ssa.Function) (coll string, call ssa.CallInstruction) {
		if fn.Parent() == nil {
			return "", nil
		}
		for _, pb := range fn.Parent().Blocks {
			for _, pin := range pb.Instrs {
				pc, ok := pin.(ssa.CallInstruction)
				if !ok {
					continue
				}
				e := w.EffectOf(pin)
				if e == nil || e.Kind != EffStoreRead {
					continue
				}
				for _, a := range pc.Common().Args {
					if mc, ok := a.(*ssa.MakeClosure); ok && mc.Fn == fn {
						return e.Coll, pc
					}
				}
			}
		}
		return "", nil
	}
	// every store into a list field of the exported state, in the calling context of export: the stored value is (or
	// contains, through a local slice or a helper's result) append(…, x) with x derived from the value parameter of a
	// walk callback over one collection
	tm.walkContexts([]*ssa.Function{exportM}, func(fr *Frame, in ssa.Instruction) {
		st, ok := in.(*ssa.Store)
		if !ok {
			return
		}
		fa, ok := st.Addr.(*ssa.FieldAddr)
		if !ok || namedOf(fa.X.Type()) != gs {
			return
		}
		fname := gst.Field(fa.Field).Name()
		vt := tm.OperandAt(fr, in, st.Val)
		// a list produced by a helper whose result stays opaque: look at what the helper returns
		var extra []*Term
		vt.Walk(func(t *Term) bool {
			if c, ok := t.V.(*ssa.Call); ok && t.Op == "call" {
				if callee := w.calleeBody(&c.Call); callee != nil {
					hfr := tm.Root(callee)
					for _, b := range callee.Blocks {
						if ret, ok := b.Instrs[len(b.Instrs)-1].(*ssa.Return); ok {
							for _, rv := range ret.Results {
								extra = append(extra, tm.OperandAt(hfr, ret, rv))
							}
						}
					}
				}
			}
			return true
		})
		// loop-carried / captured accumulators appear as named cyclic references: unfold them once
		extra = append([]*Term{vt}, extra...)
		for i := 0; i < len(extra) && i < 16; i++ {
			extra[i].Walk(func(t *Term) bool {
				if t.Op == "rec" {
					if v, ok := t.V.(ssa.Instruction); ok && v.Parent() != nil {
						if val, ok := t.V.(ssa.Value); ok {
							u := tm.Of(tm.Root(v.Parent()), val)
							if u.Op != "rec" {
								extra = append(extra, u)
							}
						}
					}
				}
				return true
			})
		}
		if len(extra) > 1 {
			vt = mk("tuple", "", nil, extra...)
		}
		vt.Walk(func(t *Term) bool {
			if !(t.Op == "builtin" && t.Name == "append" && len(t.Args) == 2) {
				return true
			}
			app, _ := t.V.(*ssa.Call)
			t.Args[1].Walk(func(pt *Term) bool {
				par, ok := pt.V.(*ssa.Parameter)
				if pt.Op != "param" || !ok || par.Parent() == nil {
					return true
				}
				cb := par.Parent()
				coll, pc := walkCallbackOf(cb)
				if coll == "" || len(cb.Params) == 0 || cb.Params[len(cb.Params)-1] != par {
					return true
				}
				exportFrom[fname] = coll
				exportVal[fname] = true
				// every stored record is exported: the append is on every returning path of the callback and the walk is not filtered
				if app != nil && app.Parent() == cb {
					for _, rb := range cb.Blocks {
						if _, isRet := rb.Instrs[len(rb.Instrs)-1].(*ssa.Return); isRet && !(app.Block() == rb || app.Block().Dominates(rb)) {
							exportCond[fname] = "the callback can return at " + w.instrPos(rb.Instrs[len(rb.Instrs)-1]) + " without appending the record"
						}
					}
				}
				if len(pc.Common().Args) >= 3 {
					if rt := tm.OperandAt(tm.Root(cb.Parent()), pc, pc.Common().Args[2]); !(rt.Op == "const" && rt.Name == "nil") {
						exportCond[fname] = "the export walk is restricted to the range " + rt.String()
					}
				}
				return true
			})
			return true
		})
	})
	// import: list -> collection (value is an element of the list, possibly unpacked)
	importInto := map[string]string{}
	type impSite struct {
		coll     string
		in       ssa.Instruction
		key, val *Term
		fn       *ssa.Function
	}
	var impSites []impSite
	for fn := range initTree {
		if pkgOf(fn) == nil || pkgOf(fn).Path() != modulePath {
			continue
		}
		fr := tm.Root(fn)
		for _, b := range fn.Blocks {
			for _, in := range b.Instrs {
				e := w.EffectOf(in)
				if e == nil || e.Kind != EffStoreWrite || e.Method != "Set" {
					continue
				}
				args := in.(ssa.CallInstruction).Common().Args
				if len(args) < 4 {
					continue
				}
				val := tm.OperandAt(fr, in, args[3])
				key := tm.OperandAt(fr, in, args[2])
				impSites = append(impSites, impSite{e.Coll, in, key, val, fn})
				val.Walk(func(t *Term) bool {
					if t.Op == "field" {
						for _, l := range lists {
							if t.Name == l {
								importInto[l] = e.Coll
							}
						}
					}
					return true
				})
			}
		}
	}
	for _, l := range lists {
		where := w.pos(gst.Field(fieldIndex(gst, l)).Pos())
		ec, ic := exportFrom[l], importInto[l]
		what := fmt.Sprintf("genesis list %s is exported from and imported into the same collection", l)
		switch {
		case ec == "":
			r.Fail("GEN-PAIR", "list:"+l, where, what, "no export walk appends to this list: exported genesis loses these records")
		case ic == "":
			r.Fail("GEN-PAIR", "list:"+l, where, what, "import never stores the elements of this list")
		case ec != ic:
			r.Fail("GEN-PAIR", "list:"+l, where, what, fmt.Sprintf("exported from %s but imported into %s", ec, ic))
		case exportCond[l] != "":
			r.Fail("GEN-PAIR", "list:"+l, where, what, "not every stored record is exported: "+exportCond[l])
		case !exportVal[l]:
			r.Fail("GEN-PAIR", "list:"+l, where, what, "the exported element is not the stored value of the walk callback")
		default:
			r.Pass("GEN-PAIR", "list:"+l, where, what+" ("+ec+")")
		}
	}

	// ------------------------------------------------------------ KV-AGREE (import)
	keyFields, keySrc := storeKeyFields(w, tm)
	for _, s := range impSites {
		if _, isList := keyFields[s.coll]; !isList {
			continue
		}
		construct := fmt.Sprintf("import:%s", s.coll)
		what := fmt.Sprintf("import stores each %s record under the key built from the record's own key fields %v", s.coll, keyFields[s.coll])
		comps := keyComponents(s.key)
		rec := recordStruct(s.in.(ssa.CallInstruction).Common().Args[3].Type())
		ok, why := len(comps) == len(keyFields[s.coll]), ""
		if !ok {
			why = fmt.Sprintf("key has %d component(s), the store key has %d", len(comps), len(keyFields[s.coll]))
		}
		for i := 0; ok && i < len(comps); i++ {
			ft := recordField(s.val, keyFields[s.coll][i], s.coll == "Auction")
			if related(comps[i], ft) {
				continue
			}
			// idiom: the record's id is set to the key before the write
			if setIDDominates(w, s.fn, s.in.(ssa.CallInstruction), i) {
				continue
			}
			ok = false
			why = fmt.Sprintf("key component %d is %s but the stored record's %s is %s: the record is filed under a key that disagrees with its own content", i, comps[i].String(), keyFields[s.coll][i], ft.String())
		}
		_ = rec
		r.Check(ok, "KV-AGREE", construct, w.instrPos(s.in), what, why)
	}

	checkGenValidEnd(w, r, tm)
	checkGenParams(w, r, tm, initTree, exportTree)
	// a failure while importing or exporting fails the operation: an import that swallows an error (or returns early
	// with nil) leaves part of the state out, and the node starts on it
	r.Rule("GEN-ERRPROP", "failures of genesis import/export are reported", 10)
	{
		var fns []*ssa.Function
		seenFn := map[*ssa.Function]bool{}
		for _, tr := range []map[*ssa.Function]bool{initTree, exportTree} {
			for _, fn := range sortedFns(tr) {
				if p := pkgOf(fn); p == nil || !w.isRepoPkg(p) || p.Path() == simPath || w.isGenerated(fn) || seenFn[fn] {
					continue
				}
				seenFn[fn] = true
				fns = append(fns, fn)
			}
		}
		fs := &failSummary{w: w, tm: tm, memo: map[*ssa.Function]bool{}}
		for _, fn := range fns {
			for _, b := range fn.Blocks {
				for _, in := range b.Instrs {
					c, ok := in.(ssa.CallInstruction)
					if !ok || optionalRespelling(c) {
						// (a parse whose only use is to respell the very string it parsed: when it fails the string is
						// kept as it is — not a failure of the import)
						continue
					}
					errPropSite(w, r, tm, fs, fn, c, "GEN-ERRPROP")
				}
			}
		}
	}
	checkGenValidPos(w, r, tm)
	// ids drawn after an import are fresh, and every imported bid is numbered by its auction's counter
	r.SubWhere(checkC19, keepPrefix("genesis:"), "ID-MONO")

	// ------------------------------------------------------------ GEN-DUPKEY
	validate := w.methodOf(gs, "Validate")
	if validate == nil {
		fatalf("GenesisState.Validate not found")
	}
	vfr := tm.Root(validate)
	dup := map[string]map[string]bool{}
	dupWhere := map[string]string{}
	// the duplicate tests of the validator, wherever they are written (the method itself or helpers it calls)
	tm.walkFrom(vfr, func(vfr *Frame, in ssa.Instruction) {
		{
			lk, ok := in.(*ssa.Lookup)
			if !ok || !lk.CommaOk {
				return
			}
			kt := tm.Of(vfr, lk.Index)
			var list string
			fields := map[string]bool{}
			kt.Walk(func(t *Term) bool {
				if t.Op == "field" {
					isList := false
					for _, l := range lists {
						if t.Name == l {
							list, isList = l, true
						}
					}
					if !isList && !hasListField(t, lists) {
						return true
					}
					if !isList {
						fields[t.Name] = true
					}
				}
				return true
			})
			if list == "" {
				return
			}
			// only fields applied directly to the element (or the unpacked element)
			direct := map[string]bool{}
			kt.Walk(func(t *Term) bool {
				if t.Op == "field" && fields[t.Name] && elementOf(t.Args[0], lists) {
					direct[t.Name] = true
				}
				return true
			})
			dup[list] = direct
			dupWhere[list] = w.instrPos(in)
		}
	})
	for _, l := range lists {
		coll := importInto[l]
		if coll == "" {
			coll = exportFrom[l]
		}
		want := keyFields[coll]
		construct := "list:" + l
		what := fmt.Sprintf("GenesisState.Validate detects duplicates in %s by the store key fields %v of collection %s (derived from the keeper's Set at %s)", l, want, coll, keySrc[coll])
		got, have := dup[l]
		if !have {
			r.Fail("GEN-DUPKEY", construct, w.pos(validate.Pos()), what, "no duplicate detection for this list: two records with the same store key overwrite each other silently on import")
			continue
		}
		var gotL []string
		for f := range got {
			gotL = append(gotL, f)
		}
		sort.Strings(gotL)
		wantS := append([]string{}, want...)
		sort.Strings(wantS)
		same := len(gotL) == len(wantS)
		for i := 0; same && i < len(gotL); i++ {
			same = gotL[i] == wantS[i]
		}
		why := ""
		if !same {
			why = fmt.Sprintf("the duplicate key is built from %v but records are stored under %v: ", gotL, wantS)
			if len(gotL) < len(wantS) {
				why += "any exported state with two records that share " + strings.Join(gotL, "+") + " (two allowed bidders / instalments / first bids of different auctions) fails the module's own genesis validation"
			} else {
				why += "records that collide in the store are not recognised as duplicates"
			}
		}
		r.Check(same, "GEN-DUPKEY", construct, dupWhere[l], what, why)
	}
}

// checkGenValidEnd: the vesting schedule is an agreed term validated at creation against msg.EndTime, which becomes
// EndTimes[0]; later end times are appended by extension rounds without re-validating the schedule (EXT-APPEND,
// IMMUT-FIELDS). A stored-record validator that compares the schedule with any other element of EndTimes rejects
// reachable states (an auction in an extended round whose end time passed its first release time).
func checkGenValidEnd(w *World, r *Report, tm *Terms) {
	n := 0
	for _, fn := range w.Funcs {
		if p := pkgOf(fn); p == nil || p.Path() != typesPath || w.isGenerated(fn) {
			continue
		}
		// validators of stored records: methods named by the AuctionI interface's Validate
		obj := funcObj(fn)
		if obj == nil || obj.Name() != "Validate" || recvNamed(obj) == nil {
			continue
		}
		fr := tm.Root(fn)
		for _, b := range fn.Blocks {
			for _, in := range b.Instrs {
				c, ok := in.(*ssa.Call)
				if !ok || len(c.Call.Args) != 2 {
					continue
				}
				a0 := tm.OperandAt(fr, in, c.Call.Args[0])
				if fieldBase(a0, "VestingSchedules") == nil {
					continue
				}
				n++
				a1 := tm.OperandAt(fr, in, c.Call.Args[1])
				ok2 := a1.Op == "elem" && a1.Name == "0" && fieldBase(a1.Args[0], "EndTimes") != nil
				r.Check(ok2, "GEN-VALID-END", fnName(fn)+":schedule-vs-end-time", w.instrPos(in),
					"the stored record's schedule is validated against EndTimes[0], the end time it was validated against at creation",
					"the schedule is validated against "+a1.String()+": after an extension round the current end time may lie beyond the first release time, so the exported genesis of a reachable state is rejected by the module's own validation")
			}
		}
	}
	if n == 0 {
		r.Fail("GEN-VALID-END", "anchor", typesPath, "a stored-record validator checks the vesting schedule", "no Validate method passes VestingSchedules to a schedule validator")
	}
}

// checkGenParams: genesis export/import never change a Params field except to normalise an empty slice of that very
// field. Decided per slice-typed field F of Params and per genesis function by exploring the function (and whatever
// helpers it calls) with "len(F) ≠ 0" fixed: on every path, whatever is stored into F is F's own value, and whatever is
// stored into another field G is G's own value or an empty slice. How the normalisation is spelled — an if around a
// store, a helper returning its argument or an empty value — does not matter.
type genParamsRule struct {
	BaseRule
	w     *World
	field string
	bad   map[string]bool
	seen  int
}

func paramsFieldOf(t *Term) string {
	x := t
	for x.Op == "deref" || x.Op == "new" || x.Op == "cell" {
		x = x.Args[0]
	}
	if x.Op == "field" {
		return x.Name
	}
	return ""
}

func (g *genParamsRule) Compare(x *Explorer, fr *Frame, op token.Token, a, b ssa.Value) AV {
	isLenF := func(v ssa.Value) bool {
		c, ok := v.(*ssa.Call)
		if !ok {
			return false
		}
		bi, ok := c.Call.Value.(*ssa.Builtin)
		if !ok || bi.Name() != "len" || len(c.Call.Args) != 1 {
			return false
		}
		t := x.TM.OperandAt(fr, c, c.Call.Args[0])
		// the measured value is F — possibly joined with what the record held before it was overwritten with the
		// stored parameters (the default genesis' own value), never another field
		isF := false
		for _, alt := range t.Alts() {
			switch paramsFieldOf(alt) {
			case g.field:
				isF = true
			case "":
			default:
				return false
			}
		}
		return isF
	}
	isZero := func(v ssa.Value) bool {
		c, ok := v.(*ssa.Const)
		return ok && c.Value != nil && c.Value.ExactString() == "0"
	}
	flip := map[token.Token]token.Token{token.LSS: token.GTR, token.GTR: token.LSS, token.LEQ: token.GEQ, token.GEQ: token.LEQ, token.EQL: token.EQL, token.NEQ: token.NEQ}
	switch {
	case isLenF(a) && isZero(b):
	case isLenF(b) && isZero(a):
		op = flip[op]
	default:
		return Unknown
	}
	// len(F) op 0 with len(F) > 0
	switch op {
	case token.EQL, token.LSS, token.LEQ:
		return False
	case token.NEQ, token.GTR, token.GEQ:
		return True
	}
	return Unknown
}

func (g *genParamsRule) OnInstr(x *Explorer, fr *Frame, in ssa.Instruction, st uint64) uint64 {
	s, ok := in.(*ssa.Store)
	if !ok {
		return st
	}
	fa, ok := s.Addr.(*ssa.FieldAddr)
	if !ok || !isNamed(fa.X.Type(), typesPath, "Params") {
		return st
	}
	if p := pkgOf(in.Parent()); p == nil || p.Path() != modulePath {
		return st
	}
	field := structOf(fa.X.Type()).Field(fa.Field).Name()
	g.seen++
	vt := x.TM.OperandAt(fr, in, s.Val)
	for _, alt := range vt.Alts() {
		empty := alt.Op == "slice" || alt.Op == "zero" || (alt.Op == "const" && alt.Name == "nil")
		own := paramsFieldOf(alt) == field
		switch {
		case own:
		case empty && field != g.field:
		case empty:
			g.bad[fmt.Sprintf("%s: a non-empty Params.%s is replaced by an empty value (the normalisation is guarded by something other than len(%s) == 0): the fee is silently dropped from the exported/imported state", g.w.instrPos(in), field, field)] = true
		default:
			g.bad[fmt.Sprintf("%s: Params.%s is overwritten with %s", g.w.instrPos(in), field, alt.String())] = true
		}
	}
	return st
}

func checkGenParams(w *World, r *Report, tm *Terms, trees ...map[*ssa.Function]bool) {
	pt := w.lookupNamed(typesPath, "Params")
	var fields []string
	if st, ok := pt.Underlying().(*types.Struct); ok {
		for i := 0; i < st.NumFields(); i++ {
			if _, isSlice := st.Field(i).Type().Underlying().(*types.Slice); isSlice {
				fields = append(fields, st.Field(i).Name())
			}
		}
	}
	initG, exportG := w.genesisFns()
	for _, root := range []*ssa.Function{initG, exportG} {
		for _, f := range fields {
			g := &genParamsRule{w: w, field: f, bad: map[string]bool{}}
			x := NewExplorer(w, tm, g)
			x.TrackPhi = true
			x.Run(root, 0)
			r.Check(len(g.bad) == 0, "GEN-PARAMS", fmt.Sprintf("%s:Params.%s", fnName(root), f), w.pos(root.Pos()),
				fmt.Sprintf("with a non-empty Params.%s, %s stores into a Params field only that field's own value (or an empty value into another, possibly empty, field) [%d stores on the explored paths]", f, fnName(root), g.seen),
				strings.Join(sortedKeys(g.bad), "; "))
		}
	}
}

// positivity-guaranteed fields: every writer of the field stores a value that the message validation (VB-PRESENT, C18)
// or the allow-list API's own validation has checked to be positive.
var positiveByConstruction = map[string]string{
	"Bid.Price": "MsgPlaceBid/MsgModifyBid.ValidateBasic", "Bid.Coin.Amount": "MsgPlaceBid/MsgModifyBid.ValidateBasic",
	"AllowedBidder.MaxBidAmount": "AllowedBidder.Validate at every write (L3, C18)", "BaseAuction.StartPrice": "MsgCreate*.ValidateBasic",
	"VestingSchedule.Weight": "ValidateVestingSchedules at creation (agreed term, never rewritten)",
}

// checkGenValidPos: a validator of stored records that demands positivity of a field the module itself may store as
// zero (a floor share, zero proceeds, an exhausted remainder) rejects the export of a reachable state.
func checkGenValidPos(w *World, r *Report, tm *Terms) {
	gs := w.lookupNamed(typesPath, "GenesisState")
	root := w.methodOf(gs, "Validate")
	n := 0
	for _, fn := range sortedFns(w.reachableFrom(root)) {
		if p := pkgOf(fn); p == nil || p.Path() != typesPath || w.isGenerated(fn) {
			continue
		}
		fr := tm.Root(fn)
		for _, b := range fn.Blocks {
			for _, in := range b.Instrs {
				c, ok := in.(*ssa.Call)
				if !ok || len(c.Call.Args) != 1 {
					continue
				}
				k := callKey(&c.Call)
				if !(strings.HasSuffix(k, ".IsPositive") || strings.HasSuffix(k, ".IsZero")) {
					continue
				}
				t := tm.OperandAt(fr, in, c.Call.Args[0])
				// field path of a record: field<..>(field<..>(param/elem))
				var path []string
				x := t
				for x.Op == "field" {
					path = append([]string{x.Name}, path...)
					x = x.Args[0]
				}
				for x.Op == "deref" || x.Op == "new" {
					x = x.Args[0]
				}
				if len(path) == 0 || x.V == nil {
					continue
				}
				owner := namedOf(x.V.Type())
				if owner == nil {
					continue
				}
				n++
				full := owner.Obj().Name() + "." + strings.Join(path, ".")
				why, ok := positiveByConstruction[full]
				r.Check(ok, "GEN-VALID-POS", fnName(fn)+":"+full, w.instrPos(in),
					fmt.Sprintf("the validator's positivity demand on %s is met by every value the module stores (%s)", full, why),
					full+" is not guaranteed positive by its writers (the module stores zero there for a rounded-down share, zero proceeds or an exhausted remainder): the exported genesis of such a reachable state fails the module's own validation")
			}
		}
	}
	if n == 0 {
		r.Note("no positivity demand in the genesis validators")
	}
}

func fieldIndex(st *types.Struct, name string) int {
	for i := 0; i < st.NumFields(); i++ {
		if st.Field(i).Name() == name {
			return i
		}
	}
	return 0
}

func hasListField(t *Term, lists []string) bool {
	return t.Any(func(x *Term) bool {
		if x.Op != "field" {
			return false
		}
		for _, l := range lists {
			if x.Name == l {
				return true
			}
		}
		return false
	})
}

// elementOf: t is an element of one of the lists, or a value unpacked from such an element
// (every non-constant alternative derives from elem(field<List>(…))).
func elementOf(t *Term, lists []string) bool {
	isElem := func(x *Term) bool {
		if x.Op != "elem" || x.Args[0].Op != "field" {
			return false
		}
		for _, l := range lists {
			if x.Args[0].Name == l {
				return true
			}
		}
		return false
	}
	n := 0
	for _, a := range t.Alts() {
		if a.Op == "const" || a.Op == "zero" {
			continue
		}
		if a.Op == "field" {
			return false // a field of the element, not the element
		}
		if !a.Any(isElem) {
			return false
		}
		n++
	}
	return n > 0
}

// setIDDominates: a call value.SetId(key-component) on the stored value dominates the Set.
func setIDDominates(w *World, fn *ssa.Function, set ssa.CallInstruction, comp int) bool {
	args := set.Common().Args
	key, val := args[2], args[3]
	keyVal := key
	if c, ok := key.(*ssa.Call); ok && strings.HasSuffix(callKey(&c.Call), "collections.Join") && comp < len(c.Call.Args) {
		keyVal = c.Call.Args[comp]
	}
	unwrap := func(v ssa.Value) ssa.Value {
		for {
			switch x := v.(type) {
			case *ssa.MakeInterface:
				v = x.X
			case *ssa.ChangeInterface:
				v = x.X
			default:
				return v
			}
		}
	}
	for _, b := range fn.Blocks {
		for _, in := range b.Instrs {
			c, ok := in.(ssa.CallInstruction)
			if !ok || !c.Common().IsInvoke() || c.Common().Method.Name() != "SetId" {
				continue
			}
			if unwrap(c.Common().Value) == unwrap(val) && len(c.Common().Args) == 1 && c.Common().Args[0] == keyVal && instrDominates(in, set) {
				return true
			}
		}
	}
	_ = token.ADD
	return false
}

// optionalRespelling: c is AccAddressFromBech32(x.F) and the parsed address is used only to store its canonical
// rendering back into x.F.
func optionalRespelling(c ssa.CallInstruction) bool {
	call, ok := c.(*ssa.Call)
	if !ok || callKey(&call.Call) != sdkPath+".AccAddressFromBech32" || call.Referrers() == nil {
		return false
	}
	used := false
	for _, u := range *call.Referrers() {
		ex, isEx := u.(*ssa.Extract)
		if !isEx {
			return false
		}
		if ex.Index != 0 || ex.Referrers() == nil {
			continue
		}
		for _, u2 := range *ex.Referrers() {
			sc, isCall := u2.(*ssa.Call)
			if !isCall || callKey(&sc.Call) != sdkPath+".AccAddress.String" || sc.Referrers() == nil {
				return false
			}
			for _, u3 := range *sc.Referrers() {
				st, isSt := u3.(*ssa.Store)
				if !isSt {
					return false
				}
				fa, isFA := st.Addr.(*ssa.FieldAddr)
				if !isFA || !isCanonicalRespelling(st, fa) {
					return false
				}
				used = true
			}
		}
	}
	return used
}
