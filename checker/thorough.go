package main

// thorough.go — the thorough tier: the quick analysis plus (a) the same analysis of the tree loaded with the
// Makefile's build tags, (b) positive controls: every seeded change recorded under /verif/seeded whose meta.json
// lists this property is applied to a scratch copy of /repo's current tree and the analysis must report a
// violation there. Controls validate the checker; they never change the verdict or the exit status.

import (
	"encoding/json"
	"fmt"
	"os"
	"os/exec"
	"path/filepath"
	"runtime"
	"sort"
	"strings"
	"sync"
)

type seedMeta struct {
	Name       string   `json:"name"`
	Property   string   `json:"property"`
	DetectedBy []string `json:"detected_by"`
	NotCaught  []string `json:"not_detected_by"`
}

func runSelf(env []string, prop string) (int, string) {
	self, err := os.Executable()
	if err != nil {
		return 2, err.Error()
	}
	cmd := exec.Command(self, "-property", prop, "-tier", "quick")
	cmd.Env = append(os.Environ(), env...)
	out, err := cmd.CombinedOutput()
	code := 0
	if ee, ok := err.(*exec.ExitError); ok {
		code = ee.ExitCode()
	} else if err != nil {
		code = 2
	}
	return code, string(out)
}

// copyTree copies the repository's working tree (without .git) to a scratch directory.
func copyTree(src string) (string, error) {
	base := os.Getenv("TMPDIR")
	if base == "" {
		base = "/var/tmp"
	}
	dst, err := os.MkdirTemp(base, "fundcheck-control-")
	if err != nil {
		return "", err
	}
	cmd := exec.Command("rsync", "-a", "--exclude", ".git", src+"/", dst+"/")
	if out, err := cmd.CombinedOutput(); err != nil {
		os.RemoveAll(dst)
		return "", fmt.Errorf("rsync: %v %s", err, out)
	}
	return dst, nil
}

func thoroughExtras(prop string, mainViolations int) {
	// (a) build-tag variant
	code, out := runSelf([]string{"VERIF_CONTROL=1", "VERIF_TAGS=netgo,ledger"}, prop)
	tv := map[string]any{"tags": "netgo,ledger", "exit": code, "agrees_with_default_build": (code == 0) == (mainViolations == 0)}
	for _, l := range strings.Split(out, "\n") {
		if strings.HasPrefix(l, "CONTROL-SUMMARY") || strings.HasPrefix(l, "CHECKER-ERROR") {
			tv["summary"] = l
		}
	}
	evidenceExtra["tag_variant"] = tv
	fmt.Printf("thorough: tag variant (-tags netgo,ledger): exit %d %v\n", code, tv["summary"])

	// (b) positive controls
	seedDir := filepath.Join(verifDir(), "seeded")
	ents, _ := os.ReadDir(seedDir)
	var names []string
	for _, e := range ents {
		if e.IsDir() {
			names = append(names, e.Name())
		}
	}
	sort.Strings(names)
	// the seeds that list this property, each on its own scratch copy, a few at a time
	var wanted []string
	for _, n := range names {
		var m seedMeta
		b, err := os.ReadFile(filepath.Join(seedDir, n, "meta.json"))
		if err != nil || json.Unmarshal(b, &m) != nil {
			continue
		}
		for _, p := range m.DetectedBy {
			if p == prop {
				wanted = append(wanted, n)
				break
			}
		}
	}
	controls := make([]map[string]any, len(wanted))
	workers := runtime.NumCPU() / 2
	if workers > 8 {
		workers = 8
	}
	if workers < 1 {
		workers = 1
	}
	sem := make(chan struct{}, workers)
	var wg sync.WaitGroup
	for i, n := range wanted {
		i, n := i, n
		wg.Add(1)
		sem <- struct{}{}
		go func() {
			defer wg.Done()
			defer func() { <-sem }()
			controls[i] = positiveControl(seedDir, n, prop)
		}()
	}
	wg.Wait()
	for _, res := range controls {
		nk := 0
		if ks, ok := res["violations"].([]string); ok {
			nk = len(ks)
		}
		fmt.Printf("thorough: positive control %s: %s (%d violation keys)\n", res["seed"], res["status"], nk)
	}
	evidenceExtra["positive_controls"] = controls
}

func lastLines(s string, n int) string {
	ls := strings.Split(strings.TrimSpace(s), "\n")
	if len(ls) > n {
		ls = ls[len(ls)-n:]
	}
	return strings.Join(ls, " / ")
}

// positiveControl applies one seeded change to a scratch copy of the current tree and runs the property's check on it.
func positiveControl(seedDir, n, prop string) map[string]any {
	res := map[string]any{"seed": n}
	scratch, err := copyTree(repoDir())
	if err != nil {
		res["status"] = "skipped: " + err.Error()
		return res
	}
	defer os.RemoveAll(scratch)
	patch := filepath.Join(seedDir, n, "patch.diff")
	ap := exec.Command("git", "apply", "--whitespace=nowarn", patch)
	ap.Dir = scratch
	if out, err := ap.CombinedOutput(); err != nil {
		res["status"] = "skipped: the seeded patch does not apply to the current tree (" + strings.TrimSpace(string(out)) + ")"
		return res
	}
	code, out := runSelf([]string{"VERIF_CONTROL=1", "VERIF_REPO=" + scratch}, prop)
	var keys []string
	for _, l := range strings.Split(out, "\n") {
		if strings.HasPrefix(l, "CONTROL-VIOLATION ") {
			parts := strings.SplitN(strings.TrimPrefix(l, "CONTROL-VIOLATION "), " | ", 2)
			keys = append(keys, parts[0])
		}
	}
	switch {
	case code == 1 && len(keys) > 0:
		res["status"] = "detected"
		res["violations"] = keys
	case code == 2:
		res["status"] = "checker error on the seeded tree"
		res["output"] = lastLines(out, 3)
	default:
		res["status"] = "MISSED"
	}
	return res
}
