package main

// C20 — CLI-BIND, CLI-COVER, CLI-USE, APP-ORDER (E7: literal cross-checks).
//
// The conditions are those under which cosmossdk.io/client/v2@v2.0.0-beta.4
// autocli (flag/builder.go addMessageFlags, msg.go, query.go) returns an error
// from EnhanceRootCommand — which cmd/root.go turns into a panic at start-up —
// plus the agreement between what the usage line tells the user to type and
// the field each position is bound to.

import (
	"fmt"
	"go/ast"
	"go/constant"
	"go/types"
	"os"
	"reflect"
	"regexp"
	"sort"
	"strings"

	"golang.org/x/tools/go/packages"
	"golang.org/x/tools/go/ssa"
)

const autocliAPIPath = "cosmossdk.io/api/cosmos/autocli/v1"

func init() { register("C20", checkC20) }

// walkStack walks an AST keeping the ancestor stack.
func walkStack(root ast.Node, f func(n ast.Node, stack []ast.Node) bool) {
	var stack []ast.Node
	ast.Inspect(root, func(n ast.Node) bool {
		if n == nil {
			stack = stack[:len(stack)-1]
			return true
		}
		ok := f(n, stack)
		if ok {
			stack = append(stack, n)
		}
		return ok
	})
}

func constString(info *types.Info, e ast.Expr) (string, bool) {
	tv, ok := info.Types[e]
	if !ok || tv.Value == nil || tv.Value.Kind() != constant.String {
		return "", false
	}
	return constant.StringVal(tv.Value), true
}

func constBool(info *types.Info, e ast.Expr) (bool, bool) {
	tv, ok := info.Types[e]
	if !ok || tv.Value == nil || tv.Value.Kind() != constant.Bool {
		return false, false
	}
	return constant.BoolVal(tv.Value), true
}

// protoFieldNames returns the protobuf field names (name= in the struct tag)
// of a generated message struct, in declaration order.
func protoFieldNames(st *types.Struct) []string {
	var out []string
	for i := 0; i < st.NumFields(); i++ {
		tag := reflect.StructTag(st.Tag(i)).Get("protobuf")
		if tag == "" {
			continue
		}
		for _, part := range strings.Split(tag, ",") {
			if strings.HasPrefix(part, "name=") {
				out = append(out, strings.TrimPrefix(part, "name="))
			}
		}
	}
	return out
}

// requestStruct returns the request message struct of a gRPC server interface method.
func requestStruct(iface *types.Named, method string) (*types.Named, *types.Struct) {
	it := iface.Underlying().(*types.Interface)
	for i := 0; i < it.NumMethods(); i++ {
		m := it.Method(i)
		if m.Name() != method {
			continue
		}
		sig := m.Type().(*types.Signature)
		if sig.Params().Len() != 2 {
			return nil, nil
		}
		n := namedOf(sig.Params().At(1).Type())
		if n == nil {
			return nil, nil
		}
		st, _ := n.Underlying().(*types.Struct)
		return n, st
	}
	return nil, nil
}

type cliCmd struct {
	where    string
	service  string // "Query" | "Tx" | ""
	method   string
	use      string
	aliases  []string
	skip     bool
	posArgs  []cliArg
	flagKeys []string
	// flags given a default value: [field, default]
	flagDefaults [][2]string
	nonConst     []string
	cond         bool // appended conditionally (not in the unconditional literal)
}

type cliArg struct {
	field             string
	optional, varargs bool
	where             string
}

var placeholderRe = regexp.MustCompile(`[\[<]([^\]>]+)[\]>]`)

func checkC20(w *World, r *Report) {
	r.Explanation = "Decides, on the resolved syntax of the module's AutoCLIOptions and of app_config.go: (CLI-BIND) every RpcCommandOptions literal names a method of the gRPC service it is attached to, and every positional/flag binding names a protobuf field (name= of the generated struct tag) of that method's request type, with optional/varargs only last and no field bound twice — exactly the conditions under which the pinned autocli returns an error that cmd/root.go turns into a start-up panic; (CLI-USE) the i-th placeholder of the usage line names the field the i-th position is bound to, so what the user types goes where the help says; (CLI-COVER) no service method is skipped except authority-gated UpdateParams; (APP-ORDER) the module is in the app's begin/end-blocker and genesis orders and its package is linked into the app."
	r.NotDecided = "dependency-injection resolution, proto registry contents, argument parsing at run time, a node producing blocks."
	r.Rule("CLI-BIND", "every autocli binding names an existing service method / protobuf field of its request type (autocli v2.0.0-beta.4 start-up validation)", 20)
	r.Rule("CLI-USE", "the i-th placeholder of Use names the i-th bound field", 8)
	r.Rule("CLI-COVER", "every Msg/Query method has a command (not skipped unless authority gated)", 15)
	r.Rule("CLI-UNIQUE", "command names and aliases of one service are pairwise distinct", 2)
	r.Rule("APP-ORDER", "module wired into app_config begin/end/genesis order and linked", 5)
	checkModuleIface(w, r, "MOD-IFACE")
	r.Rule("CFG-START", "the default node configuration passes the server's start-up validation", 2)
	r.Rule("PROTO-AMINO", "amino JSON encoding options fit the field they annotate (responses can be rendered)", 12)

	// locate AutoCLIOptions by signature: method returning *autocliv1.ModuleOptions
	tm := NewTerms(w)
	var optsFn *ssa.Function
	for _, fn := range w.Funcs {
		if p := pkgOf(fn); p == nil || p.Path() != modulePath || fn.Parent() != nil || fn.Signature.Recv() == nil {
			continue
		}
		sig := fn.Signature
		if sig.Params().Len() == 0 && sig.Results().Len() == 1 && isNamed(sig.Results().At(0).Type(), autocliAPIPath, "ModuleOptions") {
			if optsFn != nil {
				fatalf("two methods returning *autocliv1.ModuleOptions in %s", modulePath)
			}
			optsFn = fn
		}
	}
	if optsFn == nil {
		r.Fail("CLI-BIND", "AutoCLIOptions", modulePath, "the module provides autocli options", "no method returning *autocliv1.ModuleOptions found in the module package: the binary registers no command for the module")
		return
	}
	declWhere := w.pos(optsFn.Pos())
	cmds := cliCommands(w, tm, optsFn)
	checkCliDec(w, r, tm, cmds)

	svcIface := map[string]*types.Named{"Query": w.QueryServer, "Tx": w.MsgServer}
	listed := map[string]map[string]*cliCmd{"Query": {}, "Tx": {}}
	for _, c := range cmds {
		where := c.where
		name := c.service + "." + c.method
		if c.service == "" {
			r.Fail("CLI-BIND", "cmd:"+c.method+":service", where, "command options are attached to the Query or the Tx service descriptor",
				"cannot tell which service this RpcCommandOptions literal belongs to")
			continue
		}
		if len(c.nonConst) > 0 {
			r.Fail("CLI-BIND", "cmd:"+name+":const", where, "bindings are compile-time constants",
				fmt.Sprintf("non-constant %v: the binding cannot be decided statically", c.nonConst))
			continue
		}
		iface := svcIface[c.service]
		reqN, reqS := requestStruct(iface, c.method)
		if reqS == nil {
			r.Fail("CLI-BIND", "cmd:"+name+":method", where, fmt.Sprintf("RpcMethod %q is a method of the %s service", c.method, c.service),
				fmt.Sprintf("rpc method %q not found in %s (methods: %s): autocli returns `rpc method not found` and the binary panics at start", c.method, iface.Obj().Name(), strings.Join(methodsOf(iface), ",")))
			continue
		}
		r.Pass("CLI-BIND", "cmd:"+name+":method", where, fmt.Sprintf("RpcMethod %q is a method of %s", c.method, iface.Obj().Name()))
		if prev := listed[c.service][c.method]; prev != nil {
			r.Note("%s: %s is listed twice; autocli keeps the last entry", where, name)
		}
		listed[c.service][c.method] = c
		names := protoFieldNames(reqS)
		has := map[string]bool{}
		for _, n := range names {
			has[n] = true
		}
		seen := map[string]bool{}
		for i, a := range c.posArgs {
			key := fmt.Sprintf("cmd:%s:pos%d", name, i)
			awhere := a.where
			what := fmt.Sprintf("positional %d of %s binds proto field %q of %s", i, c.method, a.field, reqN.Obj().Name())
			switch {
			case !has[a.field]:
				r.Fail("CLI-BIND", key, awhere, what, fmt.Sprintf("can't find field %s on %s (fields: %s): autocli fails and cmd/root.go panics at start-up", a.field, reqN.Obj().Name(), strings.Join(names, ",")))
			case seen[a.field]:
				r.Fail("CLI-BIND", key, awhere, what, "field bound by two positions: the second overwrites what the user typed first")
			case a.optional && a.varargs:
				r.Fail("CLI-BIND", key, awhere, what, "positional argument can't be both optional and varargs")
			case (a.optional || a.varargs) && i != len(c.posArgs)-1:
				r.Fail("CLI-BIND", key, awhere, what, "optional/varargs positional argument must be the last argument")
			default:
				r.Pass("CLI-BIND", key, awhere, what)
			}
			seen[a.field] = true
		}
		for _, fk := range c.flagKeys {
			key := fmt.Sprintf("cmd:%s:flag:%s", name, fk)
			r.Check(has[fk], "CLI-BIND", key, where, fmt.Sprintf("flag option key %q is a proto field of %s", fk, reqN.Obj().Name()),
				fmt.Sprintf("can't find field %s on %s specified as a flag", fk, reqN.Obj().Name()))
		}
		// a flag the user did not type sends nothing: a default silently becomes part of the request (a filter the user
		// never asked for, an amount never typed)
		for _, fd := range c.flagDefaults {
			r.Fail("CLI-USE", fmt.Sprintf("cmd:%s:flag-default:%s", name, fd[0]), where,
				fmt.Sprintf("flag %q of %s has no default value", fd[0], name),
				fmt.Sprintf("flag %q is given the default %q: a command line that does not mention it sends %s = %q — for a list query the answer silently leaves out every record that does not match", fd[0], fd[1], fd[0], fd[1]))
		}
		// CLI-USE
		if c.use != "" && !c.skip {
			var ph []string
			for _, m := range placeholderRe.FindAllStringSubmatch(c.use, -1) {
				ph = append(ph, strings.ReplaceAll(strings.TrimSuffix(strings.TrimSpace(m[1]), "..."), "-", "_"))
			}
			var bound []string
			for _, a := range c.posArgs {
				bound = append(bound, a.field)
			}
			ok := len(ph) == len(bound)
			if ok {
				for i := range ph {
					if ph[i] != bound[i] {
						ok = false
					}
				}
			}
			r.Check(ok, "CLI-USE", "cmd:"+name+":use", where,
				fmt.Sprintf("usage %q lists the bound fields %v in order", c.use, bound),
				fmt.Sprintf("usage placeholders %v differ from the bound proto fields %v: what the user types for a placeholder is sent in a different field (or cobra's arity check disagrees with the help text)", ph, bound))
		}
	}

	// CLI-COVER
	for _, svc := range []string{"Query", "Tx"} {
		for _, m := range methodsOf(svcIface[svc]) {
			c := listed[svc][m]
			key := "method:" + svc + "." + m
			where := declWhere
			if c != nil {
				where = c.where
			}
			switch {
			case c != nil && c.skip && m != "UpdateParams":
				r.Fail("CLI-COVER", key, where, fmt.Sprintf("%s.%s is reachable through a command", svc, m),
					"the method is skipped and is not authority gated: no command reaches it")
			default:
				how := "generated by autocli from the service descriptor"
				if c != nil && c.skip {
					how = "skipped: authority gated (governance proposal only)"
				} else if c != nil {
					how = "custom options " + fmt.Sprintf("%q", c.use)
					if c.cond {
						how += " (appended only when the testing switch is on; otherwise generated)"
					}
				}
				r.Pass("CLI-COVER", key, where, fmt.Sprintf("%s.%s has a command (%s)", svc, m, how))
			}
		}
	}

	// CLI-UNIQUE: cobra resolves a typed name to the first command whose name or alias matches
	for _, svc := range []string{"Query", "Tx"} {
		owner := map[string][]string{}
		for _, m := range methodsOf(svcIface[svc]) {
			c := listed[svc][m]
			if c != nil && c.skip {
				continue
			}
			name := kebab(m)
			if c != nil && c.use != "" {
				name = strings.Fields(c.use)[0]
			}
			owner[name] = append(owner[name], m)
			if c != nil {
				for _, a := range c.aliases {
					owner[a] = append(owner[a], m+" (alias)")
				}
			}
		}
		var bad []string
		for _, k := range sortedKeys(owner) {
			if len(owner[k]) > 1 {
				bad = append(bad, fmt.Sprintf("%q names %s", k, strings.Join(owner[k], " and ")))
			}
		}
		r.Check(len(bad) == 0, "CLI-UNIQUE", "service:"+svc, declWhere, fmt.Sprintf("the %d command names and aliases of the %s service are pairwise distinct", len(owner), svc),
			strings.Join(bad, "; ")+": typing that name reaches only the first of them, the other method is unreachable under it (or a different request is sent than the help says)")
	}

	checkAppOrder(w, r)
	checkCfgStart(w, r)
	checkProtoAmino(w, r)
}

// checkCfgStart: server.Start validates the app config (cosmos-sdk v0.50.8 server/config/config.go Config.ValidateBasic:
// an empty BaseConfig.MinGasPrices is an error "set min gas price in app.toml or flag or env variable"). The default
// app.toml is written from the config the command package builds from serverconfig.DefaultConfig(), whose MinGasPrices
// is "". The binary therefore starts with default settings only if that package assigns a non-empty constant.
func checkCfgStart(w *World, r *Report) {
	const srvCfgPath = "github.com/cosmos/cosmos-sdk/server/config"
	usesDefault, where := false, cmdPath
	var assigned []string
	for _, fn := range w.Funcs {
		if p := pkgOf(fn); p == nil || p.Path() != cmdPath {
			continue
		}
		for _, b := range fn.Blocks {
			for _, in := range b.Instrs {
				switch x := in.(type) {
				case ssa.CallInstruction:
					if callKey(x.Common()) == srvCfgPath+".DefaultConfig" {
						usesDefault, where = true, w.instrPos(in)
					}
				case *ssa.Store:
					fa, ok := x.Addr.(*ssa.FieldAddr)
					if !ok || !isNamed(fa.X.Type(), srvCfgPath, "BaseConfig") && !isNamed(fa.X.Type(), srvCfgPath, "Config") {
						continue
					}
					st := structOf(fa.X.Type())
					if st == nil || st.Field(fa.Field).Name() != "MinGasPrices" {
						continue
					}
					if c, ok := x.Val.(*ssa.Const); ok && c.Value != nil {
						assigned = append(assigned, constKey(c))
					} else {
						assigned = append(assigned, "<computed>")
					}
				}
			}
		}
	}
	if !usesDefault {
		r.Pass("CFG-START", "min-gas-prices", where, "the command package does not build its app config from the SDK default (nothing to check)")
		return
	}
	ok := false
	for _, a := range assigned {
		if a != `""` {
			ok = true
		}
	}
	// the custom config only reaches app.toml when a non-empty template accompanies it: server.InterceptConfigsPreRunHandler
	// ignores customAppConfig when customAppTemplate == "" (cosmos-sdk v0.50.8 server/util.go interceptConfigs)
	tm := NewTerms(w)
	nT := 0
	tm.walkContexts(func() []*ssa.Function {
		var fs []*ssa.Function
		for _, fn := range w.Funcs {
			if p := pkgOf(fn); p != nil && p.Path() == cmdPath {
				fs = append(fs, fn)
			}
		}
		return fs
	}(), func(fr *Frame, in ssa.Instruction) {
		c, isCall := in.(ssa.CallInstruction)
		if !isCall || !strings.HasSuffix(callKey(c.Common()), "cosmos-sdk/server.InterceptConfigsPreRunHandler") || len(c.Common().Args) < 3 {
			return
		}
		nT++
		tt := tm.OperandAt(fr, in, c.Common().Args[1])
		if os.Getenv("VERIF_DEBUG") != "" {
			fmt.Fprintln(os.Stderr, "CFG-START template", tt.String())
		}
		empty := false
		for _, alt := range tt.Alts() {
			if alt.Op == "const" && alt.Name == `""` {
				empty = true
			}
		}
		r.Check(!empty, "CFG-START", "app-template", w.instrPos(in),
			"the custom app config is handed to the server together with a non-empty config template (so that it is the one written to app.toml)",
			"the template passed to server.InterceptConfigsPreRunHandler is the empty string: the SDK then ignores the custom app config, `init` writes the stock defaults (minimum-gas-prices = \"\") and `start` with default settings fails its config validation")
	})
	r.Check(ok, "CFG-START", "min-gas-prices", where,
		"the default app config assigns a non-empty minimum gas price, so `start` with default settings passes Config.ValidateBasic",
		fmt.Sprintf("the app config is serverconfig.DefaultConfig() with MinGasPrices left empty (assignments found: %v): `fundraisingd init` writes minimum-gas-prices = \"\" and `fundraisingd start` fails with \"set min gas price in app.toml or flag or env variable\"", assigned))
}

// kebab converts a method name to autocli's default command name.
func kebab(s string) string {
	var sb strings.Builder
	for i, r := range s {
		if r >= 'A' && r <= 'Z' {
			if i > 0 {
				sb.WriteByte('-')
			}
			sb.WriteRune(r - 'A' + 'a')
		} else {
			sb.WriteRune(r)
		}
	}
	return sb.String()
}

// checkAppOrder: the module name constant is an element of the runtime
// module's BeginBlockers, EndBlockers and InitGenesis lists, the module has a
// ModuleConfig entry, and the app package links the module package.
func checkAppOrder(w *World, r *Report) {
	app := w.Repo[appPath]
	info := app.TypesInfo
	const runtimeAPI = "cosmossdk.io/api/cosmos/app/runtime/v1alpha1"
	const appAPI = "cosmossdk.io/api/cosmos/app/v1alpha1"
	modName := ""
	if c, ok := w.Repo[typesPath].Types.Scope().Lookup("ModuleName").(*types.Const); ok {
		modName = constant.StringVal(c.Val())
	}
	if modName == "" {
		fatalf("types.ModuleName constant not found")
	}
	// The order lists and module configurations are read from the values the app package actually builds — stores into
	// the runtime module's fields and into ModuleConfig.Name, in the package initialiser and every function of the
	// package, each in its calling context — so that it does not matter whether the lists are literals, package
	// variables, or assembled by helper functions with append.
	_ = info
	tm := NewTerms(w)
	sp := w.SSA[appPath]
	var roots []*ssa.Function
	if sp != nil {
		if f := sp.Func("init"); f != nil {
			roots = append(roots, f)
		}
		var names []string
		for n := range sp.Members {
			names = append(names, n)
		}
		sort.Strings(names)
		for _, n := range names {
			if f, ok := sp.Members[n].(*ssa.Function); ok && f.Blocks != nil && n != "init" {
				roots = append(roots, f)
			}
		}
	}
	found := map[string]bool{}
	inList := map[string]bool{}
	where := map[string]string{}
	size := map[string]int{}
	unresolved := map[string]string{}
	cfgEntry := false
	rtWhere := appPath
	seenStore := map[string]bool{}
	tm.walkContexts(roots, func(fr *Frame, in ssa.Instruction) {
		st, ok := in.(*ssa.Store)
		if !ok {
			return
		}
		fa, ok := st.Addr.(*ssa.FieldAddr)
		if !ok || structOf(fa.X.Type()) == nil {
			return
		}
		fname := structOf(fa.X.Type()).Field(fa.Field).Name()
		switch {
		case isNamed(fa.X.Type(), runtimeAPI, "Module") && (fname == "BeginBlockers" || fname == "EndBlockers" || fname == "InitGenesis"):
			rtWhere = w.instrPos(in)
			k := fname + "|" + fr.id
			if seenStore[k] {
				return
			}
			seenStore[k] = true
			found[fname] = true
			where[fname] = w.instrPos(in)
			es, ok := listElems(w, tm, tm.OperandAt(fr, in, st.Val), 0)
			if !ok {
				unresolved[fname] = w.instrPos(in)
				return
			}
			size[fname] = len(es)
			for _, e := range es {
				if s, ok := constStringTerm(e.t); ok && s == modName && !e.cond {
					inList[fname] = true
				}
			}
		case isNamed(fa.X.Type(), appAPI, "ModuleConfig") && fname == "Name":
			if s, ok := constStringTerm(tm.OperandAt(fr, in, st.Val)); ok && s == modName {
				cfgEntry = true
			}
		}
	})
	for _, k := range []string{"BeginBlockers", "EndBlockers", "InitGenesis"} {
		switch {
		case !found[k]:
			r.Fail("APP-ORDER", "order:"+k, rtWhere, "runtime module config sets "+k, "list not found in the runtime module configuration")
		case unresolved[k] != "" && !inList[k]:
			r.Fail("APP-ORDER", "order:"+k, unresolved[k], "module order list is a constant string list", "cannot resolve the list statically")
		default:
			r.Check(inList[k], "APP-ORDER", "order:"+k, where[k],
				fmt.Sprintf("%q is an element of the runtime module's %s (%d entries)", modName, k, size[k]),
				fmt.Sprintf("%q is missing from %s: the runtime refuses to start (module implements the corresponding interface) or never runs the module's block hook / genesis", modName, k))
		}
	}
	r.Check(cfgEntry, "APP-ORDER", "moduleconfig", appPath, fmt.Sprintf("app config has a ModuleConfig entry named %q", modName), "no ModuleConfig entry: the module is not part of the app")
	// the app package (transitively the binary) links the module package, whose init registers it with depinject
	linked := reaches(w.Repo[appPath], modulePath)
	r.Check(linked, "APP-ORDER", "link:app->module", appPath, "package app imports the module package (its init registers the module with depinject)", "module package not in the import closure of app: appmodule.Register never runs")
	r.Check(reaches(w.Repo[mainPath], appPath), "APP-ORDER", "link:main->app", mainPath, "the binary's main package links package app", "app not linked into the binary")
}

// reaches reports whether target is in the import closure of p.
func reaches(p *packages.Package, target string) bool {
	seen := map[string]bool{}
	var rec func(q *packages.Package) bool
	rec = func(q *packages.Package) bool {
		if q.PkgPath == target {
			return true
		}
		if seen[q.PkgPath] {
			return false
		}
		seen[q.PkgPath] = true
		var keys []string
		for k := range q.Imports {
			keys = append(keys, k)
		}
		sort.Strings(keys)
		for _, k := range keys {
			if rec(q.Imports[k]) {
				return true
			}
		}
		return false
	}
	return rec(p)
}
