package main

import (
	"encoding/json"
	"flag"
	"fmt"
	"golang.org/x/tools/go/ssa"
	"os"
	"runtime/debug"
	"sort"
	"strconv"
	"strings"
	"time"
)

// propCheck decides the structural clauses of one property.
type propCheck func(w *World, r *Report)

var registry = map[string]propCheck{}

func register(id string, f propCheck) { registry[id] = f }

func main() {
	prop := flag.String("property", "", "property id (C01..C20)")
	tier := flag.String("tier", "quick", "quick|thorough")
	replay := flag.String("replay", "", "replay file written by an earlier violation")
	list := flag.Bool("list", false, "list implemented properties")
	dump := flag.String("dump-terms", "", "development aid: print provenance terms for functions matching the pattern")
	all := flag.Bool("all", false, "development aid (control mode only): every property on one loaded program, one ALL-RESULT line each")
	flag.Parse()
	if *all {
		if !controlMode() {
			fmt.Println("CHECKER-ERROR: -all is a development aid and needs VERIF_CONTROL=1 (nothing is written)")
			os.Exit(2)
		}
		runAll()
		return
	}
	if *dump != "" {
		dumpTerms(LoadWorld(), *dump)
		return
	}
	if *list {
		var ids []string
		for id := range registry {
			ids = append(ids, id)
		}
		sort.Strings(ids)
		fmt.Println(strings.Join(ids, " "))
		return
	}
	os.Exit(run(*prop, *tier, *replay))
}

// runAll: every registered property on one loaded program (development aid for mutation campaigns).
func runAll() {
	var ids []string
	for id := range registry {
		ids = append(ids, id)
	}
	sort.Strings(ids)
	var w *World
	func() {
		defer func() {
			if e := recover(); e != nil {
				fmt.Printf("ALL-LOAD-ERROR %v\n", e)
			}
		}()
		w = LoadWorld()
	}()
	if w == nil {
		os.Exit(2)
	}
	for _, id := range ids {
		code := func() (code int) {
			defer func() {
				if e := recover(); e != nil {
					if ce, ok := e.(CheckerError); ok {
						fmt.Printf("CHECKER-ERROR: %s\n", ce.Msg)
					} else {
						fmt.Printf("CHECKER-ERROR: analyser panic: %v\n", e)
					}
					code = 2
				}
			}()
			matcherFlagDone = map[*ssa.Function]bool{}
			r := NewReport(w, id, "quick", 0)
			registry[id](w, r)
			return r.Finish()
		}()
		fmt.Printf("ALL-RESULT %s rc=%d\n", id, code)
	}
}

func run(prop, tier, replay string) (code int) {
	defer func() {
		if e := recover(); e != nil {
			if ce, ok := e.(CheckerError); ok {
				fmt.Printf("CHECKER-ERROR: %s\n", ce.Msg)
			} else {
				fmt.Printf("CHECKER-ERROR: analyser panic: %v\n%s\n", e, debug.Stack())
			}
			code = 2
		}
	}()
	filter := ""
	if replay != "" {
		b, err := os.ReadFile(replay)
		if err != nil {
			fatalf("replay file: %v", err)
		}
		var rf replayFile
		if err := json.Unmarshal(b, &rf); err != nil {
			fatalf("replay file: %v", err)
		}
		prop, filter = rf.Property, rf.Key
		fmt.Printf("replaying %s on %s's current tree: rule %s, instance %s\n", prop, repoDir(), rf.Rule, rf.Key)
	}
	f := registry[prop]
	if f == nil {
		fatalf("no check implemented for property %q", prop)
	}
	if tier != "quick" && tier != "thorough" {
		fatalf("unknown tier %q", tier)
	}
	seed, _ := strconv.ParseInt(os.Getenv("VERIF_SEED"), 10, 64)
	t0 := time.Now()
	w := LoadWorld()
	r := NewReport(w, prop, tier, seed)
	r.Start = t0
	f(w, r)
	if filter != "" {
		n := 0
		for _, o := range r.Obligations {
			if o.Key == filter {
				n++
				st := "HOLDS"
				if !o.OK {
					st = "VIOLATED"
				}
				fmt.Printf("  %s %s at %s\n    obligation: %s\n", st, o.Key, o.Where, o.What)
				if !o.OK {
					fmt.Printf("    why: %s\n", o.Why)
				}
			}
		}
		if n == 0 {
			fmt.Printf("  the construct %s no longer exists on the current tree (see the full run below)\n", filter)
		}
	}
	if tier == "thorough" && !controlMode() {
		viol := 0
		for _, o := range r.Obligations {
			if !o.OK {
				viol++
			}
		}
		thoroughExtras(prop, viol)
	}
	return r.Finish()
}
