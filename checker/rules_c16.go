package main

// C16 — published results agree with what was settled.
//   PUB-MATCHFLAG  the matching routine can clear as well as set the matched flag, for every bid of the auction
//   PUB-PRICE      every batch settlement path publishes the clearing price it used before the auction is stored
//   QRY-KEY        by-id queries read exactly the key formed from the request's id fields
//   QRY-FIELDUSE   every request field of a query is used (flows into the store access or the filter)
//   QRY-FILTER     a filter field set in the request admits exactly the matching records
//   (release ⇔ Released persisted is decided under C09)

import (
	"fmt"
	"go/token"
	"go/types"
	"sort"
	"strings"

	"golang.org/x/tools/go/ssa"
)

func init() { register("C16", checkC16) }

func checkC16(w *World, r *Report) {
	r.Explanation = "Decides: (PUB-MATCHFLAG) in the block hook's call tree, the code that persists Bid.IsMatched from a matching result writes, for records taken from the auction's complete bid list, a flag that can be false (so a provisional winner of an earlier end time that is later outbid does not stay flagged), and that flag depends on the matched set; (PUB-PRICE) on every non-failing path of the batch settlement routine that performs a settlement transfer, BatchAuction.MatchedPrice is assigned a value that flows from the matching result's price, followed by the Auction store write; (QRY-KEY) each by-id query reads the collection under the key built from exactly the request's id fields; (QRY-FIELDUSE) every non-pagination request field of every query is read and used; (QRY-FILTER) for each string filter of a list query, with only that filter set, the predicate admits a record exactly when its attribute equals the filter."
	r.NotDecided = "equality of the flags with balance deltas (numeric); fixed-price dust bids (flagged matched although they receive zero coins); that the clearing price is the right one (C03)."
	r.Rule("PUB-MATCHFLAG", "matched flag can be cleared for every bid of the auction and follows the matched set", 1)
	r.Rule("PUB-PRICE", "batch settlement publishes the clearing price before storing the auction", 1)
	r.Rule("PUB-NOSALE", "a probe that matched nothing is not kept as the matching result (published price stays zero)", 1)
	r.Rule("QRY-KEY", "by-id queries use exactly the request's id fields as key", 2)
	r.Rule("QRY-FIELDUSE", "every request field of a query is used", 6)
	r.Rule("QRY-FILTER", "a set filter admits exactly the matching records", 2)

	tm := NewTerms(w)
	bb := w.beginBlockFn()
	tree := w.reachableFrom(bb)

	checkMatchFlag(w, r, tm, tree)
	checkPubPrice(w, r, tm, tree)
	checkNoSale(w, r, tm, tree)
	checkQueries(w, r, tm)
}

// readsAllBids: fn (transitively) walks the Bid collection with a prefix range (the auction's complete bid list).
func (w *World) readsBidList(fn *ssa.Function) bool {
	for f := range w.reachableFrom(fn) {
		for _, b := range f.Blocks {
			for _, in := range b.Instrs {
				if e := w.EffectOf(in); e != nil && e.Kind == EffStoreRead && e.Coll == "Bid" && (e.Method == "Walk" || e.Method == "Iterate") {
					return true
				}
			}
		}
	}
	return false
}

// mapUpdatesOf: the (key,value) terms of every MapUpdate on the map mm made (or held) in frame fr — in fr's function and
// in every function it hands the map to (the map operand, resolved through the call frames, is the same map).
type mapUpd struct{ keys, vals []*Term }

var mapUpdCache = map[*Terms]map[string]*mapUpd{}

func mapUpdatesOf(tm *Terms, fr *Frame, mm ssa.Value) (keys, vals []*Term) {
	want := tm.Of(fr, mm).Key()
	ck := fr.id + "|" + want
	if c := mapUpdCache[tm]; c != nil {
		if u := c[ck]; u != nil {
			return u.keys, u.vals
		}
	} else {
		mapUpdCache[tm] = map[string]*mapUpd{}
	}
	defer func() { mapUpdCache[tm][ck] = &mapUpd{keys, vals} }()
	// the map may have been made by a sibling helper of the function that uses it: look from the outermost caller
	top := fr
	for top.Parent != nil {
		top = top.Parent
	}
	tm.walkFrom(top, func(cfr *Frame, in ssa.Instruction) {
		mu, ok := in.(*ssa.MapUpdate)
		if !ok {
			return
		}
		// the same SSA value, or a field / variable / parameter that holds exactly this map
		if (cfr == fr && mapRoot(mu.Map) == mapRoot(mm)) || tm.Of(cfr, mu.Map).Key() == want {
			keys = append(keys, tm.Of(cfr, mu.Key))
			vals = append(vals, tm.OperandAt(cfr, in, mu.Value))
		}
	})
	return
}

func checkMatchFlag(w *World, r *Report, tm *Terms, tree map[*ssa.Function]bool) {
	type site struct {
		in        ssa.Instruction
		fn        *ssa.Function
		flag      *Term
		full      bool
		mayTrue   bool
		mayFalse  bool
		onMatched bool
	}
	var sites []site
	// the Bid writes of block processing, each in its calling context (a shared setter helper is judged per caller)
	for _, cs := range tm.sitesWhere([]*ssa.Function{w.beginBlockFn()}, func(fr *Frame, in ssa.Instruction) bool {
		e := w.EffectOf(in)
		return e != nil && e.Kind == EffStoreWrite && e.Coll == "Bid" && e.Method == "Set" && len(in.(ssa.CallInstruction).Common().Args) >= 4
	}) {
		{
			{
				fr, in := cs.Fr, cs.In
				fn := operationOf(w, in.Parent())
				args := in.(ssa.CallInstruction).Common().Args
				v := tm.OperandAt(fr, in, args[3])
				s := site{in: in, fn: fn, flag: normField(v, "IsMatched", nil)}
				// the list the record comes from
				base := v
				for base.Op == "upd" || base.Op == "new" || base.Op == "deref" {
					base = base.Args[0]
				}
				base.Walk(func(t *Term) bool {
					if t.Op == "call" {
						if c, ok := t.V.(*ssa.Call); ok {
							if f := w.calleeBody(&c.Call); f != nil && w.readsBidList(f) {
								s.full = true
							}
						}
					}
					return true
				})
				if base.Any(func(t *Term) bool { return isField(t, "MatchedBids") }) {
					s.full = false
				}
				for _, a := range s.flag.Alts() {
					switch {
					case a.Op == "const" && a.Name == "true":
						s.mayTrue = true
					case a.Op == "const" && a.Name == "false":
						s.mayFalse = true
					case a.Op == "zero":
						s.mayFalse = true
					default:
						s.mayTrue, s.mayFalse = true, true
						// does the computed flag depend on the matched set?
						dep := a.Any(func(t *Term) bool { return isField(t, "MatchedBids") })
						a.Walk(func(t *Term) bool {
							if (t.Op == "lookup" || t.Op == "lookupok") && len(t.Args) > 0 && t.Args[0].Op == "makemap" {
								ks, vs := mapUpdatesOf(tm, fr, t.Args[0].V)
								for i := range ks {
									if ks[i].Any(func(x *Term) bool { return isField(x, "MatchedBids") }) || vs[i].Any(func(x *Term) bool { return isField(x, "MatchedBids") }) {
										dep = true
									}
								}
							}
							return true
						})
						s.onMatched = dep
					}
				}
				sites = append(sites, s)
			}
		}
	}
	if len(sites) == 0 {
		r.Fail("PUB-MATCHFLAG", "no-flag-writer", w.pos(w.beginBlockFn().Pos()), "block processing persists the matched flag of batch bids",
			"no Bid record write in the block hook's call tree: batch bids are never flagged as matched")
		return
	}
	var canSet, canClearAll, computedOK bool
	var where string
	computedOK = true
	for _, s := range sites {
		where = w.instrPos(s.in)
		if s.mayTrue {
			canSet = true
		}
		if s.full && s.mayFalse {
			canClearAll = true
		}
		if s.mayTrue && s.mayFalse && !s.onMatched {
			computedOK = false
		}
	}
	fnn := fnName(sites[0].fn)
	r.Check(canSet, "PUB-MATCHFLAG", fnn+":sets", where, "a matched bid's record is persisted with IsMatched = true", "no write can set the flag")
	r.Check(canClearAll, "PUB-MATCHFLAG", fnn+":clears", where,
		"for records taken from the auction's complete bid list, the persisted IsMatched can be false",
		"the flag is only ever written as true, and only for the bids of the current matching: a bid that matched at an earlier end time and is outbid in a later round stays flagged IsMatched although it receives nothing in the final settlement")
	r.Check(computedOK, "PUB-MATCHFLAG", fnn+":follows-matching", where, "a computed flag value depends on the matching result's matched bids",
		"the flag written does not depend on the matched set")
	// a record whose stored flag differs from the computed one is written: a guard that skips the write exactly then
	// (an inverted "only if changed" test) persists nothing
	stale := false
	for _, s := range sites {
		if !(s.mayTrue && s.mayFalse) {
			continue
		}
		sr := &staleFlagRule{target: s.in}
		NewExplorer(w, tm, sr).Run(s.fn, 0)
		if sr.hit {
			stale = true
		}
	}
	r.Check(stale, "PUB-MATCHFLAG", fnn+":written-when-stale", where,
		"with the stored IsMatched different from the computed flag, the record write is reachable",
		"with the stored IsMatched different from the computed flag no Bid write is reachable: the computed flag is never persisted")
}

// staleFlagRule: every comparison of a record's stored IsMatched with another boolean says "different".
type staleFlagRule struct {
	BaseRule
	target ssa.Instruction
	hit    bool
}

func (s *staleFlagRule) Compare(x *Explorer, fr *Frame, op token.Token, l, r ssa.Value) AV {
	if op != token.EQL && op != token.NEQ {
		return Unknown
	}
	isBool := func(v ssa.Value) bool {
		b, ok := v.Type().Underlying().(*types.Basic)
		return ok && b.Kind() == types.Bool
	}
	if !isBool(l) || !isBool(r) {
		return Unknown
	}
	lt, rt := uncell(x.TM.Of(fr, l)), uncell(x.TM.Of(fr, r))
	if isField(lt, "IsMatched") == isField(rt, "IsMatched") {
		return Unknown
	}
	return Bool(op == token.NEQ)
}

func (s *staleFlagRule) OnInstr(x *Explorer, fr *Frame, in ssa.Instruction, st uint64) uint64 {
	if in == s.target {
		s.hit = true
	}
	return st
}

// ---------------------------------------------------------------- PUB-PRICE

type priceRule struct {
	BaseRule
	w  *World
	tm *Terms
	// sold: explore the case "the matching found a price" — the result's price is not nil
	sold bool
}

func (p *priceRule) CallResult(x *Explorer, fr *Frame, c ssa.CallInstruction) ([]AV, CallMode) {
	if !p.sold {
		return nil, CallDefault
	}
	cc := c.Common()
	if strings.HasSuffix(callKey(cc), mathPath+".LegacyDec.IsNil") && len(cc.Args) == 1 {
		t := x.TM.OperandAt(fr, c, cc.Args[0])
		if t.Any(func(y *Term) bool {
			return (isField(y, "MatchedPrice") || isField(y, "MatchPrice")) && !isNamed(typeOfTerm(y.Args[0]), typesPath, "BatchAuction")
		}) {
			return []AV{False}, CallReplace
		}
	}
	return nil, CallDefault
}

const (
	ppT      = 1 << 0
	ppPW     = 1 << 1
	ppAW     = 1 << 2 // auction write after price write
	ppBadSrc = 1 << 3
	ppPWzero = 1 << 4
)

func isBatchPriceStore(in ssa.Instruction) (*ssa.Store, bool) {
	st, ok := in.(*ssa.Store)
	if !ok {
		return nil, false
	}
	fa, ok := st.Addr.(*ssa.FieldAddr)
	if !ok || !isNamed(fa.X.Type(), typesPath, "BatchAuction") {
		return nil, false
	}
	s := structOf(fa.X.Type())
	return st, s != nil && s.Field(fa.Field).Name() == "MatchedPrice"
}

func (p *priceRule) OnInstr(x *Explorer, fr *Frame, in ssa.Instruction, st uint64) uint64 {
	if e := p.w.EffectOf(in); e != nil {
		switch {
		case e.Kind == EffTransfer && fnInfo(in.Parent()).LoopOf[in.Block()] == nil:
			st |= ppT
		case e.Kind == EffStoreWrite && e.Coll == "Auction" && st&(ppPW|ppPWzero) != 0:
			st |= ppAW
		}
	}
	if s, ok := isBatchPriceStore(in); ok {
		t := x.TM.OperandAt(fr, in, s.Val)
		good := t.Any(func(y *Term) bool {
			return (isField(y, "MatchedPrice") || isField(y, "MatchPrice")) && !isNamed(typeOfTerm(y.Args[0]), typesPath, "BatchAuction")
		})
		zero := true
		for _, a := range t.Alts() {
			if !(a.Op == "call" && (strings.HasSuffix(a.Name, ".LegacyZeroDec") || strings.HasSuffix(a.Name, ".ZeroDec"))) {
				zero = false
			}
		}
		switch {
		case good:
			st |= ppPW
			st &^= ppAW
		case zero:
			// "zero if nothing was sold": counts as an assignment, but some path must publish the real price
			st |= ppPWzero
			st &^= ppAW
		default:
			st |= ppBadSrc
		}
	}
	return st
}

func typeOfTerm(t *Term) types.Type {
	if t != nil && t.V != nil {
		return t.V.Type()
	}
	return types.Typ[types.Invalid]
}

func (p *priceRule) OnLoopEnter(x *Explorer, fr *Frame, l *Loop, st uint64) uint64 {
	if l.Parent == nil && p.w.loopMayDo(l, func(in ssa.Instruction) bool {
		e := p.w.EffectOf(in)
		return e != nil && e.Kind == EffTransfer
	}) {
		st |= ppT
	}
	return st
}

// batchSettleFn: the deepest function of the tree that both reads the last matched length and reaches a transfer.
func batchSettleFn(w *World, tree map[*ssa.Function]bool) *ssa.Function {
	reach := func(fn *ssa.Function, p func(*Effect) bool) bool {
		for f := range w.reachableFrom(fn) {
			for _, b := range f.Blocks {
				for _, in := range b.Instrs {
					if e := w.EffectOf(in); e != nil && p(e) {
						return true
					}
				}
			}
		}
		return false
	}
	isLen := func(e *Effect) bool { return e.Kind == EffStoreRead && e.Coll == "MatchedBidsLen" }
	isTr := func(e *Effect) bool { return e.Kind == EffTransfer }
	var best *ssa.Function
	for _, fn := range sortedFns(tree) {
		if !(reach(fn, isLen) && reach(fn, isTr)) {
			continue
		}
		// deepest: no callee has both
		deeper := false
		for _, c := range w.callees(fn) {
			if reach(c, isLen) && reach(c, isTr) {
				deeper = true
			}
		}
		if !deeper {
			best = fn
		}
	}
	return best
}

func checkPubPrice(w *World, r *Report, tm *Terms, tree map[*ssa.Function]bool) {
	root := batchSettleFn(w, tree)
	if root == nil {
		r.Fail("PUB-PRICE", "anchor", w.pos(w.beginBlockFn().Pos()), "the batch settlement routine is found by its effects", "no function in the block hook's tree reads MatchedBidsLen and reaches a transfer")
		return
	}
	x := NewExplorer(w, tm, &priceRule{w: w, tm: tm})
	var bad []string
	settling, real := 0, 0
	for _, o := range x.Run(root, 0) {
		if o.Kind != ExitReturn {
			continue
		}
		if av, ok := o.ErrAV(root); ok && av.K == avNonNil {
			continue
		}
		if o.St&ppT == 0 {
			continue // extension path: nothing settled
		}
		settling++
		if o.St&ppPW != 0 {
			real++
		}
		switch {
		case o.St&ppBadSrc != 0:
			bad = append(bad, fmt.Sprintf("a path to %s assigns MatchedPrice from a value that is not the matching result's price", w.instrPos(o.Instr)))
		case o.St&(ppPW|ppPWzero) == 0:
			bad = append(bad, fmt.Sprintf("the settlement path ending at %s never assigns BatchAuction.MatchedPrice", w.instrPos(o.Instr)))
		case o.St&ppAW == 0:
			bad = append(bad, fmt.Sprintf("on the path ending at %s MatchedPrice is assigned but the auction is not stored afterwards", w.instrPos(o.Instr)))
		}
	}
	sort.Strings(bad)
	bad = dedupe(bad)
	if settling == 0 {
		bad = append(bad, "no non-failing settlement path found")
	} else if real == 0 && len(bad) == 0 {
		bad = append(bad, "no settlement path assigns the matching result's price (only a constant zero)")
	}
	// when the matching found a price (the result's price is not nil), every settlement path publishes that price — a
	// guard that publishes it only when it is nil publishes nothing
	if len(bad) == 0 {
		for _, o := range NewExplorer(w, tm, &priceRule{w: w, tm: tm, sold: true}).Run(root, 0) {
			if o.Kind != ExitReturn || o.St&ppT == 0 {
				continue
			}
			if av, ok := o.ErrAV(root); ok && av.K == avNonNil {
				continue
			}
			if o.St&ppPW == 0 {
				bad = append(bad, fmt.Sprintf("with a matching price found (not nil), the settlement path ending at %s does not assign it to BatchAuction.MatchedPrice", w.instrPos(o.Instr)))
			}
		}
		bad = dedupe(bad)
	}
	r.Check(len(bad) == 0, "PUB-PRICE", fnName(root)+":publishes-price", w.pos(root.Pos()),
		"every non-failing settlement path of "+fnName(root)+" assigns BatchAuction.MatchedPrice from the matching result and then stores the auction",
		strings.Join(bad, "; ")+" — the published matched price stays at its creation value (zero) whatever the clearing price was")
}

// ---------------------------------------------------------------- PUB-NOSALE

// noSaleRule: the matcher's "matched" result is false; a store of the matcher's result into a captured variable is recorded.
type noSaleRule struct {
	BaseRule
	matcher ssa.CallInstruction
	kept    []ssa.Instruction
}

func (n *noSaleRule) CallResult(x *Explorer, fr *Frame, c ssa.CallInstruction) ([]AV, CallMode) {
	if c == n.matcher {
		return []AV{NonNil, False}, CallReplace
	}
	return nil, CallDefault
}

func (n *noSaleRule) OnInstr(x *Explorer, fr *Frame, in ssa.Instruction, st uint64) uint64 {
	if s, ok := in.(*ssa.Store); ok {
		if _, isFree := s.Addr.(*ssa.FreeVar); isFree && derivesFrom(s.Val, n.matcher) {
			n.kept = append(n.kept, in)
		}
	}
	return st
}

// zeroQtyRule: a world in which every quantity is zero (no bid converts to a positive number of coins).
type zeroQtyRule struct {
	BaseRule
}

func (z *zeroQtyRule) CallResult(x *Explorer, fr *Frame, c ssa.CallInstruction) ([]AV, CallMode) {
	cc := c.Common()
	isZero := func(v ssa.Value) bool {
		t := uncell(x.TM.Of(fr, v))
		return t.Op == "call" && (strings.HasSuffix(t.Name, mathPath+".ZeroInt") || (strings.HasSuffix(t.Name, mathPath+".NewInt") && len(t.Args) == 1 && t.Args[0].Op == "const" && t.Args[0].Name == "0"))
	}
	switch callKey(cc) {
	case mathPath + ".Int.IsPositive", mathPath + ".Int.IsNegative":
		return []AV{False}, CallReplace
	case mathPath + ".Int.IsZero":
		return []AV{True}, CallReplace
	case mathPath + ".Int.GT", mathPath + ".Int.LT":
		if len(cc.Args) == 2 && (isZero(cc.Args[0]) || isZero(cc.Args[1])) {
			return []AV{False}, CallReplace // a zero quantity is neither above nor below zero
		}
	case mathPath + ".Int.GTE", mathPath + ".Int.LTE", mathPath + ".Int.Equal":
		if len(cc.Args) == 2 && (isZero(cc.Args[0]) || isZero(cc.Args[1])) {
			return []AV{True}, CallReplace
		}
	}
	return nil, CallDefault
}

// checkMatcherFlag: the matcher's own "matched" answer is true only if some positive quantity was matched — with
// every quantity zero it cannot answer true.
func checkMatcherFlag(w *World, r *Report, tm *Terms, m *ssa.Function) {
	if m == nil || matcherFlagDone[m] {
		return
	}
	matcherFlagDone[m] = true
	var bad []string
	for _, o := range NewExplorer(w, tm, &zeroQtyRule{}).Run(m, 0) {
		if o.Kind != ExitReturn || len(o.Rets) != 2 {
			continue
		}
		if o.Rets[1].K != avFalse {
			bad = append(bad, fmt.Sprintf("%s returns matched=%s", w.instrPos(o.Instr), o.Rets[1]))
		}
	}
	r.Check(len(bad) == 0, "PUB-NOSALE", fnName(m)+":matched-needs-a-positive-quantity", w.pos(m.Pos()),
		"with every matched quantity zero the matcher answers matched=false",
		"with every quantity zero (every bid converts to zero coins at the probed price) "+strings.Join(dedupe(bad), "; ")+": the search keeps that probe and an auction that sold nothing publishes its price")
}

var matcherFlagDone = map[*ssa.Function]bool{}

// checkNoSale: the clearing price is published from the kept matching result. A probe for which the matcher reports
// "nothing matched" must not be kept, otherwise a settlement that sells nothing publishes the probed price.
func checkNoSale(w *World, r *Report, tm *Terms, tree map[*ssa.Function]bool) {
	n := 0
	for _, fn := range sortedFns(tree) {
		for _, b := range fn.Blocks {
			for _, in := range b.Instrs {
				c, ok := in.(ssa.CallInstruction)
				if !ok || callKey(c.Common()) != "sort.Search" || len(c.Common().Args) != 2 {
					continue
				}
				mc, ok := c.Common().Args[1].(*ssa.MakeClosure)
				if !ok {
					continue
				}
				pred := mc.Fn.(*ssa.Function)
				// the matcher: a repository call returning (result, bool)
				for _, pb := range pred.Blocks {
					for _, pin := range pb.Instrs {
						call, ok := pin.(*ssa.Call)
						if !ok || w.calleeBody(&call.Call) == nil {
							continue
						}
						res := call.Call.Signature().Results()
						if res.Len() != 2 || !types.Identical(res.At(1).Type(), types.Typ[types.Bool]) {
							continue
						}
						n++
						rule := &noSaleRule{matcher: call}
						NewExplorer(w, tm, rule).Run(pred, 0)
						var at []string
						for _, k := range rule.kept {
							at = append(at, w.instrPos(k))
						}
						sort.Strings(at)
						checkMatcherFlag(w, r, tm, w.calleeBody(&call.Call))
						r.Check(len(at) == 0, "PUB-NOSALE", fmt.Sprintf("%s:sort.Search#%d", fnName(fn), occurrence(fn, c)), w.instrPos(pin),
							"when the matcher reports that nothing was matched at the probed price, its result is not kept as the matching result",
							"the result of a probe that matched nothing is kept at "+strings.Join(dedupe(at), ", ")+": a settlement in which every bid converts to zero coins sells nothing but publishes the probed price as matched price")
					}
				}
			}
		}
	}
	if n == 0 {
		r.Note("no binary search over a (result, matched) matcher: PUB-NOSALE is vacuous")
		r.Rules["PUB-NOSALE"].Floor = 0
	}
}

// ---------------------------------------------------------------- queries

func checkQueries(w *World, r *Report, tm *Terms) {
	qs := w.queryServerMethods()
	for _, name := range sortedKeys(qs) {
		fn := qs[name]
		reqN, reqS := requestStruct(w.QueryServer, name)
		if reqS == nil {
			continue
		}
		scope := w.reachableFrom(fn)
		// which request fields are read (and used)?
		used := map[string]bool{}
		for f := range scope {
			for _, b := range f.Blocks {
				for _, in := range b.Instrs {
					var idx int
					var x ssa.Value
					var v ssa.Value
					switch y := in.(type) {
					case *ssa.FieldAddr:
						idx, x, v = y.Field, y.X, y
					case *ssa.Field:
						idx, x, v = y.Field, y.X, y
					default:
						continue
					}
					if namedOf(x.Type()) != reqN {
						continue
					}
					if hasRealUse(v) {
						used[reqS.Field(idx).Name()] = true
					}
				}
			}
		}
		// generated getters (GetAuctionId…) also count
		for f := range scope {
			for _, b := range f.Blocks {
				for _, in := range b.Instrs {
					c, ok := in.(*ssa.Call)
					if !ok {
						continue
					}
					if o := staticCalleeObj(&c.Call); o != nil && recvNamed(o) == reqN && strings.HasPrefix(o.Name(), "Get") && hasRealUse(c) {
						used[strings.TrimPrefix(o.Name(), "Get")] = true
					}
				}
			}
		}
		for i := 0; i < reqS.NumFields(); i++ {
			f := reqS.Field(i).Name()
			if f == "Pagination" || !reqS.Field(i).Exported() {
				continue
			}
			r.Check(used[f], "QRY-FIELDUSE", name+":"+f, w.pos(fn.Pos()),
				fmt.Sprintf("query %s uses request field %s", name, f),
				fmt.Sprintf("%s.%s is never read by the handler: the listing ignores the filter and returns records that do not satisfy the request", reqN.Obj().Name(), f))
		}
		// by-id queries
		fr := tm.Root(fn)
		for _, b := range fn.Blocks {
			for _, in := range b.Instrs {
				e := w.EffectOf(in)
				if e == nil || e.Kind != EffStoreRead || e.Method != "Get" {
					continue
				}
				args := in.(ssa.CallInstruction).Common().Args
				if len(args) < 3 {
					continue
				}
				key := tm.OperandAt(fr, in, args[2])
				comps := keyComponents(key)
				var idFields []string
				for i := 0; i < reqS.NumFields(); i++ {
					if f := reqS.Field(i); f.Exported() && f.Name() != "Pagination" {
						idFields = append(idFields, f.Name())
					}
				}
				ok, why := len(comps) == len(idFields), ""
				if !ok {
					why = fmt.Sprintf("key has %d component(s) but the request has id fields %v", len(comps), idFields)
				}
				for i := 0; ok && i < len(comps); i++ {
					want := idFields[i]
					good := comps[i].Any(func(t *Term) bool { return isField(t, want) && t.Args[0].Op == "param" })
					otherReq := comps[i].Any(func(t *Term) bool {
						if t.Op != "field" || t.Args[0].Op != "param" || t.Name == want {
							return false
						}
						for _, f := range idFields {
							if f == t.Name {
								return true
							}
						}
						return false
					})
					if !good || otherReq {
						ok = false
						why = fmt.Sprintf("key component %d is %s, expected the request's %s", i, comps[i].String(), want)
					}
				}
				r.Check(ok, "QRY-KEY", name+":"+e.Coll, w.instrPos(in), fmt.Sprintf("query %s reads %s under the key built from the request's %v", name, e.Coll, idFields), why)
			}
		}
		checkQueryFilters(w, r, tm, name, fn, reqN, reqS)
	}
}

func hasRealUse(v ssa.Value) bool {
	refs := v.Referrers()
	if refs == nil {
		return false
	}
	for _, u := range *refs {
		switch x := u.(type) {
		case *ssa.DebugRef:
		case *ssa.UnOp:
			if hasRealUse(x) {
				return true
			}
		case *ssa.FieldAddr:
			if hasRealUse(x) {
				return true
			}
		default:
			return true
		}
	}
	return false
}

// QRY-FILTER: for list queries that pass a predicate closure to a filtered-paginate helper.
type filterRule struct {
	BaseRule
	reqN  *types.Named
	set   map[string]bool // the filters that are set in the request; every other string filter is empty
	match map[string]bool // per set filter: the record's attribute equals it
}

func (f *filterRule) Compare(x *Explorer, fr *Frame, op token.Token, l, r ssa.Value) AV {
	if op != token.EQL && op != token.NEQ {
		return Unknown
	}
	return f.decide(op, uncell(x.TM.Of(fr, l)), uncell(x.TM.Of(fr, r)))
}

// ValueOf: a boolean computed outside the predicate and captured by it (filterSet := req.F != "") is decided like the
// comparison it stands for.
func (f *filterRule) ValueOf(x *Explorer, fr *Frame, v ssa.Value) AV {
	if b, ok := v.Type().Underlying().(*types.Basic); !ok || b.Kind() != types.Bool {
		return Unknown
	}
	t := uncell(x.TM.Of(fr, v))
	if t.Op == "binop" && len(t.Args) == 2 {
		switch t.Name {
		case "==":
			return f.decide(token.EQL, uncell(t.Args[0]), uncell(t.Args[1]))
		case "!=":
			return f.decide(token.NEQ, uncell(t.Args[0]), uncell(t.Args[1]))
		}
	}
	return Unknown
}

func (f *filterRule) decide(op token.Token, lt, rt *Term) AV {
	isReq := func(t *Term) bool {
		return t.Op == "field" && t.Args[0].V != nil && namedOf(t.Args[0].V.Type()) == f.reqN
	}
	// the request field a term is (derived from): "" none, "*" several
	reqIn := func(t *Term) string {
		name := ""
		t.Walk(func(y *Term) bool {
			if isReq(y) {
				if name != "" && name != y.Name {
					name = "*"
				} else if name == "" {
					name = y.Name
				}
			}
			return true
		})
		return name
	}
	isEmpty := func(t *Term) bool { return t.Op == "const" && t.Name == `""` }
	// every alternative of t is the request field F itself or a value computed from F alone (its canonical rendering):
	// empty exactly when F is
	onlyFrom := func(t *Term) string {
		name := ""
		for _, a := range t.Alts() {
			a = uncell(a)
			n := reqIn(a)
			if n == "" || n == "*" || (name != "" && n != name) {
				return ""
			}
			name = n
		}
		return name
	}
	res := Unknown
	switch {
	case !isReq(lt) && onlyFrom(lt) != "" && isEmpty(rt):
		res = Bool(!f.set[onlyFrom(lt)])
	case !isReq(rt) && onlyFrom(rt) != "" && isEmpty(lt):
		res = Bool(!f.set[onlyFrom(rt)])
	case isReq(lt) && isEmpty(rt):
		res = Bool(!f.set[lt.Name]) // a set filter is not empty; all others are empty
	case isReq(rt) && isEmpty(lt):
		res = Bool(!f.set[rt.Name])
	case f.set[reqIn(lt)] && reqIn(rt) == "":
		res = Bool(f.match[reqIn(lt)]) // the record's attribute against (a value parsed from) the filter
	case f.set[reqIn(rt)] && reqIn(lt) == "":
		res = Bool(f.match[reqIn(rt)])
	default:
		return Unknown
	}
	if op == token.NEQ {
		return res.Not()
	}
	return res
}

func checkQueryFilters(w *World, r *Report, tm *Terms, name string, fn *ssa.Function, reqN *types.Named, reqS *types.Struct) {
	// find a call to query.CollectionFilteredPaginate with a predicate closure
	var pred *ssa.Function
	var predMC *ssa.MakeClosure
	var predCall ssa.CallInstruction
	for _, b := range fn.Blocks {
		for _, in := range b.Instrs {
			c, ok := in.(ssa.CallInstruction)
			if !ok || !strings.HasSuffix(callKey(c.Common()), "query.CollectionFilteredPaginate") {
				continue
			}
			for _, a := range c.Common().Args {
				if mc, ok := a.(*ssa.MakeClosure); ok {
					f := mc.Fn.(*ssa.Function)
					res := f.Signature.Results()
					if res.Len() == 2 && types.Identical(res.At(0).Type(), types.Typ[types.Bool]) && pred == nil {
						pred, predMC, predCall = f, mc, c
					}
				}
			}
		}
	}
	if pred == nil {
		return
	}
	var strFilters []string
	for i := 0; i < reqS.NumFields(); i++ {
		f := reqS.Field(i)
		if b, ok := f.Type().Underlying().(*types.Basic); ok && b.Kind() == types.String && f.Exported() {
			strFilters = append(strFilters, f.Name())
		}
	}
	// a stored address is compared in its canonical spelling: records keep AccAddress.String(), a request may spell the
	// same account differently (upper-case bech32 parses), so the raw request string must not be what is compared
	{
		pfr := tm.EnterClosure(tm.Root(fn), predMC, predCall)
		isReqRaw := func(t *Term) bool {
			t = uncell(t)
			return t.Op == "field" && t.Args[0].V != nil && namedOf(t.Args[0].V.Type()) == reqN
		}
		isStoredAddr := func(t *Term) bool {
			t = uncell(t)
			if t.Op != "field" || t.Args[0].V == nil {
				return false
			}
			n := namedOf(t.Args[0].V.Type())
			if n == nil || n == reqN || n.Obj().Pkg() == nil || n.Obj().Pkg().Path() != typesPath {
				return false
			}
			return t.Name == "Bidder" || t.Name == "Auctioneer"
		}
		for _, b := range pred.Blocks {
			for _, in := range b.Instrs {
				bo, ok := in.(*ssa.BinOp)
				if !ok || (bo.Op != token.EQL && bo.Op != token.NEQ) {
					continue
				}
				lt, rt := tm.OperandAt(pfr, in, bo.X), tm.OperandAt(pfr, in, bo.Y)
				var stored, other *Term
				switch {
				case isStoredAddr(lt):
					stored, other = lt, rt
				case isStoredAddr(rt):
					stored, other = rt, lt
				default:
					continue
				}
				raw := false
				for _, a := range other.Alts() {
					if isReqRaw(a) {
						raw = true
					}
				}
				r.Check(!raw, "QRY-FILTER", fmt.Sprintf("%s:%s:canonical-address", name, uncell(stored).Name), w.instrPos(in),
					fmt.Sprintf("query %s compares the stored %s with the canonical rendering of the requested address", name, uncell(stored).Name),
					fmt.Sprintf("the stored %s (canonical spelling) is compared with the request's string as typed (%s): another valid spelling of the same account (upper-case bech32) matches nothing", uncell(stored).Name, other.String()))
			}
		}
	}
	if len(strFilters) > 4 {
		strFilters = strFilters[:4]
	}
	// every combination of set filters, and for each every combination of "the record's attribute equals it"
	for mask := 1; mask < 1<<len(strFilters); mask++ {
		var setL []string
		for i, f := range strFilters {
			if mask&(1<<i) != 0 {
				setL = append(setL, f)
			}
		}
		for mm := 0; mm < 1<<len(setL); mm++ {
			set, match := map[string]bool{}, map[string]bool{}
			all := true
			var ml []string
			for i, f := range setL {
				set[f] = true
				match[f] = mm&(1<<i) != 0
				all = all && match[f]
				ml = append(ml, fmt.Sprint(match[f]))
			}
			fr := &filterRule{reqN: reqN, set: set, match: match}
			x := NewExplorer(w, tm, fr)
			got := map[string]bool{}
			// the predicate in the context in which it was made: a closure's captured variables and a bound method's
			// receiver are what the handler computed
			pfr := tm.EnterClosure(tm.Root(fn), predMC, predCall)
			for _, o := range x.RunFrame(pfr, 0) {
				if o.Kind == ExitReturn && len(o.Rets) == 2 && o.Rets[1].K != avNonNil {
					got[o.Rets[0].String()] = true
				}
			}
			want := fmt.Sprint(all)
			ok := len(got) == 1 && got[want]
			var gl []string
			for k := range got {
				gl = append(gl, k)
			}
			sort.Strings(gl)
			r.Check(ok, "QRY-FILTER", fmt.Sprintf("%s:%s:match=%s", name, strings.Join(setL, "+"), strings.Join(ml, ",")), w.pos(pred.Pos()),
				fmt.Sprintf("query %s with filter(s) %s set admits a record iff every set filter equals the record's attribute (attributes equal: %s → predicate %s)", name, strings.Join(setL, "+"), strings.Join(ml, ","), want),
				fmt.Sprintf("the predicate can return %v", gl))
		}
	}
}
