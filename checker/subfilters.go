package main

// subfilters.go — which instances of a shared rule are necessary conditions of the property that re-evaluates it.
// A rule of one property evaluated wholesale inside another would raise that other property's alarm for changes that
// leave it intact (a rounding change in the vesting split is not a bid-modification defect).

import "strings"

func keepAny(subs ...string) func(rule, construct string) bool {
	return func(_, construct string) bool {
		for _, s := range subs {
			if strings.Contains(construct, s) {
				return true
			}
		}
		return false
	}
}

func keepPrefix(prefixes ...string) func(rule, construct string) bool {
	return func(_, construct string) bool {
		for _, p := range prefixes {
			if strings.HasPrefix(construct, p) {
				return true
			}
		}
		return false
	}
}

// perRule: a filter per rule name; rules without an entry are kept whole.
func perRule(m map[string]func(rule, construct string) bool) func(rule, construct string) bool {
	return func(rule, construct string) bool {
		if f := m[rule]; f != nil {
			return f(rule, construct)
		}
		return true
	}
}

func keepNot(f func(rule, construct string) bool) func(rule, construct string) bool {
	return func(r, c string) bool { return !f(r, c) }
}

// moneyMoves: call sites whose dropped failure leaves coins and records out of step — bank transfers, the reservation
// helpers, record writes, and the operations themselves as called by the message server.
var moneyMoves = keepAny(":call:types.BankKeeper.", ":call:keeper.Keeper.ReservePayingCoin", ":call:keeper.Keeper.ReserveSellingCoin",
	":call:keeper.Keeper.ReleaseSellingCoin", ":call:coll.Map.Set", ":call:keeper.Keeper.PlaceBid", ":call:keeper.Keeper.ModifyBid",
	":call:keeper.Keeper.CreateFixedPriceAuction", ":call:keeper.Keeper.CreateBatchAuction", ":call:keeper.Keeper.CancelAuction")
