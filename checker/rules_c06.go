package main

// C06 — fixed price: first come first served against an exact remainder.
//   REM-WRITERS  who writes RemainingSellingCoin and with what
//   CONV-AGREE   validation, subtraction and allocation at close all use the bid's one to-selling conversion
//   FP-ACCEPT    the accept conditions of a fixed price bid (type agreement, denomination, price = start price)
//   FP-NO-REWRITE no bid of a fixed price auction is written after placement
//   (+ FP-REMAINDER / FP-CAP from C05, PAIR-RESERVE for the fixed price type from C01, OPEN-GUARD from C08, AL-DOM from C10)

import (
	"fmt"
	"sort"
	"strings"

	"golang.org/x/tools/go/ssa"
)

func init() { register("C06", checkC06) }

const sellingConvSkel = "{TruncateInt(QuoTruncate(LegacyNewDecFromInt(AMT),PRICE))|AMT}"

func isSellingConv(t *Term) bool {
	s := skeleton(t)
	return s == sellingConvSkel || s == "{AMT|TruncateInt(QuoTruncate(LegacyNewDecFromInt(AMT),PRICE))}"
}

func checkC06(w *World, r *Report) {
	r.Explanation = "Decides: (REM-WRITERS) the only writers of FixedPriceAuction.RemainingSellingCoin are the constructor (given the offered coin: CREDIT-RECORD, C01), bid placement, which stores old remainder − NewCoin(selling denom, the bid's to-selling conversion), and cancellation (a zero coin); (CONV-AGREE) the quantity compared with the remainder and with the allowance at validation, the quantity subtracted at placement and the quantity allocated at close are all the bid's own to-selling conversion {floor(AMT/PRICE) | AMT} of the stored coin and price with the auction's paying denomination — one callee, so earlier bids are never re-scaled; (FP-ACCEPT) by finite case evaluation a fixed price bid is recorded only for a FixedPrice auction, a coin in the paying or the selling denomination and a price equal to the start price; (FP-NO-REWRITE) no Bid write is reachable from the block hook for a FixedPrice auction and modification is refused for it; plus the shared rules FP-REMAINDER, FP-CAP (C05), PAIR-RESERVE for the fixed price type (C01), OPEN-GUARD (C08), AL-DOM (C10)."
	r.NotDecided = "the converse 'no valid bid is rejected' beyond the accept sides of the evaluated tables; the arithmetic of the remainder as a number."
	r.Rule("REM-WRITERS", "writers of the fixed price remainder", 2)
	r.Rule("CONV-AGREE", "one to-selling conversion at validation, subtraction and allocation", 2)
	r.Rule("FP-ACCEPT", "accept conditions of a fixed price bid", 3)
	r.Rule("FP-NO-REWRITE", "fixed price bids are written once", 2)
	tm := NewTerms(w)
	ms := w.msgServerMethods()
	place := ms["PlaceBid"]
	bb := w.beginBlockFn()

	// ---------------------------------------------------------------- REM-WRITERS
	n := 0
	for _, fn := range w.Funcs {
		if w.isGenerated(fn) || pkgOf(fn) == nil || pkgOf(fn).Path() == simPath {
			continue
		}
		fr := tm.Root(fn)
		for _, b := range fn.Blocks {
			for _, in := range b.Instrs {
				st, ok := in.(*ssa.Store)
				if !ok {
					continue
				}
				fa, ok := st.Addr.(*ssa.FieldAddr)
				if !ok || !isNamed(fa.X.Type(), typesPath, "FixedPriceAuction") || structOf(fa.X.Type()).Field(fa.Field).Name() != "RemainingSellingCoin" {
					continue
				}
				n++
				construct := fmt.Sprintf("%s:write#%d", fnName(fn), n)
				v := tm.OperandAt(fr, in, st.Val)
				switch {
				case v.Op == "param" && fn.Signature.Results().Len() == 1 && isNamed(fn.Signature.Results().At(0).Type(), typesPath, "FixedPriceAuction"):
					r.Pass("REM-WRITERS", construct, w.instrPos(in), "constructor: the remainder is the coin handed in (the offered coin, see CREDIT-RECORD)")
				case v.Op == "call" && strings.HasSuffix(v.Name, sdkPath+".NewCoin") && len(v.Args) == 2 && strings.HasSuffix(v.Args[1].Name, ".ZeroInt"):
					r.Pass("REM-WRITERS", construct, w.instrPos(in), "cancellation: the remainder is set to a zero coin")
				case v.Op == "call" && strings.HasSuffix(v.Name, sdkPath+".Coin.Sub") && len(v.Args) == 2:
					old, sub := v.Args[0], v.Args[1]
					okOld := fieldBase(old, "RemainingSellingCoin") != nil
					okSub := sub.Op == "call" && strings.HasSuffix(sub.Name, sdkPath+".NewCoin") && len(sub.Args) == 2 && isSellingConv(sub.Args[1]) &&
						isField(sub.Args[0], "Denom") && fieldBase(sub.Args[0].Args[0], "SellingCoin") != nil
					r.Check(okOld && okSub, "REM-WRITERS", construct, w.instrPos(in),
						"placement: new remainder = old remainder − NewCoin(selling denom, to-selling conversion of the bid)",
						fmt.Sprintf("old=%s subtrahend=%s (%s)", old.String(), sub.String(), skeleton(sub)))
				default:
					r.Fail("REM-WRITERS", construct, w.instrPos(in), "the remainder is written only by construction, placement (−bid) and cancellation (zero)",
						"unexpected write of RemainingSellingCoin with "+v.String())
				}
			}
		}
	}

	// ---------------------------------------------------------------- CONV-AGREE
	// validation: operands compared with the remainder and the cap on the fixed price path
	ccRem := &cmpCollector{valueOf: bidTypeValuation(1), sel: func(t *Term) bool { return fieldBase(t, "RemainingSellingCoin") != nil }}
	NewExplorer(w, tm, ccRem).Run(place, 0)
	ok, why := len(ccRem.other) > 0, "no comparison with the remainder"
	for _, o := range ccRem.other {
		q := innerAmount(o)
		if !(isSellingConv(q) && containsFieldOfParam(q, "Coin") && containsFieldOfParam(q, "Price")) {
			ok, why = false, "the quantity compared with the remainder is "+skeleton(q)+" of "+q.String()
		}
	}
	r.Check(ok, "CONV-AGREE", "validation:remainder", w.pos(place.Pos()), "the quantity compared with the remainder is the to-selling conversion of the bid's stored coin and price", why)
	ccCap := &cmpCollector{valueOf: bidTypeValuation(1), sel: isCapField}
	NewExplorer(w, tm, ccCap).Run(place, 0)
	ok, why = len(ccCap.other) > 0, "no comparison with the allowance"
	for _, o := range ccCap.other {
		convs := 0
		o.Walk(func(t *Term) bool {
			if isExcursionRoot(t) {
				convs++
				if skeleton(t) != "TruncateInt(QuoTruncate(LegacyNewDecFromInt(AMT),PRICE))" {
					ok, why = false, "the total uses the conversion "+skeleton(t)
				}
				return false
			}
			return true
		})
		if convs == 0 {
			ok, why = false, "the capped total contains no to-selling conversion"
		}
	}
	r.Check(ok, "CONV-AGREE", "validation:allowance", w.pos(place.Pos()), "every amount in the capped total is the same to-selling conversion", why)
	// allocation at close: values added into AllocationMap on the fixed price path
	allocOK, allocWhy, nAlloc := true, "", 0
	// the maps that end up in a MatchingInfo's AllocationMap: updated through the field, or built in a local variable
	// (possibly filled by a walk callback) that is stored into / returned as that field
	allocMaps := map[string]bool{}
	for _, fn := range sortedFns(w.reachableFrom(bb)) {
		fr := tm.Root(fn)
		for _, b := range fn.Blocks {
			for _, in := range b.Instrs {
				st, ok := in.(*ssa.Store)
				if !ok {
					continue
				}
				if fa, ok := st.Addr.(*ssa.FieldAddr); ok && structOf(fa.X.Type()) != nil && structOf(fa.X.Type()).Field(fa.Field).Name() == "AllocationMap" {
					for _, alt := range tm.OperandAt(fr, in, st.Val).Alts() {
						if m := uncell(alt); m.Op == "makemap" {
							allocMaps[m.Key()] = true
						}
					}
				}
			}
		}
	}
	for _, fn := range sortedFns(w.reachableFrom(bb)) {
		fr := tm.Root(fn)
		for _, b := range fn.Blocks {
			for _, in := range b.Instrs {
				mu, isMU := in.(*ssa.MapUpdate)
				if !isMU || (loadedFieldName(mu.Map) != "AllocationMap" && !allocMaps[uncell(tm.Of(fr, mu.Map)).Key()]) {
					continue
				}
				v := tm.OperandAt(fr, in, mu.Value)
				if !(v.Op == "call" && mathName(v) == "Int.Add" && len(v.Args) == 2) {
					continue // batch path copies results of the matching routine (CAP-MIN, C05)
				}
				nAlloc++
				q := v.Args[1]
				if !(isSellingConv(q) && fromColl(q, "Bid")) {
					allocOK, allocWhy = false, "allocation adds "+skeleton(q)+" at "+w.instrPos(in)
				}
				if k := tm.Of(fr, mu.Key); !(isField(k, "Bidder") && q.Any(func(t *Term) bool { return t.Key() == k.Args[0].Key() })) {
					allocOK, allocWhy = false, "the allocation is credited to "+k.String()+", not to the bidder of the bid it is computed from"
				}
			}
		}
	}
	// the conversions switch on the denomination they are given: every call passes the auction's paying denomination
	// (with another denomination the same bid converts by the other branch — a different quantity at price ≠ 1)
	{
		conv := map[*ssa.Function]bool{}
		for _, f := range bidConverters(w) {
			conv[f] = true
		}
		var badDenom []string
		nConv := 0
		for _, site := range tm.sitesWhere(w.apiRoots(), func(fr *Frame, in ssa.Instruction) bool {
			c, ok := in.(ssa.CallInstruction)
			if !ok {
				return false
			}
			callee := w.calleeBody(c.Common())
			return callee != nil && conv[callee] && pkgOf(fr.Fn) != nil && pkgOf(fr.Fn).Path() == keeperPath
		}) {
			c := site.In.(ssa.CallInstruction).Common()
			if len(c.Args) < 2 {
				continue
			}
			nConv++
			dt := tm.OperandAt(site.Fr, site.In, c.Args[1])
			okD := true
			for _, alt := range dt.Alts() {
				if fieldBase(uncell(alt), "PayingCoinDenom") == nil {
					okD = false
				}
			}
			if !okD {
				badDenom = append(badDenom, fmt.Sprintf("%s converts with %s", w.instrPos(site.In), dt.String()))
			}
		}
		sort.Strings(badDenom)
		r.Check(len(badDenom) == 0 && nConv > 0, "CONV-AGREE", "conversion:denomination", keeperPath,
			fmt.Sprintf("every call of the bid's amount conversions passes the auction's paying denomination (%d call sites in context)", nConv),
			strings.Join(dedupe(badDenom), "; ")+": the quantity compared, subtracted or allocated for one bid is computed by different branches of the conversion at different places")
	}
	r.Check(allocOK && nAlloc > 0, "CONV-AGREE", "close:allocation", w.pos(bb.Pos()),
		"at close each stored bid allocates its to-selling conversion to its own bidder (the same conversion as at validation and subtraction)", allocWhy)

	// ---------------------------------------------------------------- FP-ACCEPT
	commit := commitStore("Bid")
	var typeCases []guardCase
	for _, bt := range []int64{1, 2, 3} {
		for _, at := range []int64{1, 2} {
			bt, at := bt, at
			typeCases = append(typeCases, guardCase{label: fmt.Sprintf("bidType=%d,auctionType=%d", bt, at), accept: (bt == 1) == (at == 1), build: func(c *caseRule) {
				c.vals = append(c.vals, bidTypeValuation(bt))
				c.enums = append(c.enums, enumFix{name: "atype", val: at, match: func(t *Term, v ssa.Value) bool {
					return isNamed(v.Type(), typesPath, "AuctionType") && isField(t, "Type") && fromColl(t.Args[0], "Auction")
				}})
			}})
		}
	}
	runGuard(w, r, tm, guardSpec{rule: "FP-ACCEPT", id: "PlaceBid:type-agreement", root: place, commit: commit, commitTxt: "the Bid record write",
		what: "a fixed price bid is recorded only for a FixedPrice auction, a batch bid only for a Batch auction", cases: typeCases, atoms: []string{"enum:atype"},
		consequence: "a fixed price bid lands in a batch auction (no remainder to subtract from) or vice versa"})
	fixed := func(c *caseRule) { c.vals = append(c.vals, bidTypeValuation(1)) }
	runGuard(w, r, tm, guardSpec{rule: "FP-ACCEPT", id: "PlaceBid:price=start-price", root: place, common: fixed, commit: commit, commitTxt: "the Bid record write",
		what:  "a fixed price bid is recorded only at the auction's start price",
		cases: eqCases("bid price", "StartPrice", func(t *Term) bool { return fieldOfParam(t, "Price") }, func(t *Term) bool { return fieldBase(t, "StartPrice") != nil }),
		atoms: []string{"pair0"}, consequence: "coins are sold at a price other than the fixed one"})
	var dc []guardCase
	for _, pe := range []bool{true, false} {
		for _, se := range []bool{true, false} {
			pe, se := pe, se
			po, so := 0, 0
			if !pe {
				po = 1
			}
			if !se {
				so = 1
			}
			dc = append(dc, guardCase{label: fmt.Sprintf("denom=paying:%v,denom=selling:%v", pe, se), accept: pe || se, build: func(c *caseRule) {
				isCoinDenom := func(t *Term) bool { return isField(t, "Denom") && containsFieldOfParam(t, "Coin") }
				c.pairs = append(c.pairs,
					ordPair{ord: po, match: pairOf(isCoinDenom, func(t *Term) bool { return fieldBase(t, "PayingCoinDenom") != nil })},
					ordPair{ord: so, match: pairOf(isCoinDenom, func(t *Term) bool { return isField(t, "Denom") && fieldBase(t.Args[0], "SellingCoin") != nil })})
			}})
		}
	}
	runGuard(w, r, tm, guardSpec{rule: "FP-ACCEPT", id: "PlaceBid:denomination", root: place, common: fixed, commit: commit, commitTxt: "the Bid record write",
		what: "a fixed price bid's coin is in the paying or in the selling denomination", cases: dc, atoms: []string{"pair0", "pair1"},
		consequence: "a bid in a foreign denomination is converted as if it were selling coin"})

	// ---------------------------------------------------------------- FP-NO-REWRITE
	fpBlock := newCase(w, commit)
	fpBlock.enums = []enumFix{{name: "atype", val: 1, match: func(t *Term, v ssa.Value) bool {
		return isNamed(v.Type(), typesPath, "AuctionType") && isField(t, "Type")
	}}}
	fpBlock.vals = append(fpBlock.vals, func(x *Explorer, fr *Frame, v ssa.Value) AV {
		if ta, ok := v.(*ssa.TypeAssert); ok && ta.CommaOk {
			return Bool(isNamed(ta.AssertedType, typesPath, "FixedPriceAuction"))
		}
		return Unknown
	})
	NewExplorer(w, tm, fpBlock).Run(bb, 0)
	var at []string
	for in := range fpBlock.reached {
		at = append(at, w.instrPos(in))
	}
	sort.Strings(at)
	r.Check(len(at) == 0, "FP-NO-REWRITE", "block-hook", w.pos(bb.Pos()), "block processing of a FixedPrice auction writes no Bid record (accepted bids are never displaced or re-flagged)",
		"Bid writes reachable at "+strings.Join(at, ", "))
	mod := newCase(w, commit)
	mod.enums = []enumFix{{name: "atype", val: 1, match: func(t *Term, v ssa.Value) bool {
		return isNamed(v.Type(), typesPath, "AuctionType") && isField(t, "Type") && fromColl(t.Args[0], "Auction")
	}}}
	NewExplorer(w, tm, mod).Run(ms["ModifyBid"], 0)
	r.Check(len(mod.reached) == 0 && mod.used["enum:atype"] > 0, "FP-NO-REWRITE", "ModifyBid", w.pos(ms["ModifyBid"].Pos()),
		"a bid of a FixedPrice auction cannot be modified", "the Bid write is reachable for a FixedPrice auction")

	// shared rules
	r.Sub(checkC05, "FP-REMAINDER", "FP-CAP")
	r.Sub(checkC08, "OPEN-GUARD")
	r.Sub(checkC10, "AL-DOM")
	// accepted bids are not overwritten: after a restart the bid counter continues where it was, so the remainder keeps
	// matching the recorded bids
	r.SubWhere(checkC19, keepAny("BidSeq", "Bid.Id", "PlaceBid:id"), "ID-MONO")
	r.SubWhere(func(w *World, r *Report) { checkC01(w, r) }, func(_, c string) bool {
		return strings.HasPrefix(c, "PlaceBid:") && !strings.Contains(c, "BidTypeBatch")
	}, /* every bid type a fixed price auction can be handed */ "PAIR-RESERVE")
}
