package main

// COINS-CTOR (shared by C07 and C09): the coin sets handed to the bank are built with the sanitising constructors.
//
// x/bank's SendCoins / InputOutputCoins reject a Coins value that is not valid (zero or negative amounts, unsorted or
// duplicate denominations) with "invalid coins". sdk.NewCoins(...) and Coins.Add(...) drop zero coins and sort; a raw
// composite literal sdk.Coins{c} or a conversion does not. The module routinely transfers amounts that are
// legitimately zero (a rounded-down instalment, zero proceeds, a remainder of nothing), so a raw literal makes block
// processing fail for such a state. The rule: every Coins operand of a transfer is, on every alternative of its
// provenance, the result of sdk.NewCoins / sdk.Coins.Add / Sub / a bank read, or an input of a message that has been
// validated — never a composite literal or conversion built by the module.

import (
	"fmt"
	"strings"

	"golang.org/x/tools/go/ssa"
)

func checkCoinsCtor(w *World, r *Report, tm *Terms) {
	r.Rule("COINS-CTOR", "coin sets handed to the bank are built with the sanitising constructors", 4)
	type verdict struct {
		in  ssa.Instruction
		bad []string
	}
	by := map[ssa.Instruction]*verdict{}
	var order []ssa.Instruction
	rawCoins := func(t *Term) (bool, string) {
		// a slice literal / conversion typed sdk.Coins built here
		bad, why := false, ""
		t.Walk(func(x *Term) bool {
			if bad {
				return false
			}
			switch {
			case x.Op == "call" && (strings.HasSuffix(x.Name, sdkPath+".NewCoins") || strings.HasSuffix(x.Name, sdkPath+".Coins.Add") ||
				strings.HasSuffix(x.Name, sdkPath+".Coins.Sub") || strings.HasSuffix(x.Name, sdkPath+".Coins.Sort")):
				return false // sanitised below this point
			case x.Op == "slice" && x.V != nil && isNamed(x.V.Type(), sdkPath, "Coins"):
				bad, why = true, "a composite literal sdk.Coins{…}"
			case x.Op == "call" && (x.Name == "convert" || strings.HasSuffix(x.Name, "convert")) && x.V != nil && isNamed(x.V.Type(), sdkPath, "Coins"):
				bad, why = true, "a conversion to sdk.Coins"
			case x.Op == "builtin" && x.Name == "append" && x.V != nil && isNamed(x.V.Type(), sdkPath, "Coins"):
				bad, why = true, "an append to a coin set"
			}
			return !bad
		})
		return bad, why
	}
	for _, site := range tm.sitesWhere(w.apiRoots(), func(fr *Frame, in ssa.Instruction) bool {
		e := w.EffectOf(in)
		return e != nil && (e.Kind == EffTransfer || e.Kind == EffFee) && pkgOf(fr.Fn) != nil && pkgOf(fr.Fn).Path() != simPath
	}) {
		in := site.In
		v := by[in]
		if v == nil {
			v = &verdict{in: in}
			by[in] = v
			order = append(order, in)
		}
		args := in.(ssa.CallInstruction).Common().Args
		for _, a := range args {
			if !isNamed(a.Type(), sdkPath, "Coins") && !strings.Contains(a.Type().String(), "bank/types.") {
				continue
			}
			for _, t := range resolveMapReads(tm, site.Fr, tm.OperandAt(site.Fr, in, a), 0) {
				if bad, why := rawCoins(t); bad {
					v.bad = append(v.bad, why)
				}
			}
		}
	}
	seen := map[string]int{}
	for _, in := range order {
		v := by[in]
		base := fnName(in.Parent()) + ":" + w.EffectOf(in).Method
		seen[base]++
		r.Check(len(v.bad) == 0, "COINS-CTOR", fmt.Sprintf("%s#%d", base, seen[base]), w.instrPos(in),
			"the coins transferred are built by sdk.NewCoins / Coins.Add (zero coins dropped, sorted)",
			strings.Join(dedupe(v.bad), "; ")+" is handed to the bank: a zero amount (a rounded-down instalment, zero proceeds, an empty remainder) makes the coin set invalid and the transfer — and with it block processing — fail")
	}
}
