package main

// PROTO-AMINO (C20): the amino-JSON options on a field fit the field's shape.
//
// autocli prints every query response, and the SDK signs legacy-amino transactions, with cosmossdk.io/x/tx aminojson.
// Its per-field encoders are selected by two field options and each accepts one shape only (x/tx v0.13.3
// signing/aminojson/{json_marshal,encoder,options}.go):
//
//	(amino.encoding) = "legacy_coins"   nullSliceAsEmptyEncoder  protoreflect.List only   -> repeated field
//	(amino.encoding) = "inline_json"    cosmosInlineJSON         []byte only               -> singular bytes
//	(cosmos_proto.scalar) = "cosmos.Dec"/"cosmos.Int"            string or []byte          -> singular string/bytes
//
// anything else returns "unsupported type": a response containing such a field cannot be displayed. The options a
// binary actually uses are those in the file descriptors embedded in the generated code (gogoproto: gzipped
// []byte registered with proto.RegisterFile; pulsar: raw []byte in the TypeBuilder), so the rule decodes those byte
// literals from the parsed Go source. The .proto sources are read only to report a source line and to note a
// disagreement with the generated code; they do not decide (the binary is built from the generated code).

import (
	"bytes"
	"compress/gzip"
	"fmt"
	"go/ast"
	"go/token"
	"io"
	"os"
	"path/filepath"
	"regexp"
	"sort"
	"strconv"
	"strings"
)

const apiPath = modPath + "/api/fundraising/fundraising/v1"

const (
	extAminoEncoding = 11110003
	extCosmosScalar  = 93002
)

type protoField struct {
	msg, name string
	repeated  bool
	typ       string // "string", "bytes", "message", … (descriptor type, or the type spelled in the .proto)
	typeName  string // for message/enum fields: the fully qualified type name of the descriptor
	encoding  string
	scalar    string
	where     string
}

// pwRecords iterates the records of a serialised protobuf message; ok=false on malformed input.
func pwRecords(b []byte, f func(num int, wt int, val []byte, v uint64)) bool {
	for len(b) > 0 {
		tag, n := pwVarint(b)
		if n <= 0 {
			return false
		}
		b = b[n:]
		num, wt := int(tag>>3), int(tag&7)
		switch wt {
		case 0:
			v, n := pwVarint(b)
			if n <= 0 {
				return false
			}
			f(num, wt, nil, v)
			b = b[n:]
		case 1:
			if len(b) < 8 {
				return false
			}
			f(num, wt, b[:8], 0)
			b = b[8:]
		case 2:
			l, n := pwVarint(b)
			if n <= 0 || uint64(len(b)-n) < l {
				return false
			}
			f(num, wt, b[n:n+int(l)], 0)
			b = b[n+int(l):]
		case 5:
			if len(b) < 4 {
				return false
			}
			f(num, wt, b[:4], 0)
			b = b[4:]
		default:
			return false
		}
	}
	return true
}

func pwVarint(b []byte) (uint64, int) {
	var v uint64
	for i := 0; i < len(b) && i < 10; i++ {
		v |= uint64(b[i]&0x7f) << (7 * uint(i))
		if b[i] < 0x80 {
			return v, i + 1
		}
	}
	return 0, 0
}

var descTypeNames = map[uint64]string{1: "double", 2: "float", 3: "int64", 4: "uint64", 5: "int32", 6: "fixed64", 7: "fixed32",
	8: "bool", 9: "string", 10: "group", 11: "message", 12: "bytes", 13: "uint32", 14: "enum", 15: "sfixed32", 16: "sfixed64",
	17: "sint32", 18: "sint64"}

// decodeFileDescriptor returns the file name and the option-carrying fields of a serialised FileDescriptorProto.
func decodeFileDescriptor(raw []byte, where string) (string, []protoField, int, bool) {
	file, nmsg := "", 0
	var out []protoField
	var msgFn func(prefix string, b []byte) bool
	msgFn = func(prefix string, b []byte) bool {
		name := ""
		pwRecords(b, func(num, wt int, val []byte, v uint64) {
			if num == 1 && wt == 2 && name == "" {
				name = string(val)
			}
		})
		nmsg++
		full := prefix + name
		ok := true
		if !pwRecords(b, func(num, wt int, val []byte, v uint64) {
			switch {
			case num == 2 && wt == 2: // field
				f := protoField{msg: full, where: where}
				pwRecords(val, func(num, wt int, fv []byte, v uint64) {
					switch {
					case num == 1 && wt == 2:
						f.name = string(fv)
					case num == 4 && wt == 0:
						f.repeated = v == 3
					case num == 5 && wt == 0:
						f.typ = descTypeNames[v]
					case num == 6 && wt == 2:
						f.typeName = string(fv)
					case num == 8 && wt == 2:
						pwRecords(fv, func(num, wt int, ov []byte, v uint64) {
							if num == extAminoEncoding && wt == 2 {
								f.encoding = string(ov)
							}
							if num == extCosmosScalar && wt == 2 {
								f.scalar = string(ov)
							}
						})
					}
				})
				out = append(out, f)
			case num == 3 && wt == 2: // nested type
				ok = msgFn(full+".", val) && ok
			}
		}) {
			return false
		}
		return ok
	}
	ok := pwRecords(raw, func(num, wt int, val []byte, v uint64) {
		switch {
		case num == 1 && wt == 2:
			file = string(val)
		case num == 4 && wt == 2:
			msgFn("", val)
		}
	})
	return file, out, nmsg, ok && strings.HasSuffix(file, ".proto")
}

// byteLiteral evaluates `[]byte{0x.., ...}`.
func byteLiteral(e ast.Expr) []byte {
	cl, ok := e.(*ast.CompositeLit)
	if !ok {
		return nil
	}
	at, ok := cl.Type.(*ast.ArrayType)
	if !ok || at.Len != nil {
		return nil
	}
	if id, ok := at.Elt.(*ast.Ident); !ok || id.Name != "byte" {
		return nil
	}
	out := make([]byte, 0, len(cl.Elts))
	for _, el := range cl.Elts {
		bl, ok := el.(*ast.BasicLit)
		if !ok || bl.Kind != token.INT {
			return nil
		}
		v, err := strconv.ParseUint(bl.Value, 0, 8)
		if err != nil {
			return nil
		}
		out = append(out, byte(v))
	}
	return out
}

// embeddedDescriptors decodes every package-level []byte literal of the package that is a (gzipped) file descriptor.
func embeddedDescriptors(w *World, pkgPath, kind string) (files map[string][]protoField, nmsg int, problems []string) {
	files = map[string][]protoField{}
	p := w.ByPath[pkgPath]
	if p == nil {
		return files, 0, []string{"package " + pkgPath + " is not part of the build"}
	}
	for _, f := range p.Syntax {
		for _, d := range f.Decls {
			gd, ok := d.(*ast.GenDecl)
			if !ok || gd.Tok != token.VAR {
				continue
			}
			for _, sp := range gd.Specs {
				vs := sp.(*ast.ValueSpec)
				for i, v := range vs.Values {
					b := byteLiteral(v)
					if len(b) < 16 {
						continue
					}
					where := w.pos(vs.Names[i].Pos())
					if b[0] == 0x1f && b[1] == 0x8b {
						zr, err := gzip.NewReader(bytes.NewReader(b))
						if err != nil {
							problems = append(problems, where+": "+err.Error())
							continue
						}
						if b, err = io.ReadAll(zr); err != nil {
							problems = append(problems, where+": "+err.Error())
							continue
						}
					}
					name, fields, n, ok := decodeFileDescriptor(b, where)
					if !ok {
						if kind == "gogoproto" || strings.Contains(vs.Names[i].Name, "rawDesc") {
							problems = append(problems, where+": "+vs.Names[i].Name+" is not a decodable file descriptor")
						}
						continue
					}
					nmsg += n
					files[name] = fields
				}
			}
		}
	}
	return files, nmsg, problems
}

var protoFieldRe = regexp.MustCompile(`(?s)^\s*(repeated\s+|optional\s+)?([A-Za-z_][\w.]*)\s+([a-z_][A-Za-z0-9_]*)\s*=\s*\d+\s*(\[.*\])?\s*$`)
var protoOptRe = regexp.MustCompile(`\(\s*([\w.]+)\s*\)\s*=\s*"([^"]*)"`)

// protoSourceFields reads the field statements of one .proto file (messages may nest).
func protoSourceFields(path, rel string) ([]protoField, int) {
	b, err := os.ReadFile(path)
	if err != nil {
		return nil, 0
	}
	var sb strings.Builder
	for _, line := range strings.Split(string(b), "\n") {
		if i := strings.Index(line, "//"); i >= 0 {
			line = line[:i]
		}
		sb.WriteString(line + "\n")
	}
	clean := sb.String()
	var out []protoField
	var stack []string // enclosing block names ("" for non-message blocks)
	depth, start, nmsg := 0, 0, 0
	for i := 0; i < len(clean); i++ {
		switch clean[i] {
		case '[':
			depth++
		case ']':
			depth--
		case '{':
			if depth == 0 {
				hdr := strings.Fields(strings.TrimSpace(clean[start:i]))
				name := ""
				if len(hdr) >= 2 && hdr[len(hdr)-2] == "message" {
					name = hdr[len(hdr)-1]
					nmsg++
				}
				stack = append(stack, name)
				start = i + 1
			}
		case '}':
			if depth == 0 {
				if len(stack) > 0 {
					stack = stack[:len(stack)-1]
				}
				start = i + 1
			}
		case ';':
			if depth != 0 {
				continue
			}
			stmt := clean[start:i]
			off := start + len(stmt) - len(strings.TrimLeft(stmt, " \n\t"))
			start = i + 1
			var names []string
			inMsg := len(stack) > 0 && stack[len(stack)-1] != ""
			for _, s := range stack {
				if s != "" {
					names = append(names, s)
				}
			}
			m := protoFieldRe.FindStringSubmatch(stmt)
			if m == nil || !inMsg || m[2] == "option" || m[2] == "reserved" {
				continue
			}
			f := protoField{msg: strings.Join(names, "."), name: m[3], repeated: strings.HasPrefix(m[1], "repeated"), typ: m[2],
				where: fmt.Sprintf("%s:%d", rel, 1+strings.Count(clean[:off], "\n"))}
			if f.typ != "string" && f.typ != "bytes" {
				if _, scalar := map[string]bool{"double": true, "float": true, "int64": true, "uint64": true, "int32": true, "uint32": true,
					"bool": true, "fixed64": true, "fixed32": true, "sfixed32": true, "sfixed64": true, "sint32": true, "sint64": true}[f.typ]; !scalar {
					f.typ = "message" // or enum: neither is string/bytes
				}
			}
			for _, o := range protoOptRe.FindAllStringSubmatch(m[4], -1) {
				switch o[1] {
				case "amino.encoding":
					f.encoding = o[2]
				case "cosmos_proto.scalar":
					f.scalar = o[2]
				}
			}
			out = append(out, f)
		}
	}
	return out, nmsg
}

func checkProtoAmino(w *World, r *Report) {
	type witness struct {
		kind  string
		files map[string][]protoField
	}
	gogo, ng, p1 := embeddedDescriptors(w, typesPath, "gogoproto")
	pulsar, np, p2 := embeddedDescriptors(w, apiPath, "pulsar")
	src := map[string][]protoField{}
	ns := 0
	dir := filepath.Join(w.RepoDir, "proto", "fundraising", "fundraising", "v1")
	ents, _ := os.ReadDir(dir)
	for _, e := range ents {
		if strings.HasSuffix(e.Name(), ".proto") {
			rel := "proto/fundraising/fundraising/v1/" + e.Name()
			fs, n := protoSourceFields(filepath.Join(dir, e.Name()), rel)
			src["fundraising/fundraising/v1/"+e.Name()] = fs
			ns += n
		}
	}
	for _, p := range append(p1, p2...) {
		r.Fail("PROTO-AMINO", "descriptor:"+p, p, "every embedded file descriptor decodes", p)
	}
	r.Check(len(gogo) > 0 && len(pulsar) > 0 && len(src) > 0, "PROTO-AMINO", "witnesses", apiPath,
		fmt.Sprintf("file descriptors decoded from the generated code: %d files/%d messages (gogoproto, %s), %d files/%d messages (pulsar, api package); %d .proto sources/%d messages", len(gogo), ng, "x/fundraising/types", len(pulsar), np, len(src), ns),
		"one of the three witnesses of the module's field options is empty: nothing was analysed")
	ws := []witness{{"gogoproto descriptor", gogo}, {"pulsar descriptor", pulsar}, {".proto source", src}}
	type key struct{ file, field string }
	seen := map[key]map[string]protoField{}
	for _, wt := range ws {
		for file, fs := range wt.files {
			if !strings.HasPrefix(file, "fundraising/") {
				continue
			}
			for _, f := range fs {
				if f.encoding == "" && f.scalar == "" {
					continue
				}
				k := key{file, f.msg + "." + f.name}
				if seen[k] == nil {
					seen[k] = map[string]protoField{}
				}
				seen[k][wt.kind] = f
			}
		}
	}
	var keys []key
	for k := range seen {
		keys = append(keys, k)
	}
	sort.Slice(keys, func(i, j int) bool {
		if keys[i].file != keys[j].file {
			return keys[i].file < keys[j].file
		}
		return keys[i].field < keys[j].field
	})
	for _, k := range keys {
		var bad []string
		where, what := "", ""
		for _, wt := range ws {
			f, ok := seen[k][wt.kind]
			if !ok {
				// the option is absent from this witness: the three disagree
				if _, has := wt.files[k.file]; has {
					r.Note("PROTO-AMINO: the %s of %s carries no amino/scalar option on %s while another witness does (generated code and proto sources disagree; the embedded descriptors decide)", wt.kind, k.file, k.field)
				}
				continue
			}
			decides := wt.kind != ".proto source"
			if where == "" || wt.kind == ".proto source" {
				where = f.where
			}
			shape := f.typ
			if f.repeated {
				shape = "repeated " + shape
			}
			switch {
			case f.encoding == "legacy_coins":
				what = `(amino.encoding) = "legacy_coins" annotates a repeated field`
				if !f.repeated && decides {
					bad = append(bad, fmt.Sprintf("in the %s, %s is a singular %s field: the aminojson encoder autocli prints responses with (and legacy-amino signing) returns `unsupported type` for it, so a response or message containing %s cannot be displayed or amino-signed", wt.kind, k.field, shape, f.msg))
				}
			case f.encoding == "inline_json":
				what = `(amino.encoding) = "inline_json" annotates a singular bytes field`
				if decides && (f.repeated || f.typ != "bytes") {
					bad = append(bad, fmt.Sprintf("in the %s, %s is a %s field: the inline-JSON encoder accepts bytes only", wt.kind, k.field, shape))
				}
			case f.scalar == "cosmos.Dec" || f.scalar == "cosmos.Int":
				what = fmt.Sprintf(`(cosmos_proto.scalar) = %q annotates a singular string or bytes field`, f.scalar)
				if decides && (f.repeated || (f.typ != "string" && f.typ != "bytes")) {
					bad = append(bad, fmt.Sprintf("in the %s, %s is a %s field: the %s amino encoder accepts a string or bytes value only", wt.kind, k.field, shape, f.scalar))
				}
			default:
				what = "the field's amino/scalar option selects no shape-restricted encoder"
			}
		}
		r.Check(len(bad) == 0, "PROTO-AMINO", k.field, where, k.field+": "+what+" in the gogoproto descriptor, the pulsar descriptor and the .proto source", strings.Join(bad, "; "))
	}
}
