package main

// term.go — E2 value provenance. A Term is a canonical, position-independent
// description of where an SSA value comes from: parameters, fields, calls to
// dependency functions (atoms), constants, with repository helpers inlined,
// local variables resolved by field-sensitive reaching definitions, embedded
// structs and pointer indirections transparent.

import (
	"fmt"
	"go/constant"
	"go/token"
	"go/types"
	"os"
	"sort"
	"strings"

	"golang.org/x/tools/go/ssa"
)

type Term struct {
	Op   string
	Name string
	Args []*Term
	V    ssa.Value // a representative SSA value (may be nil)
	key  string
}

func (t *Term) Key() string {
	if t == nil {
		return "<nil>"
	}
	if t.key != "" {
		return t.key
	}
	var sb strings.Builder
	sb.WriteString(t.Op)
	if t.Name != "" {
		sb.WriteString("<" + t.Name + ">")
	}
	if len(t.Args) > 0 {
		sb.WriteString("(")
		for i, a := range t.Args {
			if i > 0 {
				sb.WriteString(",")
			}
			sb.WriteString(a.Key())
		}
		sb.WriteString(")")
	}
	t.key = sb.String()
	return t.key
}

func (t *Term) String() string { return shorten(t.Key()) }

func shorten(s string) string {
	s = strings.ReplaceAll(s, modPath+"/x/fundraising/", "")
	s = strings.ReplaceAll(s, "github.com/cosmos/cosmos-sdk/types.", "sdk.")
	s = strings.ReplaceAll(s, "cosmossdk.io/collections.", "coll.")
	s = strings.ReplaceAll(s, "cosmossdk.io/math.", "math.")
	if len(s) > 600 {
		s = s[:600] + "…"
	}
	return s
}

// Walk visits t and all sub-terms; f returns false to prune.
func (t *Term) Walk(f func(*Term) bool) {
	if t == nil || !f(t) {
		return
	}
	for _, a := range t.Args {
		a.Walk(f)
	}
}

// Any reports whether some sub-term satisfies p.
func (t *Term) Any(p func(*Term) bool) bool {
	found := false
	t.Walk(func(x *Term) bool {
		if found {
			return false
		}
		if p(x) {
			found = true
			return false
		}
		return true
	})
	return found
}

func (t *Term) size() int {
	n := 0
	t.Walk(func(*Term) bool { n++; return n < 20000 })
	return n
}

func mk(op, name string, v ssa.Value, args ...*Term) *Term {
	return &Term{Op: op, Name: name, Args: args, V: v}
}

// mkPhi builds a normalised alternative set.
func mkPhi(v ssa.Value, alts ...*Term) *Term {
	seen := map[string]*Term{}
	var flat func(t *Term)
	flat = func(t *Term) {
		if t == nil {
			return
		}
		if t.Op == "phi" {
			for _, a := range t.Args {
				flat(a)
			}
			return
		}
		seen[t.Key()] = t
	}
	for _, a := range alts {
		flat(a)
	}
	keys := make([]string, 0, len(seen))
	for k := range seen {
		keys = append(keys, k)
	}
	sort.Strings(keys)
	if len(keys) == 1 {
		return seen[keys[0]]
	}
	out := &Term{Op: "phi", V: v}
	for _, k := range keys {
		out.Args = append(out.Args, seen[k])
	}
	return out
}

// Alts returns the alternatives of a phi term, or the term itself.
func (t *Term) Alts() []*Term {
	if t.Op == "phi" {
		return t.Args
	}
	return []*Term{t}
}

// ---------------------------------------------------------------------------

type Frame struct {
	Fn      *ssa.Function
	Parent  *Frame
	Call    ssa.CallInstruction // the call in Parent that entered Fn (nil for roots / closures entered by Walk)
	ArgVals []ssa.Value         // argument values in Parent (receiver first); nil for roots
	// closure context: where the closure value was made
	Closure      *ssa.MakeClosure
	ClosureFrame *Frame
	depth        int
	id           string
	// phiSel: on this path the phi was entered through the given edge (set by the path explorer; see Explorer.TrackPhi)
	phiSel map[*ssa.Phi]int
	// retSel: on this path the repository callee of the call returned through the return of the given block
	retSel map[*ssa.Call]int
}

func (f *Frame) ID() string {
	if f == nil {
		return ""
	}
	return f.id
}

func (f *Frame) inChain(fn *ssa.Function) bool {
	for x := f; x != nil; x = x.Parent {
		if x.Fn == fn {
			return true
		}
	}
	return false
}

type Terms struct {
	rootBusy map[*ssa.Function]bool
	soleCS   map[*ssa.Function]ssa.CallInstruction
	W        *World
	memo     map[string]*Term
	busy     map[string]bool
	roots    map[*ssa.Function]*Frame
	allocs   map[*ssa.Alloc]*allocInfo
	pwrites  map[*ssa.Function]map[int][]paramWrite
	frames   map[string]*Frame
}

func NewTerms(w *World) *Terms {
	return &Terms{W: w, memo: map[string]*Term{}, busy: map[string]bool{}, roots: map[*ssa.Function]*Frame{},
		allocs: map[*ssa.Alloc]*allocInfo{}, pwrites: map[*ssa.Function]map[int][]paramWrite{}, frames: map[string]*Frame{},
		rootBusy: map[*ssa.Function]bool{}, soleCS: map[*ssa.Function]ssa.CallInstruction{}}
}

// PlainRoot returns a context-free root frame of fn: parameters are symbolic even when fn has a single call site
// (for rules that reason about fn's own parameters).
func (tm *Terms) PlainRoot(fn *ssa.Function) *Frame {
	id := "P:" + fn.String()
	if f := tm.frames[id]; f != nil {
		return f
	}
	f := &Frame{Fn: fn, id: id}
	tm.frames[id] = f
	if par := fn.Parent(); par != nil {
		var made *ssa.MakeClosure
		n := 0
		for _, b := range par.Blocks {
			for _, in := range b.Instrs {
				if mc, ok := in.(*ssa.MakeClosure); ok && mc.Fn == fn {
					made = mc
					n++
				}
			}
		}
		if n == 1 {
			f.Closure, f.ClosureFrame = made, tm.PlainRoot(par)
		}
	}
	return f
}

// Root returns the root frame of fn (parameters are symbolic).
func (tm *Terms) Root(fn *ssa.Function) *Frame {
	if f := tm.roots[fn]; f != nil {
		return f
	}
	// an unexported helper with a single call site is analysed in the context of that call: what it is handed through
	// its parameters is what its one caller passes (outlining a block into such a helper changes nothing observable)
	if cs := tm.soleCallSite(fn); cs != nil && !tm.rootBusy[fn] {
		tm.rootBusy[fn] = true
		parent := tm.Root(cs.Parent())
		delete(tm.rootBusy, fn)
		if !parent.inChain(fn) && parent.depth < maxCtxDepth {
			f := tm.Enter(parent, cs, fn)
			tm.roots[fn] = f
			return f
		}
	}
	f := &Frame{Fn: fn, id: "R:" + fn.String()}
	tm.roots[fn] = f
	// an anonymous function analysed on its own still knows where its free variables come from
	if par := fn.Parent(); par != nil {
		var made *ssa.MakeClosure
		n := 0
		for _, b := range par.Blocks {
			for _, in := range b.Instrs {
				if mc, ok := in.(*ssa.MakeClosure); ok && mc.Fn == fn {
					made = mc
					n++
				}
			}
		}
		if n == 1 {
			f.Closure, f.ClosureFrame = made, tm.Root(par)
		}
	}
	return f
}

// soleCallSite: fn is an unexported, non-closure repository function (outside the simulation package) with exactly one
// static call site in the repository and no other use of its value; nil otherwise.
func (tm *Terms) soleCallSite(fn *ssa.Function) ssa.CallInstruction {
	if v, ok := tm.soleCS[fn]; ok {
		return v
	}
	tm.soleCS[fn] = nil
	if fn.Parent() != nil || fn.Blocks == nil || tm.W.isGenerated(fn) {
		return nil
	}
	obj, _ := fn.Object().(*types.Func)
	if obj == nil || obj.Exported() {
		return nil
	}
	if p := pkgOf(fn); p == nil || !tm.W.isRepoPkg(p) || p.Path() == simPath {
		return nil
	}
	var sites []ssa.CallInstruction
	for _, cs := range tm.W.callSitesOf(fn) {
		if p := pkgOf(cs.Parent()); p != nil && p.Path() == simPath {
			continue
		}
		sites = append(sites, cs)
	}
	if len(sites) != 1 || sites[0].Parent() == fn {
		return nil
	}
	// the function value must not be used other than by that call (method values, callbacks)
	if refs := fn.Referrers(); refs != nil {
		for _, r := range *refs {
			if r != sites[0].(ssa.Instruction) {
				return nil
			}
		}
	}
	tm.soleCS[fn] = sites[0]
	return sites[0]
}

// Enter returns the frame of callee entered from call in parent.
func (tm *Terms) Enter(parent *Frame, call ssa.CallInstruction, callee *ssa.Function) *Frame {
	id := parent.id + "/" + fmt.Sprintf("%p", call) + ">" + callee.String()
	if f := tm.frames[id]; f != nil {
		return f
	}
	cc := call.Common()
	var args []ssa.Value
	if cc.IsInvoke() {
		args = append(args, cc.Value)
	}
	args = append(args, cc.Args...)
	f := &Frame{Fn: callee, Parent: parent, Call: call, ArgVals: args, depth: parent.depth + 1, id: id}
	if mc, ok := cc.Value.(*ssa.MakeClosure); ok {
		f.Closure, f.ClosureFrame = mc, parent
	}
	tm.frames[id] = f
	return f
}

// SelFrame returns fr specialised to a path on which the given phis were entered through the given edges.
func (tm *Terms) SelFrame(fr *Frame, sel map[*ssa.Phi]int, rsel map[*ssa.Call]int) *Frame {
	if len(sel) == 0 && len(rsel) == 0 {
		return fr
	}
	var ks []string
	for ph, i := range sel {
		ks = append(ks, fmt.Sprintf("%s=%d", ph.Name(), i))
	}
	for c, i := range rsel {
		ks = append(ks, fmt.Sprintf("%s>%d", c.Name(), i))
	}
	sort.Strings(ks)
	id := fr.id + "#" + strings.Join(ks, ",")
	if f := tm.frames[id]; f != nil {
		return f
	}
	c := *fr
	c.id = id
	c.phiSel = sel
	c.retSel = rsel
	tm.frames[id] = &c
	return &c
}

// EnterClosure returns the frame for running closure mc (made in frame at)
// with unknown arguments (e.g. a Walk callback).
func (tm *Terms) EnterClosure(at *Frame, mc *ssa.MakeClosure, via ssa.CallInstruction) *Frame {
	fn := mc.Fn.(*ssa.Function)
	id := at.id + "/" + fmt.Sprintf("%p", via) + ">cb:" + fn.String()
	if f := tm.frames[id]; f != nil {
		return f
	}
	f := &Frame{Fn: fn, Parent: at, Call: via, ArgVals: nil, Closure: mc, ClosureFrame: at, depth: at.depth + 1, id: id}
	tm.frames[id] = f
	return f
}

// ---------------------------------------------------------------------------
// address decomposition

// addrRoot decomposes an address value into its root and the field path.
// Index addressing contributes "[]" ; pointer loads stop the decomposition.
func addrRoot(v ssa.Value) (ssa.Value, []string) {
	var path []string
	for {
		switch x := v.(type) {
		case *ssa.FieldAddr:
			st := structOf(x.X.Type())
			name := fmt.Sprintf("#%d", x.Field)
			emb := false
			if st != nil {
				name = st.Field(x.Field).Name()
				emb = st.Field(x.Field).Embedded()
			}
			if !emb {
				path = append([]string{name}, path...)
			} else {
				path = append([]string{"~" + name}, path...)
			}
			v = x.X
		case *ssa.IndexAddr:
			if c, ok := x.Index.(*ssa.Const); ok && c.Value != nil {
				path = append([]string{"[" + c.Value.ExactString() + "]"}, path...)
			} else {
				path = append([]string{"[]"}, path...)
			}
			v = x.X
		default:
			return v, path
		}
	}
}

func structOf(t types.Type) *types.Struct {
	for {
		switch x := t.Underlying().(type) {
		case *types.Pointer:
			t = x.Elem()
		case *types.Struct:
			return x
		default:
			return nil
		}
	}
}

func pathKey(p []string) string { return strings.Join(p, ".") }

func hasPrefix(p, pre []string) bool {
	if len(pre) > len(p) {
		return false
	}
	for i := range pre {
		if p[i] != pre[i] {
			return false
		}
	}
	return true
}

// ---------------------------------------------------------------------------
// local variable (Alloc) reaching definitions

type allocDef struct {
	instr  ssa.Instruction
	path   []string
	kind   string        // "zero" | "store" | "havoc" | "pwrite"
	val    ssa.Value     // store: stored value; pwrite: value inside callee
	callee *ssa.Function // pwrite
	chain  []pwStep      // pwrite: further calls inside the callee before the store
	weak   bool          // pwrite that does not happen on every returning path of the callee
}

type allocInfo struct {
	alloc   *ssa.Alloc
	escapes bool
	// captured: closures read the variable (and only read it); their reads see the flow-insensitive content
	captured bool
	keys     [][]string // every access path seen (incl. empty)
	defs     []*allocDef
	// reaching state before each instruction of interest: key -> def indices
	in map[ssa.Instruction]map[string][]int
	// all values ever stored (for escaping cells)
	stored []ssa.Value
	// values stored by closures that capture the variable
	storedIn []closureStore
}

type closureStore struct {
	fn  *ssa.Function
	val ssa.Value
}

type pwStep struct {
	instr  ssa.CallInstruction
	callee *ssa.Function
}

type paramWrite struct {
	path  []string
	val   ssa.Value // nil: the pointer is handed to code that cannot be summarised
	chain []pwStep  // calls (inside the summarised function) through which the pointer travels before the store
	must  bool      // the store happens on every returning path
}

// paramWrites: for a repository function, the fields it stores through each pointer parameter, directly or by handing
// the pointer on to another repository function (transitively); handing it to anything else makes it "opaque".
func (tm *Terms) paramWrites(fn *ssa.Function) map[int][]paramWrite {
	if r, ok := tm.pwrites[fn]; ok {
		return r
	}
	res := map[int][]paramWrite{}
	tm.pwrites[fn] = res // recursion: a cycle sees the partial summary
	pidx := map[*ssa.Parameter]int{}
	for i, p := range fn.Params {
		pidx[p] = i
	}
	onAllReturns := func(in ssa.Instruction) bool {
		for _, b := range fn.Blocks {
			if _, ok := b.Instrs[len(b.Instrs)-1].(*ssa.Return); ok {
				if !(b == in.Block() || in.Block().Dominates(b)) {
					return false
				}
			}
		}
		return true
	}
	for _, b := range fn.Blocks {
		for _, in := range b.Instrs {
			switch x := in.(type) {
			case *ssa.Store:
				root, path := addrRoot(x.Addr)
				if p, ok := root.(*ssa.Parameter); ok {
					res[pidx[p]] = append(res[pidx[p]], paramWrite{path: path, val: x.Val, must: onAllReturns(in)})
				}
			case ssa.CallInstruction:
				cc := x.Common()
				var args []ssa.Value
				if cc.IsInvoke() {
					args = append(args, cc.Value)
				}
				args = append(args, cc.Args...)
				for j, a := range args {
					root, path := addrRoot(a)
					p, ok := root.(*ssa.Parameter)
					if !ok || !isPointer(p.Type()) {
						continue
					}
					callee := cc.StaticCallee()
					if callee != nil && callee.Blocks != nil && tm.W.isRepoPkg(pkgOf(callee)) && callee != fn {
						for _, w := range tm.paramWrites(callee)[j] {
							nw := paramWrite{path: append(append([]string{}, path...), w.path...), val: w.val,
								chain: append([]pwStep{{x, callee}}, w.chain...), must: w.must && onAllReturns(in)}
							res[pidx[p]] = append(res[pidx[p]], nw)
						}
						continue
					}
					if tm.readOnlyCallee(cc) {
						continue
					}
					res[pidx[p]] = append(res[pidx[p]], paramWrite{path: append(path, "*opaque*"), val: nil})
				}
			}
		}
	}
	return res
}

func isPointer(t types.Type) bool {
	_, ok := t.Underlying().(*types.Pointer)
	return ok
}

func (tm *Terms) allocInfoOf(a *ssa.Alloc) *allocInfo {
	if ai := tm.allocs[a]; ai != nil {
		return ai
	}
	ai := &allocInfo{alloc: a, in: map[ssa.Instruction]map[string][]int{}}
	tm.allocs[a] = ai
	fn := a.Parent()
	keyset := map[string][]string{"": nil}
	addKey := func(p []string) {
		for i := 0; i <= len(p); i++ {
			keyset[pathKey(p[:i])] = append([]string{}, p[:i]...)
		}
	}
	ai.defs = append(ai.defs, &allocDef{instr: a, path: nil, kind: "zero"})
	defAt := map[ssa.Instruction][]int{}
	defAt[a] = []int{0}
	uses := map[ssa.Instruction]bool{}
	// walk all addresses derived from the alloc
	var visit func(addr ssa.Value, path []string)
	visit = func(addr ssa.Value, path []string) {
		refs := addr.Referrers()
		if refs == nil {
			return
		}
		for _, in := range *refs {
			switch x := in.(type) {
			case *ssa.FieldAddr:
				if x.X == addr {
					_, p := addrRoot(x)
					visit(x, p)
				}
			case *ssa.IndexAddr:
				if x.X == addr {
					_, p := addrRoot(x)
					visit(x, p)
				}
			case *ssa.UnOp:
				if x.Op == token.MUL && x.X == addr {
					addKey(path)
					uses[x] = true
				}
			case *ssa.Store:
				if x.Addr == addr {
					addKey(path)
					ai.defs = append(ai.defs, &allocDef{instr: x, path: path, kind: "store", val: x.Val})
					defAt[x] = append(defAt[x], len(ai.defs)-1)
					ai.stored = append(ai.stored, x.Val)
				}
				if x.Val == addr {
					ai.escapes = true
				}
			case *ssa.MakeClosure:
				if os.Getenv("VERIF_NOROC") != "" || !readOnlyCapture(x, addr, 0) {
					ai.escapes = true
				} else {
					ai.captured = true // closures only read it: the function's own reads stay flow-sensitive
				}
				// the closure may assign the captured variable: those values belong to the cell as well
				if cfn, ok := x.Fn.(*ssa.Function); ok && len(path) == 0 {
					for bi, bv := range x.Bindings {
						if bv != addr || bi >= len(cfn.FreeVars) {
							continue
						}
						if frefs := cfn.FreeVars[bi].Referrers(); frefs != nil {
							for _, fr := range *frefs {
								if st, ok := fr.(*ssa.Store); ok && st.Addr == ssa.Value(cfn.FreeVars[bi]) {
									ai.storedIn = append(ai.storedIn, closureStore{fn: cfn, val: st.Val})
								}
							}
						}
					}
				}
			case *ssa.Phi:
				ai.escapes = true
			case ssa.CallInstruction:
				cc := x.Common()
				uses[in] = true
				addKey(path)
				// which argument positions receive the address?
				var args []ssa.Value
				if cc.IsInvoke() {
					args = append(args, cc.Value)
				}
				args = append(args, cc.Args...)
				callee := cc.StaticCallee()
				handled := false
				if callee != nil && callee.Blocks != nil && tm.W.isRepoPkg(pkgOf(callee)) {
					pw := tm.paramWrites(callee)
					handled = true
					for i, av := range args {
						if av != addr {
							continue
						}
						for _, wri := range pw[i] {
							if wri.val == nil {
								handled = false
								break
							}
							p := append(append([]string{}, path...), wri.path...)
							addKey(p)
							ai.defs = append(ai.defs, &allocDef{instr: in, path: p, kind: "pwrite", val: wri.val, callee: callee, chain: wri.chain, weak: !wri.must})
							defAt[in] = append(defAt[in], len(ai.defs)-1)
						}
					}
				}
				if !handled {
					if tm.readOnlyCallee(cc) {
						continue
					}
					ai.defs = append(ai.defs, &allocDef{instr: in, path: path, kind: "havoc"})
					defAt[in] = append(defAt[in], len(ai.defs)-1)
				}
			case *ssa.MakeInterface:
				uses[in] = true
				if x.X != addr {
					break
				}
				// the address travels as an interface value (e.g. a proto.Message handed to a decoder): a call that
				// receives it may write anything through it; any other use lets it escape
				if irefs := x.Referrers(); irefs != nil {
					for _, ir := range *irefs {
						switch y := ir.(type) {
						case ssa.CallInstruction:
							if tm.readOnlyCallee(y.Common()) {
								continue
							}
							addKey(path)
							ai.defs = append(ai.defs, &allocDef{instr: ir, path: path, kind: "havoc"})
							defAt[ir] = append(defAt[ir], len(ai.defs)-1)
						case *ssa.DebugRef:
						default:
							ai.escapes = true
						}
					}
				}
			case *ssa.Return, *ssa.ChangeType, *ssa.Convert, *ssa.BinOp, *ssa.TypeAssert, *ssa.DebugRef, *ssa.Slice, *ssa.Range, *ssa.Lookup, *ssa.Index, *ssa.Field, *ssa.Extract, *ssa.MapUpdate, *ssa.Defer, *ssa.Go, *ssa.Send, *ssa.Panic, *ssa.If:
				uses[in] = true
				switch in.(type) {
				case *ssa.MapUpdate, *ssa.Send, *ssa.Go, *ssa.Defer:
					ai.escapes = true
				}
			default:
				ai.escapes = true
			}
		}
	}
	visit(a, nil)
	for _, p := range keyset {
		ai.keys = append(ai.keys, p)
	}
	sort.Slice(ai.keys, func(i, j int) bool { return pathKey(ai.keys[i]) < pathKey(ai.keys[j]) })
	if ai.escapes {
		return ai
	}
	// forward data-flow
	type state map[string][]int
	clone := func(s state) state {
		o := state{}
		for k, v := range s {
			o[k] = v
		}
		return o
	}
	merge := func(dst, src state) (state, bool) {
		changed := false
		if dst == nil {
			return clone(src), true
		}
		for k, v := range src {
			have := map[int]bool{}
			for _, d := range dst[k] {
				have[d] = true
			}
			for _, d := range v {
				if !have[d] {
					dst[k] = append(append([]int{}, dst[k]...), d)
					have[d] = true
					changed = true
				}
			}
		}
		return dst, changed
	}
	apply := func(s state, di int) {
		d := ai.defs[di]
		weak := d.weak
		for _, p := range d.path {
			if p == "[]" {
				weak = true // element store with a computed index: may be any element
			}
		}
		for _, k := range ai.keys {
			if hasPrefix(k, d.path) {
				if weak {
					s[pathKey(k)] = append(append([]int{}, s[pathKey(k)]...), di)
				} else {
					s[pathKey(k)] = []int{di}
				}
			}
		}
	}
	blockIn := map[*ssa.BasicBlock]state{}
	work := []*ssa.BasicBlock{fn.Blocks[0]}
	blockIn[fn.Blocks[0]] = state{}
	iter := 0
	for len(work) > 0 {
		iter++
		if iter > 20000 {
			fatalf("reaching definitions did not converge in %s", fn)
		}
		b := work[0]
		work = work[1:]
		s := clone(blockIn[b])
		for _, in := range b.Instrs {
			if uses[in] {
				ai.in[in] = clone(s)
			} else if ai.captured {
				// a call may run a closure that reads the variable: what it holds at that call
				if _, isCall := in.(ssa.CallInstruction); isCall {
					ai.in[in] = clone(s)
				}
			}
			for _, di := range defAt[in] {
				apply(s, di)
			}
		}
		for _, succ := range b.Succs {
			ns, ch := merge(blockIn[succ], s)
			if ch {
				blockIn[succ] = ns
				work = append(work, succ)
			}
		}
	}
	return ai
}

func pkgOf(fn *ssa.Function) *types.Package {
	if fn.Pkg != nil {
		return fn.Pkg.Pkg
	}
	if o := fn.Object(); o != nil {
		return o.Pkg()
	}
	if fn.Origin() != nil {
		return pkgOf(fn.Origin())
	}
	if fn.Parent() != nil {
		return pkgOf(fn.Parent())
	}
	return nil
}

// readOnlyCallee: dependency functions that are known not to write through a
// pointer argument (used only to keep precision for address-taken locals).
func (tm *Terms) readOnlyCallee(cc *ssa.CallCommon) bool {
	k := callKey(cc)
	switch {
	case strings.HasPrefix(k, collPath+".Map.") || strings.HasPrefix(k, collPath+".Item.") || strings.HasPrefix(k, collPath+".Sequence."):
		return true // receiver is the collection value; ctx/key/value args are read
	case strings.HasSuffix(k, ".String") || strings.HasSuffix(k, ".Error"):
		return true
	}
	return false
}

// ---------------------------------------------------------------------------
// term construction

const maxInlineDepth = 10

func (tm *Terms) Of(fr *Frame, v ssa.Value) *Term {
	if v == nil {
		return mk("unknown", "nil-value", nil)
	}
	k := fr.id + "|" + fmt.Sprintf("%p", v)
	if t := tm.memo[k]; t != nil {
		return t
	}
	if tm.busy[k] {
		return mk("rec", v.Name(), v) // cyclic reference: the value of v from the previous iteration
	}
	tm.busy[k] = true
	t := tm.build(fr, v)
	delete(tm.busy, k)
	if t.size() > 4000 {
		t = mk("unknown", "term too large", v)
	}
	tm.memo[k] = t
	return t
}

// OperandAt is Of for an operand used by instruction `at`: a pointer to a
// local variable denotes the variable's contents at that point.
func (tm *Terms) OperandAt(fr *Frame, at ssa.Instruction, v ssa.Value) *Term {
	root, path := addrRoot(v)
	if a, ok := root.(*ssa.Alloc); ok && isPointer(v.Type()) {
		if _, isAddr := v.(*ssa.Alloc); isAddr || len(path) > 0 {
			return mk("new", "", v, tm.snapshot(fr, a, cleanPath(path), at))
		}
	}
	t := tm.Of(fr, v)
	// a pointer to a record obtained from elsewhere (a constructor's result, a type assertion) whose fields were then
	// assigned through it: the assignments that are certain to have happened before `at` belong to the description
	if at != nil && isPointer(v.Type()) && structOf(v.Type()) != nil {
		if _, isAlloc := v.(*ssa.Alloc); !isAlloc {
			if ov := tm.pointerStores(fr, at, v); len(ov) > 0 {
				return mk("upd", "", v, append([]*Term{t}, ov...)...)
			}
		}
	}
	return t
}

// pointerStores: fset terms for the stores `v.F = x` (v a pointer-typed SSA value) that dominate `at`; the last
// dominating store to a field wins.
func (tm *Terms) pointerStores(fr *Frame, at ssa.Instruction, v ssa.Value) []*Term {
	refs := v.Referrers()
	if refs == nil {
		return nil
	}
	last := map[string]*ssa.Store{}
	var order []string
	for _, r := range *refs {
		fa, ok := r.(*ssa.FieldAddr)
		if !ok || fa.X != v {
			continue
		}
		st := structOf(fa.X.Type())
		if st == nil {
			continue
		}
		name := st.Field(fa.Field).Name()
		if frefs := fa.Referrers(); frefs != nil {
			for _, fr2 := range *frefs {
				s, ok := fr2.(*ssa.Store)
				if !ok || s.Addr != ssa.Value(fa) || s.Parent() != at.Parent() || !instrDominates(s, at) {
					continue
				}
				if prev := last[name]; prev == nil {
					order = append(order, name)
					last[name] = s
				} else if instrDominates(prev, s) {
					last[name] = s
				}
			}
		}
	}
	sort.Strings(order)
	var out []*Term
	for _, n := range order {
		s := last[n]
		out = append(out, mk("fset", n, v, tm.OperandAt(fr, s, s.Val)))
	}
	return out
}

func cleanPath(p []string) []string { return p }

func constKey(c *ssa.Const) string {
	if c.Value == nil {
		return "nil"
	}
	if c.Value.Kind() == constant.String {
		return fmt.Sprintf("%q", constant.StringVal(c.Value))
	}
	return c.Value.ExactString()
}

func fieldTerm(base *Term, name string, embedded bool, v ssa.Value) *Term {
	if embedded {
		return projEmbedded(base, "~"+name, v)
	}
	return normField(base, name, v)
}

// projEmbedded steps into an embedded struct: constructed values (new/upd)
// are projected, opaque values are transparent (field<F>(x) denotes x's
// promoted field whichever embedded struct declares it).
func projEmbedded(t *Term, name string, v ssa.Value) *Term {
	switch t.Op {
	case "new", "deref":
		return projEmbedded(t.Args[0], name, v)
	case "upd":
		for _, a := range t.Args[1:] {
			if a.Name == name {
				return a.Args[0]
			}
		}
		return projEmbedded(t.Args[0], name, v)
	case "phi":
		var alts []*Term
		for _, a := range t.Args {
			alts = append(alts, projEmbedded(a, name, v))
		}
		return mkPhi(v, alts...)
	}
	return t
}

// normField applies the field-projection normalisations.
func normField(base *Term, name string, v ssa.Value) *Term {
	// fields of a coin built by sdk.NewCoin(denom, amount)
	if base.Op == "call" && strings.HasSuffix(base.Name, sdkPath+".NewCoin") && len(base.Args) == 2 {
		switch name {
		case "Denom":
			return base.Args[0]
		case "Amount":
			return base.Args[1]
		}
	}
	switch base.Op {
	case "new", "deref":
		return normField(base.Args[0], name, v)
	case "cell":
		// a composite literal whose address escapes: its parts are where they were stored
		if len(base.Args) == 1 && base.Args[0].Op == "upd" {
			return normField(base.Args[0], name, v)
		}
	case "upd":
		for _, a := range base.Args[1:] {
			if a.Name == name {
				return a.Args[0]
			}
		}
		return normField(base.Args[0], name, v)
	case "zero":
		return mk("zero", "", v)
	case "phi":
		var alts []*Term
		for _, a := range base.Args {
			alts = append(alts, normField(a, name, v))
		}
		return mkPhi(v, alts...)
	}
	return mk("field", name, v, base)
}

func (tm *Terms) build(fr *Frame, v ssa.Value) *Term {
	switch x := v.(type) {
	case *ssa.Const:
		return mk("const", constKey(x), v)
	case *ssa.Parameter:
		if fr.ArgVals != nil {
			for i, p := range fr.Fn.Params {
				if p == x && i < len(fr.ArgVals) {
					return tm.OperandAt(fr.Parent, fr.Call, fr.ArgVals[i])
				}
			}
		}
		return mk("param", x.Name(), v)
	case *ssa.FreeVar:
		if fr.Closure != nil {
			for i, fv := range fr.Fn.FreeVars {
				if fv == x && i < len(fr.Closure.Bindings) {
					return tm.Of(fr.ClosureFrame, fr.Closure.Bindings[i])
				}
			}
		}
		return mk("free", x.Name(), v)
	case *ssa.Global:
		return mk("globaladdr", x.Pkg.Pkg.Path()+"."+x.Name(), v)
	case *ssa.Function:
		return mk("func", x.String(), v)
	case *ssa.Builtin:
		return mk("builtin", x.Name(), v)
	case *ssa.Alloc:
		ai := tm.allocInfoOf(x)
		if ai.escapes {
			return mk("cellref", x.Comment+"@"+fnName(x.Parent()), v)
		}
		return mk("allocref", x.Comment+"@"+fnName(x.Parent()), v)
	case *ssa.FieldAddr:
		// address value used as a pointer: describe as ref to the field
		base := tm.Of(fr, x.X)
		st := structOf(x.X.Type())
		name, emb := fmt.Sprintf("#%d", x.Field), false
		if st != nil {
			name, emb = st.Field(x.Field).Name(), st.Field(x.Field).Embedded()
		}
		if emb {
			return projEmbedded(base, "~"+name, v)
		}
		return mk("fieldaddr", name, v, base)
	case *ssa.IndexAddr:
		return mk("elemaddr", "", v, tm.Of(fr, x.X), tm.Of(fr, x.Index))
	case *ssa.Field:
		st := structOf(x.X.Type())
		name, emb := fmt.Sprintf("#%d", x.Field), false
		if st != nil {
			name, emb = st.Field(x.Field).Name(), st.Field(x.Field).Embedded()
		}
		return fieldTerm(tm.Of(fr, x.X), name, emb, v)
	case *ssa.UnOp:
		switch x.Op {
		case token.MUL:
			return tm.load(fr, x)
		case token.NOT:
			return mk("not", "", v, tm.Of(fr, x.X))
		case token.SUB:
			return mk("neg", "", v, tm.Of(fr, x.X))
		case token.ARROW:
			return mk("unknown", "chan-recv", v)
		}
		return mk("unop", x.Op.String(), v, tm.Of(fr, x.X))
	case *ssa.BinOp:
		return mk("binop", x.Op.String(), v, tm.Of(fr, x.X), tm.Of(fr, x.Y))
	case *ssa.Phi:
		if i, ok := fr.phiSel[x]; ok && i < len(x.Edges) {
			return tm.Of(fr, x.Edges[i])
		}
		var alts []*Term
		self := mk("rec", x.Name(), x).Key()
		for _, e := range x.Edges {
			if a := tm.Of(fr, e); a.Key() != self {
				alts = append(alts, a) // phi(self, X) = X
			}
		}
		if len(alts) == 0 {
			return mk("rec", x.Name(), x)
		}
		return mkPhi(v, alts...)
	case *ssa.Extract:
		tup := tm.Of(fr, x.Tuple)
		if tup.Op == "tuple" && x.Index < len(tup.Args) {
			return tup.Args[x.Index]
		}
		if tup.Op == "phi" {
			var alts []*Term
			ok := true
			for _, a := range tup.Args {
				if a.Op == "tuple" && x.Index < len(a.Args) {
					alts = append(alts, a.Args[x.Index])
				} else {
					ok = false
				}
			}
			if ok {
				return mkPhi(v, alts...)
			}
		}
		return mk("res", fmt.Sprint(x.Index), v, tup)
	case *ssa.Call:
		return tm.call(fr, x)
	case *ssa.MakeInterface:
		return tm.OperandAt(fr, x, x.X)
	case *ssa.ChangeInterface:
		return tm.Of(fr, x.X)
	case *ssa.ChangeType:
		return tm.Of(fr, x.X)
	case *ssa.Convert:
		return tm.Of(fr, x.X)
	case *ssa.MultiConvert:
		return tm.Of(fr, x.X)
	case *ssa.SliceToArrayPointer:
		return tm.Of(fr, x.X)
	case *ssa.TypeAssert:
		inner := tm.Of(fr, x.X)
		if x.CommaOk {
			return mk("tuple", "", v, inner, mk("assertok", x.AssertedType.String(), v, inner))
		}
		return inner
	case *ssa.MakeClosure:
		return mk("closure", x.Fn.String(), v)
	case *ssa.MakeMap:
		return mk("makemap", fmt.Sprintf("%s@%s", x.Name(), fnName(x.Parent())), v)
	case *ssa.MakeSlice:
		return mk("makeslice", "", v)
	case *ssa.MakeChan:
		return mk("unknown", "chan", v)
	case *ssa.Slice:
		return mk("slice", "", v, tm.OperandAt(fr, x, x.X))
	case *ssa.Index:
		return tm.index(fr, v, x.X, x.Index)
	case *ssa.Lookup:
		m := tm.Of(fr, x.X)
		val := mk("lookup", "", v, m, tm.Of(fr, x.Index))
		if x.CommaOk {
			return mk("tuple", "", v, val, mk("lookupok", "", v, m, tm.Of(fr, x.Index)))
		}
		return val
	case *ssa.Range:
		return mk("range", "", v, tm.Of(fr, x.X))
	case *ssa.Next:
		it := tm.Of(fr, x.Iter)
		var m *Term = it
		if it.Op == "range" {
			m = it.Args[0]
		}
		return mk("tuple", "", v, mk("nextok", "", v, m), mk("mapkey", "", v, m), mk("mapval", "", v, m))
	}
	return mk("unknown", fmt.Sprintf("%T", v), v)
}

func (tm *Terms) index(fr *Frame, v ssa.Value, base, idx ssa.Value) *Term {
	b := tm.Of(fr, base)
	if isLastIndex(idx, base) {
		return mk("last", "", v, b)
	}
	if c, ok := idx.(*ssa.Const); ok {
		return elemOf(b, constKey(c), v)
	}
	return mk("elem", "", v, b, tm.Of(fr, idx))
}

// elemOf projects a constant index out of a literal slice/array term.
func elemOf(b *Term, idx string, v ssa.Value) *Term {
	x := b
	for x.Op == "slice" || x.Op == "new" || x.Op == "deref" {
		x = x.Args[0]
	}
	if x.Op == "upd" {
		for _, a := range x.Args[1:] {
			if a.Name == "["+idx+"]" {
				return a.Args[0]
			}
		}
	}
	return mk("elem", idx, v, b)
}

// isLastIndex recognises len(base)-1 (base compared structurally on the SSA value or its load address).
func isLastIndex(idx, base ssa.Value) bool {
	bo, ok := idx.(*ssa.BinOp)
	if !ok || bo.Op != token.SUB {
		return false
	}
	c, ok := bo.Y.(*ssa.Const)
	if !ok || c.Value == nil || c.Value.ExactString() != "1" {
		return false
	}
	call, ok := bo.X.(*ssa.Call)
	if !ok {
		return false
	}
	if b, ok := call.Call.Value.(*ssa.Builtin); !ok || b.Name() != "len" {
		return false
	}
	return sameValue(call.Call.Args[0], base)
}

// sameValue: identical SSA value, or two calls/loads that are syntactically the same pure expression.
func sameValue(a, b ssa.Value) bool {
	if a == b {
		return true
	}
	switch x := a.(type) {
	case *ssa.Call:
		y, ok := b.(*ssa.Call)
		if !ok || callKey(&x.Call) != callKey(&y.Call) || callKey(&x.Call) == "" || len(x.Call.Args) != len(y.Call.Args) {
			return false
		}
		if x.Call.IsInvoke() != y.Call.IsInvoke() {
			return false
		}
		if x.Call.IsInvoke() && !sameValue(x.Call.Value, y.Call.Value) {
			return false
		}
		for i := range x.Call.Args {
			if !sameValue(x.Call.Args[i], y.Call.Args[i]) {
				return false
			}
		}
		return isGetterLike(&x.Call)
	case *ssa.UnOp:
		y, ok := b.(*ssa.UnOp)
		return ok && x.Op == y.Op && sameValue(x.X, y.X)
	case *ssa.FieldAddr:
		y, ok := b.(*ssa.FieldAddr)
		return ok && x.Field == y.Field && sameValue(x.X, y.X)
	case *ssa.Field:
		y, ok := b.(*ssa.Field)
		return ok && x.Field == y.Field && sameValue(x.X, y.X)
	}
	return false
}

func isGetterLike(c *ssa.CallCommon) bool {
	o := staticCalleeObj(c)
	return o != nil && strings.HasPrefix(o.Name(), "Get") && len(c.Args) <= 1
}

// indexAddrsOf: the IndexAddr steps of an address chain, outermost first (in the order addrRoot lists "[]" path steps).
func indexAddrsOf(addr ssa.Value) []*ssa.IndexAddr {
	var rev []*ssa.IndexAddr
	for {
		switch x := addr.(type) {
		case *ssa.FieldAddr:
			addr = x.X
			continue
		case *ssa.IndexAddr:
			rev = append(rev, x)
			addr = x.X
			continue
		}
		break
	}
	for i, j := 0, len(rev)-1; i < j; i, j = i+1, j-1 {
		rev[i], rev[j] = rev[j], rev[i]
	}
	return rev
}

// load resolves *addr.
func (tm *Terms) load(fr *Frame, ld *ssa.UnOp) *Term {
	root, path := addrRoot(ld.X)
	switch r := root.(type) {
	case *ssa.Alloc:
		return tm.snapshot(fr, r, path, ld)
	case *ssa.Global:
		t := mk("global", r.Pkg.Pkg.Path()+"."+r.Name(), ld)
		for _, p := range path {
			t = pathStep(t, p, ld)
		}
		return t
	case *ssa.FreeVar:
		// captured variable: the cell of the enclosing function
		if fr.Closure != nil {
			for i, fv := range fr.Fn.FreeVars {
				if fv == r && i < len(fr.Closure.Bindings) {
					if al, ok := fr.Closure.Bindings[i].(*ssa.Alloc); ok {
						// a closure called by the very function that owns the variable reads what the variable holds at
						// that call
						if fr.Call != nil {
							if ci, isInstr := fr.Call.(ssa.Instruction); isInstr && ci.Parent() == al.Parent() && fr.ClosureFrame != nil && fr.ClosureFrame.Fn == al.Parent() {
								return tm.snapshot(fr.ClosureFrame, al, path, ci)
							}
						}
						return tm.snapshot(fr.ClosureFrame, al, path, ld)
					}
				}
			}
		}
	}
	// IndexAddr of a slice value: element
	if ia, ok := ld.X.(*ssa.IndexAddr); ok {
		return tm.index(fr, ld, ia.X, ia.Index)
	}
	t := tm.Of(fr, root)
	// fields of an element: &s[i].F — keep the index (the element term is the same as for a copy of s[i])
	if idxs := indexAddrsOf(ld.X); len(idxs) > 0 {
		k := 0
		for _, p := range path {
			if p == "[]" && k < len(idxs) {
				ia := idxs[k]
				k++
				switch {
				case isLastIndex(ia.Index, ia.X):
					t = mk("last", "", ld, t)
				default:
					if c, ok := ia.Index.(*ssa.Const); ok {
						t = elemOf(t, constKey(c), ld)
					} else {
						t = mk("elem", "", ld, t, tm.Of(fr, ia.Index))
					}
				}
				continue
			}
			t = pathStep(t, p, ld)
		}
		return t
	}
	if t.Op == "new" && len(path) > 0 {
		// a freshly built object (a constructor's composite literal seen through inlining) reached through a pointer:
		// what the literal put into a field is what a load returns only until somebody stores into that field through
		// the same pointer
		if ov := tm.storesThroughSamePointer(fr, ld, root, t, path); ov != nil {
			return ov
		}
	}
	for _, p := range path {
		t = pathStep(t, p, ld)
	}
	if len(path) == 0 {
		// load through a plain pointer value
		switch t.Op {
		case "new":
			return t.Args[0]
		case "fieldaddr":
			return normField(t.Args[0], t.Name, ld)
		}
		return mk("deref", "", ld, t)
	}
	return t
}

func pathStep(t *Term, p string, v ssa.Value) *Term {
	switch {
	case p == "[]":
		return mk("elem", "", v, t)
	case strings.HasPrefix(p, "["):
		return elemOf(t, strings.Trim(p, "[]"), v)
	case strings.HasPrefix(p, "~"):
		return projEmbedded(t, p, v)
	}
	return normField(t, p, v)
}

// snapshot gives the contents of local variable a (sub-path path) just before instruction at.
func (tm *Terms) snapshot(fr *Frame, a *ssa.Alloc, path []string, at ssa.Instruction) *Term {
	ai := tm.allocInfoOf(a)
	if ai.escapes || (at != nil && at.Parent() != a.Parent()) {
		// flow-insensitive cell: any value ever stored (also what a closure that only reads the variable sees)
		k := fr.id + "|cell|" + fmt.Sprintf("%p", a)
		var cell *Term
		if t := tm.memo[k]; t != nil {
			cell = t
		} else if tm.busy[k] {
			cell = mk("rec", a.Name(), a)
		} else {
			tm.busy[k] = true
			var alts []*Term
			// whole-variable stores; stores to parts of the variable (fields of a composite literal whose address
			// escapes) keep their place: the cell's content is then upd(whole, part := any value ever stored there)
			type part struct {
				path []string
				vals []*Term
			}
			parts := map[string]*part{}
			for _, d := range ai.defs {
				switch {
				case d.kind == "store" && len(d.path) == 0:
					alts = append(alts, tm.Of(fr, d.val))
				case d.kind == "store":
					pk := pathKey(d.path)
					if parts[pk] == nil {
						parts[pk] = &part{path: d.path}
					}
					parts[pk].vals = append(parts[pk].vals, tm.Of(fr, d.val))
				case d.kind == "havoc" || d.kind == "pwrite":
					alts = append(alts, mk("havoc", tm.W.instrPos(d.instr), a))
				}
			}
			for _, cs := range ai.storedIn {
				alts = append(alts, tm.Of(tm.Root(cs.fn), cs.val))
			}
			delete(tm.busy, k)
			if len(alts) == 0 {
				alts = append(alts, mk("zero", "", a))
			}
			content := mkPhi(a, alts...)
			if len(parts) > 0 {
				var pks []string
				for pk := range parts {
					pks = append(pks, pk)
				}
				sort.Strings(pks)
				var build func(prefix []string) []*Term
				build = func(prefix []string) []*Term {
					var out []*Term
					done := map[string]bool{}
					for _, pk := range pks {
						pt := parts[pk]
						if len(pt.path) <= len(prefix) || !hasPrefix(pt.path, prefix) {
							continue
						}
						seg := pt.path[len(prefix)]
						if done[seg] {
							continue
						}
						done[seg] = true
						here := append(append([]string{}, prefix...), seg)
						var vals []*Term
						if e := parts[pathKey(here)]; e != nil {
							vals = e.vals
						}
						sub := build(here)
						var val *Term
						switch {
						case len(vals) > 0 && len(sub) == 0:
							val = mkPhi(a, vals...)
						case len(vals) > 0:
							val = mk("upd", "", a, append([]*Term{mkPhi(a, vals...)}, sub...)...)
						default:
							val = mk("upd", "", a, append([]*Term{mk("zero", "", a)}, sub...)...)
						}
						out = append(out, mk("fset", seg, a, val))
					}
					return out
				}
				content = mk("upd", "", a, append([]*Term{content}, build(nil)...)...)
			}
			cell = mk("cell", a.Comment+"@"+fnName(a.Parent()), a, content)
			if singleValueCell(content) {
				// a variable that escapes only because a closure reads it and that is assigned exactly once (a captured
				// parameter or local): wherever it is read, it is that value
				cell = content
			}
			tm.memo[k] = cell
		}
		t := cell
		for _, p := range path {
			t = pathStep(t, p, a)
		}
		return t
	}
	st := ai.in[at]
	if st == nil {
		return mk("unknown", "no reaching state for "+a.Comment, a)
	}
	// a path the function itself never reads (only a closure does): the longest prefix it knows, then step down
	known := func(p []string) bool {
		for _, k := range ai.keys {
			if pathKey(k) == pathKey(p) {
				return true
			}
		}
		return false
	}
	if !known(path) {
		for n := len(path) - 1; n >= 0; n-- {
			if known(path[:n]) || n == 0 {
				t := tm.snapAt(fr, ai, st, path[:n], 0)
				for _, p := range path[n:] {
					t = pathStep(t, p, a)
				}
				return t
			}
		}
	}
	return tm.snapAt(fr, ai, st, path, 0)
}

func (tm *Terms) snapAt(fr *Frame, ai *allocInfo, st map[string][]int, path []string, depth int) *Term {
	if depth > 6 {
		return mk("unknown", "deep aggregate", ai.alloc)
	}
	defs := st[pathKey(path)]
	var alts []*Term
	for _, di := range defs {
		d := ai.defs[di]
		if len(d.path) > len(path) {
			continue // partial definitions are overlays (below)
		}
		var base *Term
		switch d.kind {
		case "zero":
			base = mk("zero", "", ai.alloc)
		case "store":
			base = tm.OperandAt(fr, d.instr, d.val)
		case "havoc":
			base = mk("havoc", tm.W.instrPos(d.instr), ai.alloc)
		case "pwrite":
			cf := tm.Enter(fr, d.instr.(ssa.CallInstruction), d.callee)
			for _, st := range d.chain {
				cf = tm.Enter(cf, st.instr, st.callee)
			}
			base = tm.Of(cf, d.val)
		}
		for _, p := range path[len(d.path):] {
			base = pathStep(base, p, ai.alloc)
		}
		alts = append(alts, base)
	}
	if len(alts) == 0 {
		alts = append(alts, mk("unknown", "undefined "+ai.alloc.Comment+"."+pathKey(path), ai.alloc))
	}
	base := mkPhi(ai.alloc, alts...)
	// overlays: immediate sub-keys whose reaching defs include partial stores
	var ov []*Term
	for _, k := range ai.keys {
		if len(k) != len(path)+1 || !hasPrefix(k, path) {
			continue
		}
		partial := false
		for _, di := range st[pathKey(k)] {
			if len(ai.defs[di].path) > len(path) {
				partial = true
			}
		}
		// deeper partial stores (two levels down) also alter this sub-key
		if !partial {
			for _, k2 := range ai.keys {
				if len(k2) > len(k) && hasPrefix(k2, k) {
					for _, di := range st[pathKey(k2)] {
						if len(ai.defs[di].path) > len(path) {
							partial = true
						}
					}
				}
			}
		}
		if partial {
			name := k[len(k)-1]
			if strings.HasPrefix(name, "[") || strings.HasPrefix(name, "~") {
				// element / embedded-pointer overlays are folded into an opaque marker
				ov = append(ov, mk("fset", name, ai.alloc, tm.snapAt(fr, ai, st, k, depth+1)))
				continue
			}
			ov = append(ov, mk("fset", name, ai.alloc, tm.snapAt(fr, ai, st, k, depth+1)))
		}
	}
	if len(ov) == 0 {
		return base
	}
	return mk("upd", "", ai.alloc, append([]*Term{base}, ov...)...)
}

// ---------------------------------------------------------------------------
// calls

// implOf resolves an interface invoke on types.AuctionI to the single
// declared method all implementors share (through the embedded BaseAuction).
func (w *World) implOf(cc *ssa.CallCommon) *ssa.Function {
	if !cc.IsInvoke() {
		return nil
	}
	n := namedOf(cc.Value.Type())
	if n == nil || n != w.AuctionI {
		return nil
	}
	var found *types.Func
	for _, name := range []string{"FixedPriceAuction", "BatchAuction"} {
		impl := w.lookupNamed(typesPath, name)
		ms := types.NewMethodSet(types.NewPointer(impl))
		sel := ms.Lookup(cc.Method.Pkg(), cc.Method.Name())
		if sel == nil {
			return nil
		}
		f := sel.Obj().(*types.Func)
		if found != nil && found != f {
			return nil // implementors differ: not resolvable to one body
		}
		found = f
	}
	return w.FuncOf(found)
}

// calleeBody returns the repository function executed by a call when that is
// statically known (static calls, closures, AuctionI invokes).
func (w *World) calleeBody(cc *ssa.CallCommon) *ssa.Function {
	if cc.IsInvoke() {
		return w.implOf(cc)
	}
	fn := cc.StaticCallee()
	if fn == nil || fn.Blocks == nil {
		return nil
	}
	if !w.isRepoPkg(pkgOf(fn)) {
		return nil
	}
	return fn
}

func (tm *Terms) call(fr *Frame, c *ssa.Call) *Term {
	cc := &c.Call
	if b, ok := cc.Value.(*ssa.Builtin); ok {
		var args []*Term
		for _, a := range cc.Args {
			args = append(args, tm.OperandAt(fr, c, a))
		}
		return mk("builtin", b.Name(), c, args...)
	}
	var args []*Term
	if cc.IsInvoke() {
		args = append(args, tm.Of(fr, cc.Value))
	}
	for _, a := range cc.Args {
		args = append(args, tm.OperandAt(fr, c, a))
	}
	name := callKey(cc)
	if name == "" {
		name = "dynamic"
		args = append([]*Term{tm.Of(fr, cc.Value)}, args...)
	}
	oc := mk("call", name, c, args...)
	if callee := tm.W.calleeBody(cc); callee != nil && fr.depth < maxInlineDepth && !fr.inChain(callee) {
		cf := tm.Enter(fr, c, callee)
		if t := tm.inlineResult(cf, c, oc); t != nil {
			return t
		}
	}
	return oc
}

func dirty(t *Term) bool { return dirtyFor(t, nil) }

// dirtyFor: t mentions state that cannot be described outside the callee frame cf — a local variable, captured cell,
// havoc or unknown of the callee (or of something it called). State of the callers (flowing in through arguments) is
// the callers' own and stays describable.
func dirtyFor(t *Term, cf *Frame) bool {
	callerFn := func(fn *ssa.Function) bool {
		if cf == nil || fn == nil {
			return false
		}
		for f := cf.Parent; f != nil; f = f.Parent {
			if f.Fn == fn {
				return true
			}
			if f.ClosureFrame != nil && f.ClosureFrame.Fn == fn {
				return true
			}
		}
		return false
	}
	return t.Any(func(x *Term) bool {
		switch x.Op {
		case "cell":
			// the flow-insensitive content of an escaping variable / composite literal is the same wherever it is read
			if al, ok := x.V.(*ssa.Alloc); ok && cf != nil && al.Heap && al.Comment == "complit" {
				return false
			}
			fallthrough
		case "allocref", "cellref", "unknown", "havoc", "free":
			if v, ok := x.V.(ssa.Instruction); ok && callerFn(v.Parent()) {
				return false
			}
			return true
		}
		return false
	})
}

// inlineResult computes the result term of the callee (all returns joined).
// Results that cannot be described purely stay opaque (res_i of the call).
func (tm *Terms) inlineResult(cf *Frame, c *ssa.Call, oc *Term) *Term {
	fn := cf.Fn
	nres := fn.Signature.Results().Len()
	if nres == 0 {
		return nil
	}
	per := make([][]*Term, nres)
	only, haveOnly := -1, false
	if cf.Parent != nil {
		only, haveOnly = cf.Parent.retSel[c]
	}
	for _, b := range fn.Blocks {
		ret, ok := b.Instrs[len(b.Instrs)-1].(*ssa.Return)
		if !ok {
			continue
		}
		if haveOnly && b.Index != only {
			continue // on this path the callee returned elsewhere
		}
		failing := nres >= 2 && isErrorType(fn.Signature.Results().At(nres-1).Type()) && definitelyNonNilErr(ret, ret.Results[nres-1])
		for i, r := range ret.Results {
			if failing && i < nres-1 {
				continue // `return zero, err`: by convention the other results of a failing return are meaningless
			}
			per[i] = append(per[i], tm.OperandAt(cf, ret, r))
		}
	}
	for i := range per {
		if len(per[i]) == 0 && i < nres-1 && len(per[nres-1]) > 0 {
			// every return fails: describe the values anyway
			for _, b := range fn.Blocks {
				if ret, ok := b.Instrs[len(b.Instrs)-1].(*ssa.Return); ok {
					per[i] = append(per[i], tm.OperandAt(cf, ret, ret.Results[i]))
				}
			}
		}
	}
	var outs []*Term
	for i := range per {
		if len(per[i]) == 0 {
			return nil // no return (always panics)
		}
		t := mkPhi(c, per[i]...)
		if dirtyFor(t, cf) {
			if nres == 1 {
				return nil
			}
			t = mk("res", fmt.Sprint(i), c, oc)
		}
		outs = append(outs, t)
	}
	if nres == 1 {
		return outs[0]
	}
	return mk("tuple", "", c, outs...)
}

// definitelyNonNilErr: the error value e returned by ret cannot be nil — it is built by an error constructor, is a
// sentinel variable, or the return is only reached through the non-nil branch of a test of e (or of the error it wraps).
func definitelyNonNilErr(ret *ssa.Return, e ssa.Value) bool {
	if c, ok := e.(*ssa.Const); ok {
		return !c.IsNil()
	}
	guarded := func(v ssa.Value) bool {
		b := ret.Block()
		for d := b; d != nil; d = d.Idom() {
			id := d.Idom()
			if id == nil {
				break
			}
			iff, ok := id.Instrs[len(id.Instrs)-1].(*ssa.If)
			if !ok {
				continue
			}
			bo, ok := iff.Cond.(*ssa.BinOp)
			if !ok || (bo.Op != token.NEQ && bo.Op != token.EQL) {
				continue
			}
			isNil := func(x ssa.Value) bool { c, ok := x.(*ssa.Const); return ok && c.IsNil() }
			if !((bo.X == v && isNil(bo.Y)) || (bo.Y == v && isNil(bo.X))) {
				continue
			}
			nonNilSucc := id.Succs[0]
			if bo.Op == token.EQL {
				nonNilSucc = id.Succs[1]
			}
			// d is reached from id only through nonNilSucc when nonNilSucc dominates d and has id as its only predecessor
			if (nonNilSucc == d || nonNilSucc.Dominates(d)) && len(nonNilSucc.Preds) == 1 {
				return true
			}
		}
		return false
	}
	switch x := e.(type) {
	case *ssa.Call:
		switch callKey(&x.Call) {
		case "fmt.Errorf", "errors.New", "google.golang.org/grpc/status.Error", "google.golang.org/grpc/status.Errorf", "cosmossdk.io/errors.New":
			return true
		case "cosmossdk.io/errors.Wrap", "cosmossdk.io/errors.Wrapf", "github.com/pkg/errors.Wrap", "github.com/pkg/errors.Wrapf":
			if len(x.Call.Args) > 0 {
				return definitelyNonNilErr(ret, x.Call.Args[0])
			}
			return false
		}
	case *ssa.UnOp:
		if _, ok := x.X.(*ssa.Global); ok && x.Op == token.MUL {
			return true // a package-level sentinel error
		}
	case *ssa.MakeInterface:
		return true
	}
	return guarded(e)
}

// appendedElems: the values an element of the list term l can be when l is built only by make + append of single
// values (a list collected in one loop and walked in another). ok=false when part of the list comes from elsewhere.
func appendedElems(l *Term, depth int) (out []*Term, ok bool) {
	if depth > 12 {
		return nil, false
	}
	l = uncell(l)
	switch {
	case l.Op == "rec":
		return nil, true
	case l.Op == "makeslice", l.Op == "zero", l.Op == "const" && l.Name == "nil":
		return nil, true
	case l.Op == "phi":
		for _, a := range l.Args {
			es, ok := appendedElems(a, depth+1)
			if !ok {
				return nil, false
			}
			out = append(out, es...)
		}
		return out, true
	case l.Op == "builtin" && l.Name == "append" && len(l.Args) == 2:
		base, ok := appendedElems(l.Args[0], depth+1)
		if !ok {
			return nil, false
		}
		add := uncell(l.Args[1])
		if add.Op != "slice" || len(add.Args) == 0 {
			return nil, false
		}
		arr := uncell(add.Args[0])
		for arr.Op == "new" || arr.Op == "deref" || arr.Op == "allocref" {
			if len(arr.Args) == 0 {
				return nil, false
			}
			arr = uncell(arr.Args[0])
		}
		if arr.Op != "upd" {
			return nil, false
		}
		for _, fs := range arr.Args[1:] {
			if fs.Op != "fset" || !strings.HasPrefix(fs.Name, "[") || len(fs.Args) != 1 {
				return nil, false
			}
			base = append(base, fs.Args[0])
		}
		return base, true
	}
	return nil, false
}

// expandBuiltElem: elem(L, i) with L a list built by appends → the alternatives of what was appended (as a phi).
func expandBuiltElem(t *Term) *Term {
	u := uncell(t)
	if u.Op != "elem" || len(u.Args) < 1 {
		return t
	}
	es, ok := appendedElems(u.Args[0], 0)
	if !ok || len(es) == 0 {
		return t
	}
	if len(es) == 1 {
		return es[0]
	}
	return &Term{Op: "phi", Args: es, V: u.V}
}

// singleValueCell: the flow-insensitive content of an escaping variable is one definite value (not a join of several
// stores, not a record assembled from part stores, not something unresolved).
func singleValueCell(c *Term) bool {
	switch c.Op {
	case "param", "field", "call", "res", "const", "elem", "lookup", "binop", "closure", "func":
		return true
	}
	return false
}

// readOnlyCapture: the closure made by mc (and any closure it makes in turn) only reads the variable whose address
// addr it captures — loads, and loads of its fields/elements — so the only writer remains the enclosing function.
func readOnlyCapture(mc *ssa.MakeClosure, addr ssa.Value, depth int) bool {
	cfn, ok := mc.Fn.(*ssa.Function)
	if !ok || depth > 3 {
		return false
	}
	var readsOnly func(v ssa.Value, d int) bool
	readsOnly = func(v ssa.Value, d int) bool {
		refs := v.Referrers()
		if refs == nil {
			return true
		}
		for _, r := range *refs {
			switch x := r.(type) {
			case *ssa.UnOp:
				if x.Op != token.MUL {
					return false
				}
			case *ssa.FieldAddr:
				if !readsOnly(x, d) {
					return false
				}
			case *ssa.IndexAddr:
				if x.X != v || !readsOnly(x, d) {
					return false
				}
			case *ssa.MakeClosure:
				if !readOnlyCapture(x, v, d+1) {
					return false
				}
			case *ssa.DebugRef:
			default:
				return false
			}
		}
		return true
	}
	for bi, bv := range mc.Bindings {
		if bv != addr {
			continue
		}
		if bi >= len(cfn.FreeVars) || !readsOnly(cfn.FreeVars[bi], depth) {
			return false
		}
	}
	return true
}

// storesThroughSamePointer: the value of the load `ld` of path `path` under pointer `root` (term rt, a fresh object),
// taking into account the stores of the same function into that path (or a prefix of it) through any SSA value that
// denotes the same pointer. nil when there is no such store.
func (tm *Terms) storesThroughSamePointer(fr *Frame, ld *ssa.UnOp, root ssa.Value, rt *Term, path []string) *Term {
	fn := ld.Parent()
	type hit struct {
		st   *ssa.Store
		rest []string
	}
	var hits []hit
	for _, b := range fn.Blocks {
		for _, in := range b.Instrs {
			st, ok := in.(*ssa.Store)
			if !ok {
				continue
			}
			r2, p2 := addrRoot(st.Addr)
			if len(p2) == 0 || len(p2) > len(path) || !hasPrefix(path, p2) {
				continue
			}
			if _, isAlloc := r2.(*ssa.Alloc); isAlloc {
				continue
			}
			if r2 != root && tm.Of(fr, r2).Key() != rt.Key() {
				continue
			}
			hits = append(hits, hit{st, path[len(p2):]})
		}
	}
	if len(hits) == 0 {
		return nil
	}
	val := func(h hit) *Term {
		t := tm.OperandAt(fr, h.st, h.st.Val)
		for _, p := range h.rest {
			t = pathStep(t, p, ld)
		}
		return t
	}
	// the last store that is certain to have happened
	var dom *hit
	for i := range hits {
		if instrDominates(hits[i].st, ld) && (dom == nil || instrDominates(dom.st, hits[i].st)) {
			dom = &hits[i]
		}
	}
	var alts []*Term
	if dom != nil {
		alts = append(alts, val(*dom))
	} else {
		t := rt
		for _, p := range path {
			t = pathStep(t, p, ld)
		}
		alts = append(alts, t)
	}
	for i := range hits {
		if dom != nil && (hits[i].st == dom.st || instrDominates(hits[i].st, dom.st)) {
			continue // overwritten by the dominating store
		}
		if instrDominates(ld, hits[i].st) && !sameLoop(ld, hits[i].st) {
			continue // happens only after the load
		}
		alts = append(alts, val(hits[i]))
	}
	return mkPhi(ld, alts...)
}

func sameLoop(a, b ssa.Instruction) bool {
	fi := fnInfo(a.Parent())
	la, lb := fi.LoopOf[a.Block()], fi.LoopOf[b.Block()]
	for x := la; x != nil; x = x.Parent {
		for y := lb; y != nil; y = y.Parent {
			if x == y {
				return true
			}
		}
	}
	return false
}
