package main

// C02 — zero-sum; everyone ends with their due.
//   ESC-ROLE     every transfer / fee has attributed payer and payee in the confirmed table, within one auction
//   BANK-METHODS non-simulation code invokes only SendCoins / InputOutputCoins / SpendableCoins on the bank keeper
//   SETTLE-SEQ   every non-failing settlement path performs allocate ≺ return unsold ≺ refund (batch) ≺ sweep ≺ status, none missing
//   PAIR-FEE     the fee is paid on every non-failing path of creation / bid placement, before the record is written
//   MSG-PROP     a failing callee fails the message handler (so the SDK discards the message's writes)

import (
	"fmt"
	"os"
	"sort"
	"strings"

	"golang.org/x/tools/go/ssa"
)

func init() { register("C02", checkC02) }

func checkEscRole(w *World, r *Report, tm *Terms) []TransferInst {
	insts := collectTransfers(w, tm, allEntries(w))
	n := map[string]int{}
	for _, ti := range insts {
		base := fmt.Sprintf("%s:%s:%s", ti.Entry, fnName(ti.Site.Parent()), ti.Method)
		n[base]++
		construct := fmt.Sprintf("%s#%d", base, n[base])
		var bad []string
		for _, p := range ti.Payers {
			for _, q := range ti.Payees {
				if p.Kind == "Unattributed" || q.Kind == "Unattributed" {
					bad = append(bad, fmt.Sprintf("unattributed account (%s%s): a debit/credit the records do not explain", p.Why, q.Why))
					continue
				}
				if ok, why := allowedPair(ti.Entry, p, q); !ok {
					bad = append(bad, fmt.Sprintf("%s → %s is not a transfer this entry point may perform (%s)", p, q, why))
				}
			}
		}
		sort.Strings(bad)
		r.Check(len(bad) == 0, "ESC-ROLE", construct, w.instrPos(ti.Site),
			fmt.Sprintf("%s: %s %s is in the confirmed transfer table", ti.Entry, ti.Method, ti.pairString()), strings.Join(dedupe(bad), "; "))
	}
	return insts
}

func checkBankMethods(w *World, r *Report) {
	used := map[string][]string{}
	for _, fn := range w.Funcs {
		p := pkgOf(fn)
		if p == nil || p.Path() == simPath || w.isGenerated(fn) {
			continue
		}
		for _, b := range fn.Blocks {
			for _, in := range b.Instrs {
				if c, ok := in.(ssa.CallInstruction); ok && c.Common().IsInvoke() && namedOf(c.Common().Value.Type()) == w.BankKeeper {
					used[c.Common().Method.Name()] = append(used[c.Common().Method.Name()], w.instrPos(in))
				}
			}
		}
	}
	allowed := map[string]bool{"SendCoins": true, "InputOutputCoins": true, "SpendableCoins": true}
	for _, m := range sortedKeys(used) {
		r.Check(allowed[m], "BANK-METHODS", "bank:"+m, used[m][0], fmt.Sprintf("bank method %s (%d call sites) only moves or reads coins", m, len(used[m])),
			fmt.Sprintf("non-simulation code calls BankKeeper.%s at %s: coins can be created, destroyed or moved through module accounts outside the escrow scheme", m, strings.Join(used[m], ", ")))
	}
}

// ---------------------------------------------------------------- SETTLE-SEQ

type settleRule struct {
	caseRule
	tm       *Terms
	batch    bool
	loopCls  map[string]string // class of an outermost transfer loop, per calling context
	loopKind map[string]bool   // is the loop a transfer loop (per calling context)
}

const (
	ssStageMask = 7
	ssViol      = 1 << 3
	ssRefund    = 1 << 4
	ssDone      = 1 << 5
)

// classOfTransfer: A allocation, U unsold return, R refund, S sweep ("" otherwise).
func classOfTransfer(w *World, tm *Terms, fr *Frame, in ssa.Instruction) string {
	e := w.EffectOf(in)
	if e == nil || e.Kind != EffTransfer {
		return ""
	}
	args := in.(ssa.CallInstruction).Common().Args
	switch e.Method {
	case "InputOutputCoins":
		ins := resolveMapReads(tm, fr, tm.OperandAt(fr, in, args[1]), 0)
		kind := ""
		for _, t := range ins {
			t.Walk(func(y *Term) bool {
				if y.Op == "call" && strings.HasSuffix(y.Name, "bank/types.NewInput") {
					kind = roleOf(y.Args[0]).Kind
					return false
				}
				return true
			})
		}
		if os.Getenv("VERIF_DEBUG") == "settle" && kind == "" {
			for _, t := range ins {
				fmt.Fprintf(os.Stderr, "SETTLE io-input %s\n", t.String())
			}
			fmt.Fprintf(os.Stderr, "SETTLE io-arg %s\n", tm.OperandAt(fr, in, args[1]).String())
		}
		switch kind {
		case "SellingEscrow":
			return "A"
		case "PayingEscrow":
			return "R"
		}
	case "SendCoins":
		from, to := roleOf(tm.OperandAt(fr, in, args[1])).Kind, roleOf(tm.OperandAt(fr, in, args[2])).Kind
		switch {
		case from == "SellingEscrow" && to == "Auctioneer":
			return "U"
		case from == "PayingEscrow" && (to == "VestingEscrow" || to == "Auctioneer"):
			return "S"
		}
	}
	return "?"
}

func (s *settleRule) step(st uint64, cls string) uint64 {
	stage := st & ssStageMask
	if os.Getenv("VERIF_DEBUG") == "settle" {
		fmt.Fprintf(os.Stderr, "SETTLE step stage=%d cls=%s batch=%v\n", stage, cls, s.batch)
	}
	next := func(want, to uint64) uint64 {
		if stage != want {
			return st | ssViol
		}
		return (st &^ ssStageMask) | to
	}
	switch cls {
	case "A":
		return next(0, 1)
	case "U":
		return next(1, 2)
	case "R":
		st |= ssRefund
		return next(2, 3)
	case "S":
		if stage == 2 && !s.batch {
			return (st &^ ssStageMask) | 4
		}
		return next(3, 4)
	case "W":
		if s.batch && st&ssRefund == 0 {
			return st | ssViol
		}
		return next(4, 5)
	case "?":
		return st | ssViol
	}
	return st
}

// transferLoop: a loop that repeats transfers for the members of one auction (per bidder, per instalment) — as opposed to
// the loop over the auctions themselves, whose body (in context) advances an auction's status.
func (s *settleRule) transferLoop(fr *Frame, l *Loop) bool {
	key := fmt.Sprintf("%s|%d", fr.id, l.Header.Index)
	if v, ok := s.loopKind[key]; ok {
		return v
	}
	status := false
	see := func(in ssa.Instruction) {
		if e := s.w.EffectOf(in); e != nil && e.Kind == EffStatusWrite {
			status = true
		}
	}
	for _, b := range fr.Fn.Blocks {
		if !l.Blocks[b] {
			continue
		}
		for _, in := range b.Instrs {
			see(in)
			if ci, isCall := in.(ssa.CallInstruction); isCall {
				if callee := s.w.calleeBody(ci.Common()); callee != nil && !fr.inChain(callee) {
					s.tm.walkFrom(s.tm.Enter(fr, ci, callee), func(_ *Frame, cin ssa.Instruction) { see(cin) })
				}
			}
		}
	}
	s.loopKind[key] = !status
	return !status
}

// inLoopContext: the instruction runs inside a transfer loop of its own function or of a caller on the frame chain.
func (s *settleRule) inLoopContext(fr *Frame, in ssa.Instruction) bool {
	for l := fnInfo(in.Parent()).LoopOf[in.Block()]; l != nil; l = l.Parent {
		if s.transferLoop(fr, l) {
			return true
		}
	}
	for f := fr; f != nil && f.Parent != nil && f.Call != nil; f = f.Parent {
		for l := fnInfo(f.Parent.Fn).LoopOf[f.Call.Block()]; l != nil; l = l.Parent {
			if s.transferLoop(f.Parent, l) {
				return true
			}
		}
	}
	return false
}

func (s *settleRule) OnInstr(x *Explorer, fr *Frame, in ssa.Instruction, st uint64) uint64 {
	if e := s.w.EffectOf(in); e != nil {
		switch e.Kind {
		case EffTransfer:
			if s.inLoopContext(fr, in) {
				return st // the region event at loop entry stands for it
			}
			if os.Getenv("VERIF_DEBUG") == "settle" {
				fmt.Fprintf(os.Stderr, "SETTLE xfer %s cls=%s inloop=%v\n", s.w.instrPos(in), classOfTransfer(s.w, s.tm, fr, in), s.inLoopContext(fr, in))
			}
			return s.step(st, classOfTransfer(s.w, s.tm, fr, in))
		case EffStatusWrite:
			if v, ok := statusTarget(x, fr, in); ok && (v == stVesting || v == stFinished) {
				return s.step(st, "W")
			}
		}
	}
	return st
}

// OnLoopEnter: entering an outermost loop (no enclosing loop in the function or up the frame chain) whose body, including
// everything it calls, performs transfers of one class counts as one settlement step of that class.
func (s *settleRule) OnLoopEnter(x *Explorer, fr *Frame, l *Loop, st uint64) uint64 {
	if !s.transferLoop(fr, l) {
		return st
	}
	for p := l.Parent; p != nil; p = p.Parent {
		if s.transferLoop(fr, p) {
			return st // an enclosing transfer loop already stands for it
		}
	}
	if fr.Call != nil && fr.Parent != nil && s.inLoopContext(fr.Parent, fr.Call) {
		return st
	}
	key := fmt.Sprintf("%s|%d", fr.id, l.Header.Index)
	cls, ok := s.loopCls[key]
	if !ok {
		note := func(c string) {
			if c != "" {
				cls = c
			}
		}
		for _, b := range fr.Fn.Blocks {
			if !l.Blocks[b] {
				continue
			}
			for _, in := range b.Instrs {
				note(classOfTransfer(s.w, s.tm, fr, in))
				if ci, isCall := in.(ssa.CallInstruction); isCall {
					if callee := s.w.calleeBody(ci.Common()); callee != nil && !fr.inChain(callee) {
						s.tm.walkFrom(s.tm.Enter(fr, ci, callee), func(cfr *Frame, cin ssa.Instruction) {
							note(classOfTransfer(s.w, s.tm, cfr, cin))
						})
					}
				}
			}
		}
		s.loopCls[key] = cls
	}
	if os.Getenv("VERIF_DEBUG") == "settle" {
		fmt.Fprintf(os.Stderr, "SETTLE loop %s %s cls=%q\n", fr.Fn, s.w.instrPos(l.Header.Instrs[0]), cls)
	}
	if cls != "" {
		return s.step(st, cls)
	}
	return st
}

func checkSettleSeq(w *World, r *Report, tm *Terms) {
	rolesTM = tm
	bb := w.beginBlockFn()
	for _, typ := range []int64{1, 2} {
		sr := &settleRule{caseRule: *newCase(w, func(*Effect, ssa.Instruction) bool { return false }), tm: tm, batch: typ == 2, loopCls: map[string]string{}, loopKind: map[string]bool{}}
		sr.enums = []enumFix{
			{name: "status", val: stStarted, match: func(t *Term, v ssa.Value) bool {
				return isNamed(v.Type(), typesPath, "AuctionStatus") && isField(t, "Status")
			}},
			{name: "type", val: typ, match: func(t *Term, v ssa.Value) bool {
				return isNamed(v.Type(), typesPath, "AuctionType") && isField(t, "Type")
			}},
		}
		sr.vals = append(sr.vals, func(x *Explorer, fr *Frame, v ssa.Value) AV {
			if ta, ok := v.(*ssa.TypeAssert); ok && ta.CommaOk {
				return True
			}
			return Unknown
		})
		// one auction per exploration: the loop over auctions runs its body at most once (second header entry ends the path)
		var bad []string
		complete, untouched := 0, 0
		sx := NewExplorer(w, tm, sr)
		sx.TrackPhi = true // transfers whose parties are selected by an earlier branch are classified per path
		for _, o := range sx.Run(bb, 0) {
			if o.Kind != ExitReturn {
				continue
			}
			if av, ok := o.ErrAV(bb); ok && av.K == avNonNil {
				continue
			}
			stage := o.St & ssStageMask
			if stage == 0 && o.St&ssDone != 0 {
				stage = 5
				if typ == 2 {
					o.St |= ssRefund // checked when the iteration completed
				}
			}
			switch {
			case o.St&ssViol != 0:
				bad = append(bad, "a non-failing path performs the settlement steps out of order, twice, or with an unclassifiable transfer")
			case stage == 0:
				untouched++
			case stage != 5:
				bad = append(bad, fmt.Sprintf("a non-failing path stops after step %d of allocate/return-unsold/refund/sweep/status: %s", stage,
					[]string{"", "unsold coins are not returned", "bidders are not refunded / proceeds not swept", "proceeds are not swept", "the status is not advanced", ""}[stage]))
			case typ == 2 && o.St&ssRefund == 0:
				bad = append(bad, "a batch settlement path never refunds the unused reservations")
			default:
				complete++
			}
		}
		sort.Strings(bad)
		tn := map[int64]string{1: "FixedPrice", 2: "Batch"}[typ]
		if complete == 0 {
			bad = append(bad, "no complete settlement path found")
		}
		r.Check(len(bad) == 0, "SETTLE-SEQ", "BeginBlock:"+tn, w.pos(bb.Pos()),
			fmt.Sprintf("every non-failing path of block processing for a Started %s auction either touches nothing (not due / extended: %d path classes) or performs allocation ≺ unsold return ≺ %ssweep ≺ status exactly once (%d path classes)", tn, untouched, map[int64]string{1: "", 2: "refund ≺ "}[typ], complete),
			strings.Join(dedupe(bad), "; "))
	}
}

// OnBlock: the block hook iterates over all auctions; the automaton describes one auction, so a completed (or
// untouched) iteration resets it when the outer loop continues.
func (s *settleRule) OnBlock(x *Explorer, fr *Frame, b, pred *ssa.BasicBlock, st uint64) uint64 {
	if pred == nil || fr.depth > 1 {
		return st
	}
	for _, l := range fnInfo(fr.Fn).Loops {
		if l.Header == b && l.Blocks[pred] {
			stage := st & ssStageMask
			if stage != 0 && stage != 5 {
				return st | ssViol
			}
			if stage == 5 {
				st |= ssDone
			}
			return st &^ (ssStageMask | ssRefund)
		}
	}
	return st
}

// OnCallbackReturn: block processing written as the callback of a walk over the auctions — the callback's return ends
// the iteration for one auction exactly like the back edge of the loop over the collected list.
func (s *settleRule) OnCallbackReturn(x *Explorer, cfr *Frame, st uint64) uint64 {
	if len(cfr.Fn.Params) == 0 || s.w.walkValueParamOf(cfr.Fn.Params[len(cfr.Fn.Params)-1]) != "Auction" {
		return st
	}
	stage := st & ssStageMask
	if stage != 0 && stage != 5 {
		return st | ssViol
	}
	if stage == 5 {
		st |= ssDone
	}
	return st &^ (ssStageMask | ssRefund)
}

// ---------------------------------------------------------------- PAIR-FEE

type feeRule struct {
	BaseRule
	w      *World
	record string
}

func (f *feeRule) OnInstr(x *Explorer, fr *Frame, in ssa.Instruction, st uint64) uint64 {
	if e := f.w.EffectOf(in); e != nil {
		switch {
		case e.Kind == EffFee:
			if st&3 < 2 {
				st++
			}
		case e.Kind == EffStoreWrite && e.Coll == f.record && e.Method == "Set":
			if st&3 == 0 {
				st |= 4 // record before fee
			}
			st |= 8
		}
	}
	return st
}

func checkPairFee(w *World, r *Report, tm *Terms) {
	ms := w.msgServerMethods()
	for _, m := range []struct{ name, record string }{{"CreateFixedPriceAuction", "Auction"}, {"CreateBatchAuction", "Auction"}, {"PlaceBid", "Bid"}} {
		root := ms[m.name]
		var bad []string
		n := 0
		for _, o := range NewExplorer(w, tm, &feeRule{w: w, record: m.record}).Run(root, 0) {
			if o.Kind != ExitReturn {
				continue
			}
			if av, ok := o.ErrAV(root); ok && av.K == avNonNil {
				continue
			}
			n++
			switch {
			case o.St&8 == 0:
				// PlaceBid for a bid type the message validation does not admit writes nothing: not a success of interest
				bad = append(bad, "a non-failing path writes no "+m.record+" record")
			case o.St&3 != 1:
				bad = append(bad, fmt.Sprintf("a non-failing path pays the fee %d times", o.St&3))
			case o.St&4 != 0:
				bad = append(bad, "the record is written before the fee is paid")
			}
		}
		sort.Strings(bad)
		r.Check(len(bad) == 0 && n > 0, "PAIR-FEE", m.name, w.pos(root.Pos()),
			fmt.Sprintf("every non-failing path of %s pays the fee exactly once, before the %s record is written", m.name, m.record), strings.Join(dedupe(bad), "; "))
	}
	// fee amount and payer: the configured fee of the operation, from the signer
	for _, ti := range collectTransfers(w, tm, allEntries(w)) {
		if w.EffectOf(ti.Site).Kind != EffFee {
			continue
		}
		want := "AuctionCreationFee"
		if ti.Entry == "Msg.PlaceBid" {
			want = "PlaceBidFee"
		}
		ok := fieldBase(ti.Amount, want) != nil && fromColl(ti.Amount, "Params")
		r.Check(ok && ti.Payers[0].Kind == "Signer", "PAIR-FEE", ti.Entry+":fee-amount", w.instrPos(ti.Site),
			fmt.Sprintf("%s pays Params.%s from the signer's account to the community pool", ti.Entry, want),
			fmt.Sprintf("amount %s from %s", ti.Amount.String(), ti.Payers[0]))
	}
}

func checkMsgProp(w *World, r *Report, tm *Terms, rule string) {
	var roots []*ssa.Function
	ms := w.msgServerMethods()
	for _, k := range sortedKeys(ms) {
		roots = append(roots, ms[k])
	}
	checkErrProp(w, r, tm, sortedFns(w.reachableFrom(roots...)), rule)
}

func checkC02(w *World, r *Report) {
	r.Explanation = "Decides: (ESC-ROLE) every bank transfer and fee payment reachable from the 7 message handlers and the block hook is explored in the context of its entry point (helpers' address parameters bound by the call frames); payer and payee are attributed from the provenance of the address (escrow field / derivation of an auction, the stored auctioneer, a bidder, the message signer) and the (payer→payee) pair must be in the confirmed table of that entry point, within one auction; (BANK-METHODS) outside the simulation package only SendCoins, InputOutputCoins and SpendableCoins are invoked on the bank keeper (no mint/burn/module-account sends); (SETTLE-SEQ) for a Started auction of either type every non-failing path of block processing either performs no transfer or performs, exactly once and in this order, allocation (selling escrow→bidders), return of the unsold remainder (→auctioneer), refund (paying escrow→bidders; batch only), sweep (paying escrow→vesting escrow or auctioneer) and the status advance; (PAIR-FEE) creation and bid placement pay the configured fee from the signer exactly once before writing the record; (MSG-PROP) in the call trees of all message handlers a failing callee makes the caller fail."
	r.NotDecided = "per-participant amounts; that bank's InputOutputCoins enforces inputs = outputs (bank v0.50.8, trusted); the final balances as numbers."
	r.Rule("ESC-ROLE", "transfers have attributed roles in the confirmed table", 8)
	r.Rule("BANK-METHODS", "only coin-moving / reading bank methods", 3)
	r.Rule("SETTLE-SEQ", "settlement steps complete and ordered", 2)
	r.Rule("PAIR-FEE", "fee paid exactly once before the record", 5)
	r.Rule("MSG-PROP", "failures of transfers, fee payments and record writes fail the message", 15)
	tm := NewTerms(w)
	checkEscRole(w, r, tm)
	checkBankMethods(w, r)
	checkSettleSeq(w, r, tm)
	checkPairFee(w, r, tm)
	{
		// zero-sum needs the failures of the calls that move coins, pay fees or write records to fail the message (their
		// partial effects are then rolled back); that every other failure propagates is C18's claim
		saveKeep := r.keep
		fees := keepAny(":call:keeper.Keeper.PayCreationFee", ":call:keeper.Keeper.PayPlaceBidFee", ":call:types.DistrKeeper.")
		mine := func(rule, construct string) bool {
			return rule != "MSG-PROP" || moneyMoves(rule, construct) || fees(rule, construct)
		}
		r.keep = mine
		if saveKeep != nil {
			r.keep = func(rule, construct string) bool { return saveKeep(rule, construct) && mine(rule, construct) }
		}
		checkMsgProp(w, r, tm, "MSG-PROP")
		r.keep = saveKeep
	}
	// "the only amounts that leave a user's account are the fee and the amount reserved" / "the unused part of the reservation"
	r.Sub(func(w *World, r *Report) { checkC01(w, r) }, "CREDIT-RECORD", "PAIR-RESERVE", "DRAIN", "VEST-SHARE", "VEST-REM", "VEST-ONCE", "VEST-DISTINCT")
	r.Sub(checkC04, "RD-SIB", "REFUND-PROV")
	r.Sub(checkC19, "ID-MONO")
}
