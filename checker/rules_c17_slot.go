package main

// rules_c17_slot.go — where the keeper keeps its registered listeners (the "slot"), read off the registration method
// itself, and HK-SHARED: the slot is memory that every copy of the keeper shares.

import (
	"fmt"
	"go/types"
	"strings"

	"golang.org/x/tools/go/ssa"
)

type hookSlot struct {
	path    []string // field names from the keeper to the listener value, e.g. [hooks] or [hooks listeners]
	viaPtr  bool     // some step of the path dereferences a pointer-typed field: the cell is shared by copies of the keeper
	ptrStep string   // the pointer-typed field
	where   string
	fn      *ssa.Function
}

// hookSlotOf finds the store `<path from receiver> = <parameter of type FundraisingHooks>` in the keeper's method
// that takes a FundraisingHooks and has a pointer receiver (SetHooks today).
func hookSlotOf(w *World) *hookSlot {
	var out *hookSlot
	for _, fn := range w.Funcs {
		obj := funcObj(fn)
		if obj == nil || recvNamed(obj) != w.Keeper || len(fn.Params) < 2 || w.isGenerated(fn) {
			continue
		}
		if _, isPtr := fn.Params[0].Type().(*types.Pointer); !isPtr {
			continue
		}
		for _, b := range fn.Blocks {
			for _, in := range b.Instrs {
				st, ok := in.(*ssa.Store)
				if !ok || namedOf(st.Val.Type()) != w.Hooks {
					continue
				}
				p, isParam := st.Val.(*ssa.Parameter)
				if !isParam || p.Parent() != fn {
					continue
				}
				s := &hookSlot{where: w.instrPos(in), fn: fn}
				addr := st.Addr
				okPath := true
				for okPath {
					switch a := addr.(type) {
					case *ssa.FieldAddr:
						f := structOf(a.X.Type()).Field(a.Field)
						s.path = append([]string{f.Name()}, s.path...)
						addr = a.X
					case *ssa.UnOp: // load of a pointer-typed field: the cell lives outside the keeper struct
						if fa, isFA := a.X.(*ssa.FieldAddr); isFA {
							s.viaPtr = true
							s.ptrStep = structOf(fa.X.Type()).Field(fa.Field).Name()
						}
						addr = a.X
					case *ssa.Phi: // `if k.cell == nil { k.cell = new }` before the store: every edge is the same field
						var next ssa.Value
						for _, e := range a.Edges {
							if u, isU := e.(*ssa.UnOp); isU {
								next = u
							}
						}
						if next == nil {
							okPath = false
						}
						addr = next
					case *ssa.Parameter:
						if a == fn.Params[0] {
							if out == nil {
								out = s
							}
						}
						okPath = false
					default:
						okPath = false
					}
				}
			}
		}
	}
	return out
}

// slotTerm: t (nil alternatives dropped) is the load of the slot (or of a prefix of its path of length n) from a
// keeper parameter.
func (s *hookSlot) matches(t *Term, n int) bool {
	if s == nil || n > len(s.path) {
		return false
	}
	any := false
	for _, a := range t.Alts() {
		a = uncell(a)
		if a.Op == "const" || a.Op == "zero" {
			continue
		}
		x := a
		for i := n - 1; i >= 0; i-- {
			for x.Op == "deref" && len(x.Args) == 1 {
				x = uncell(x.Args[0])
			}
			if !isField(x, s.path[i]) {
				return false
			}
			x = uncell(x.Args[0])
		}
		for x.Op == "deref" && len(x.Args) == 1 {
			x = uncell(x.Args[0])
		}
		if x.Op != "param" {
			return false
		}
		any = true
	}
	return any
}

// HK-SHARED: a listener registered on one copy of the keeper is seen by every copy. The keeper is handed around by
// value (the module, the message server, the query server and the application each hold their own copy, all made
// before anybody can register a listener), so the registration must write memory that the copies share — a cell
// behind a pointer that the constructor allocates — not a field of the one copy it is called on.
func checkHookShared(w *World, r *Report, tm *Terms, s *hookSlot) {
	r.Rule("HK-SHARED", "listeners registered on one copy of the keeper reach every copy", 1)
	if s == nil {
		r.Fail("HK-SHARED", "slot", keeperPath, "the keeper's registration method stores the listeners in a field reachable from its receiver",
			"no method of *keeper.Keeper stores a FundraisingHooks parameter into (a path from) its receiver: listeners cannot be registered")
		return
	}
	// who copies the keeper: by-value parameters, results and struct fields of type keeper.Keeper outside its own methods' receivers
	var copies []string
	seen := map[string]bool{}
	add := func(s string) {
		if !seen[s] {
			seen[s] = true
			copies = append(copies, s)
		}
	}
	for _, fn := range w.Funcs {
		p := pkgOf(fn)
		if p == nil || !w.isRepoPkg(p) || p.Path() == simPath || w.isGenerated(fn) || strings.HasSuffix(p.Path(), "/testutil/keeper") {
			continue
		}
		sig := fn.Signature
		for i := 0; i < sig.Params().Len(); i++ {
			if types.Identical(sig.Params().At(i).Type(), w.Keeper) {
				add(fnName(fn) + "(param " + sig.Params().At(i).Name() + ")")
			}
		}
		for i := 0; i < sig.Results().Len(); i++ {
			if types.Identical(sig.Results().At(i).Type(), w.Keeper) {
				add(fnName(fn) + "(result)")
			}
		}
	}
	if len(copies) == 0 {
		r.Pass("HK-SHARED", "slot", s.where, "the keeper is never passed or returned by value: a field of the one keeper is shared by construction")
		return
	}
	n := len(copies)
	if n > 4 {
		copies = append(copies[:4], fmt.Sprintf("… %d more", n-4))
	}
	ok := s.viaPtr
	why := fmt.Sprintf("%s stores the listeners into the field path %s of the copy it is called on, but the keeper is copied by value (%s): the module's and the message server's copies, made when the application is wired, never see listeners registered afterwards — no message and no block settlement calls them",
		fnName(s.fn), strings.Join(s.path, "."), strings.Join(copies, ", "))
	// the shared cell is allocated where the keeper is constructed
	if ok {
		alloc := false
		for _, fn := range w.Funcs {
			if p := pkgOf(fn); p == nil || p.Path() != keeperPath || w.isGenerated(fn) {
				continue
			}
			if fn.Signature.Results().Len() == 0 || !types.Identical(fn.Signature.Results().At(0).Type(), w.Keeper) {
				continue
			}
			for _, b := range fn.Blocks {
				for _, in := range b.Instrs {
					st, isSt := in.(*ssa.Store)
					if !isSt {
						continue
					}
					fa, isFA := st.Addr.(*ssa.FieldAddr)
					if !isFA || namedOf(fa.X.Type()) != w.Keeper || structOf(fa.X.Type()).Field(fa.Field).Name() != s.ptrStep {
						continue
					}
					if al, isAl := st.Val.(*ssa.Alloc); isAl && al.Heap {
						alloc = true
					} else if t := uncell(tm.OperandAt(tm.PlainRoot(fn), st, st.Val)); t.Op == "new" {
						alloc = true // a helper that returns a freshly allocated cell
					}
				}
			}
		}
		if !alloc {
			ok = false
			why = fmt.Sprintf("the listeners live behind the pointer field %s, but no constructor of the keeper allocates it: every copy made from the constructed keeper has a nil cell and %s gives only the copy it is called on a cell of its own", s.ptrStep, fnName(s.fn))
		}
	}
	r.Check(ok, "HK-SHARED", "slot", s.where,
		fmt.Sprintf("the listeners are stored behind the pointer field %s allocated by the keeper's constructor, so the %d by-value copies of the keeper share them", s.ptrStep, n), why)
}
