#!/usr/bin/env python3
"""tools/seedmatrix.py [-j N] [seed...] — every seed under /verif/seeded is applied to its own scratch copy of /repo and
every property's quick check is run on it (control mode: nothing is written). meta.json's detected_by / not_detected_by
are refreshed and a matrix is printed. Scratch copies live under $TMPDIR (default /var/tmp) and are removed."""
import json, os, subprocess, sys, tempfile, shutil, concurrent.futures as cf
V='/verif'; BIN=os.environ.get('FC',V+'/bin/fundcheck')
args=sys.argv[1:]; jobs=6
if args[:1]==['-j']: jobs=int(args[1]); args=args[2:]
seeds=args or sorted(d for d in os.listdir(V+'/seeded') if os.path.isfile(f'{V}/seeded/{d}/patch.diff'))
props=subprocess.run([BIN,'-list'],capture_output=True,text=True).stdout.split()
env=dict(os.environ,GOFLAGS='-mod=mod',GOPROXY='off',GOSUMDB='off',GOTOOLCHAIN='local',GOWORK='off',VERIF_CONTROL='1')
def run(seed):
    tmp=tempfile.mkdtemp(prefix='seedmx-',dir=os.environ.get('TMPDIR','/var/tmp'))
    try:
        # the committed tree (HEAD), so that a working-tree experiment in /repo cannot pollute the matrix
        subprocess.run('git -C /repo archive HEAD | tar -x -C '+tmp,shell=True,check=True)
        ap=subprocess.run(['git','apply','--whitespace=nowarn',f'{V}/seeded/{seed}/patch.diff'],cwd=tmp,capture_output=True,text=True)
        if ap.returncode!=0: return seed,None,'patch does not apply: '+ap.stderr.strip()[:200]
        det,err=[],[]
        for p in props:
            r=subprocess.run([BIN,'-property',p,'-tier','quick'],env=dict(env,VERIF_REPO=tmp),capture_output=True,text=True)
            if r.returncode==1: det.append(p)
            elif r.returncode!=0: err.append(p+':'+(r.stdout.strip().splitlines() or ['?'])[-1][:120])
        return seed,det,'; '.join(err)
    finally:
        shutil.rmtree(tmp,ignore_errors=True)
with cf.ThreadPoolExecutor(jobs) as ex:
    res=list(ex.map(run,seeds))
missed=0
for seed,det,err in res:
    mp=f'{V}/seeded/{seed}/meta.json'; m=json.load(open(mp))
    if det is None: print(f'{seed:28s} {err}'); continue
    m['detected_by']=det; m['not_detected_by']=[p for p in [m['property']] if p not in det]
    json.dump(m,open(mp,'w'),indent=1)
    own='own' if m['property'] in det else ('OTHER-ONLY' if det else 'MISSED')
    if own!='own': missed+=1
    print(f'{seed:28s} {m["property"]} {own:10s} detected by {" ".join(det) or "-"} {("ERR "+err) if err else ""}')
print('seeds:',len(res),'not detected by their own property:',missed)
