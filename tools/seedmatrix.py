#!/usr/bin/env python3
"""tools/seedmatrix.py [-j N] [seed...] — every seed under /verif/seeded is applied to its own scratch copy of /repo and
every property's quick check is run on it (control mode: nothing is written). meta.json's detected_by / not_detected_by
are refreshed and a matrix is printed. Scratch copies live under $TMPDIR (default /var/tmp) and are removed."""
import json, os, subprocess, sys, tempfile, shutil, concurrent.futures as cf
V='/verif'; BIN=os.environ.get('FC',V+'/bin/fundcheck')
args=sys.argv[1:]; jobs=6
if args[:1]==['-j']: jobs=int(args[1]); args=args[2:]
only_props=None
if args[:1]==['--own']: only_props='own'; args=args[1:]   # only each seed's own property (fast; detected_by is then partial and not rewritten)
RULES={}
seeds=args or sorted(d for d in os.listdir(V+'/seeded') if os.path.isfile(f'{V}/seeded/{d}/patch.diff'))
props=subprocess.run([BIN,'-list'],capture_output=True,text=True).stdout.split()
env=dict(os.environ,GOFLAGS='-mod=mod',GOPROXY='off',GOSUMDB='off',GOTOOLCHAIN='local',GOWORK='off',VERIF_CONTROL='1')
def run(seed):
    tmp=tempfile.mkdtemp(prefix='seedmx-',dir=os.environ.get('TMPDIR','/var/tmp'))
    try:
        # the committed tree (HEAD), so that a working-tree experiment in /repo cannot pollute the matrix
        subprocess.run('git -C /repo archive HEAD | tar -x -C '+tmp,shell=True,check=True)
        ap=subprocess.run(['git','apply','--whitespace=nowarn',f'{V}/seeded/{seed}/patch.diff'],cwd=tmp,capture_output=True,text=True)
        if ap.returncode!=0: return seed,None,'patch does not apply: '+ap.stderr.strip()[:200]
        det,err,rules=[],[],{}
        own=json.load(open(f'{V}/seeded/{seed}/meta.json'))['property']
        if only_props=='own':
            r=subprocess.run([BIN,'-property',own,'-tier','quick'],env=dict(env,VERIF_REPO=tmp),capture_output=True,text=True)
            outs={own:(r.returncode,r.stdout)}
        else:
            # one process, every property on the once-loaded program (-all): sections end with "ALL-RESULT <id> rc=<n>"
            r=subprocess.run([BIN,'-all'],env=dict(env,VERIF_REPO=tmp),capture_output=True,text=True)
            outs={}; cur=[]
            for l in r.stdout.splitlines():
                if l.startswith('ALL-RESULT '):
                    _,pid,rc=l.split(); outs[pid]=(int(rc.split('=')[1]),'\n'.join(cur)); cur=[]
                else: cur.append(l)
            if not outs: err.append('all:'+(r.stdout.strip().splitlines() or ['?'])[-1][:160])
        for p,(rc,out) in sorted(outs.items()):
            if rc==1:
                det.append(p)
                rules[p]=sorted({l.split()[1].split(':')[0] for l in out.splitlines() if l.startswith('CONTROL-VIOLATION ')})
            elif rc!=0: err.append(p+':'+(out.strip().splitlines() or ['?'])[-1][:120])
        RULES[seed]=rules
        return seed,det,'; '.join(err)
    finally:
        shutil.rmtree(tmp,ignore_errors=True)
with cf.ThreadPoolExecutor(jobs) as ex:
    res=list(ex.map(run,seeds))
missed=0
for seed,det,err in res:
    mp=f'{V}/seeded/{seed}/meta.json'; m=json.load(open(mp))
    if det is None: print(f'{seed:28s} {err}'); continue
    if only_props!='own':
        m['detected_by']=det
    elif m['property'] in det and m['property'] not in m.get('detected_by',[]):
        m['detected_by']=sorted(set(m.get('detected_by',[]))|{m['property']})
    m['not_detected_by']=[p for p in [m['property']] if p not in det]
    m.setdefault('violated_rules',{}).update(RULES.get(seed,{}))
    json.dump(m,open(mp,'w'),indent=1)
    own='own' if m['property'] in det else ('OTHER-ONLY' if det else 'MISSED')
    if own!='own': missed+=1
    print(f'{seed:28s} {m["property"]} {own:10s} detected by {" ".join(det) or "-"} {("ERR "+err) if err else ""}')
print('seeds:',len(res),'not detected by their own property:',missed)
