#!/bin/bash
# Runs the repository's pinned test-suite (BASELINE.json command, guard off) in $1 (default /repo)
# and prints pass/fail counts of test events.
D=${1:-/repo}
export GOPROXY=off GOSUMDB=off GOTOOLCHAIN=local
cd "$D" && go test -mod=mod -json -vet=off -count=1 -timeout 25m ./... 2>&1 | python3 -c '
import sys, json
p=f=0; fails=[]
for l in sys.stdin:
    try: e=json.loads(l)
    except Exception: continue
    if e.get("Test") is None: 
        if e.get("Action")=="fail": fails.append("PKG "+e.get("Package",""))
        continue
    if e["Action"]=="pass": p+=1
    elif e["Action"]=="fail": f+=1; fails.append(e["Package"]+"::"+e["Test"])
print("passed",p,"failed",f)
for x in fails: print("  FAIL",x)
sys.exit(1 if f or fails else 0)
'
