#!/bin/bash
# tools/seedtest.sh [seed-name ...]  — applies each /verif/seeded/<name>/patch.diff to /repo, runs the quick check of
# every property listed in meta.json ("detected_by" or "property"), expects exit 1 + VIOLATION, and reverts.
cd /verif
names=("$@"); [ ${#names[@]} -eq 0 ] && names=($(ls seeded))
fail=0
for n in "${names[@]}"; do
  d=seeded/$n; [ -f $d/patch.diff ] || continue
  if [ -n "$(git -C /repo status --porcelain)" ]; then echo "REPO DIRTY, abort"; exit 3; fi
  props=$(python3 -c "import json;m=json.load(open('$d/meta.json'));print(' '.join(m.get('detected_by') or [m['property']]))")
  git -C /repo apply $PWD/$d/patch.diff || { echo "$n: PATCH DOES NOT APPLY"; fail=1; continue; }
  for p in $props; do
    out=$(./run $p quick 2>&1); rc=$?
    if [ $rc -eq 1 ] && echo "$out" | grep -q "^VIOLATION property=$p"; then
      echo "$n: $p DETECTED  ($(echo "$out" | grep -c '^VIOLATION') violation lines; first: $(echo "$out" | grep -A1 '^VIOLATION' | sed -n 2p | cut -c1-160))"
    else echo "$n: $p MISSED (rc=$rc)"; fail=1; fi
  done
  git -C /repo checkout -- . ; git -C /repo clean -fdq
done
git -C /verif checkout -- evidence 2>/dev/null
exit $fail
