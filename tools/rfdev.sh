#!/bin/bash
# tools/rfdev.sh <refactor-name> <prop> [prop...] — development helper: runs a checker binary (FC, default /tmp/fc-dev) in
# control mode on a cached scratch copy of /repo's HEAD with the refactor applied (/var/tmp/rf-<name>; remove when done).
n=$1; shift
FC=${FC:-/tmp/fc-dev}
d=/var/tmp/rf-$n
if [ ! -d $d ]; then mkdir -p $d && git -C /repo archive HEAD | tar -x -C $d && (cd $d && git apply --whitespace=nowarn /verif/refactors/$n/patch.diff) || { echo "cannot prepare $d"; exit 2; }; fi
export GOFLAGS=-mod=mod GOPROXY=off GOSUMDB=off GOTOOLCHAIN=local GOWORK=off
for p in "$@"; do
  echo "== $n $p"; VERIF_CONTROL=1 VERIF_REPO=$d $FC -property $p -tier quick | grep -v '^$' | grep 'CONTROL-\|CHECKER' | cut -c1-${W:-700}
done
