#!/bin/bash
# tools/seeddev.sh <seed-name> [prop...] — development helper: dev binary (FC) in control mode on a scratch copy of HEAD
# with the seed applied; default props = meta.json property. Prints DETECTED/MISSED per property.
n=$1; shift
FC=${FC:-/tmp/fc-dev}
d=$(mktemp -d /var/tmp/sd-XXXXXX)
git -C /repo archive HEAD | tar -x -C $d && (cd $d && git apply --whitespace=nowarn /verif/seeded/$n/patch.diff) || { echo "$n: patch does not apply"; rm -rf $d; exit 2; }
props="$@"; [ -z "$props" ] && props=$(python3 -c "import json;print(json.load(open('/verif/seeded/$n/meta.json'))['property'])")
export GOFLAGS=-mod=mod GOPROXY=off GOSUMDB=off GOTOOLCHAIN=local GOWORK=off
for p in $props; do
  o=$(VERIF_CONTROL=1 VERIF_REPO=$d $FC -property $p -tier quick 2>&1); rc=$?
  if [ $rc -eq 1 ]; then echo "$n: $p DETECTED $(echo "$o" | grep CONTROL-VIOLATION | head -1 | cut -c19-${W:-200})"; else echo "$n: $p MISSED rc=$rc $(echo "$o" | grep CHECKER-ERROR | head -1 | cut -c1-200)"; fi
done
rm -rf $d
