#!/bin/bash
# validates MANIFEST.json and every evidence file against the schemas
cd /verif && python3-vt - <<'PY'
import json,jsonschema,glob
jsonschema.validate(json.load(open('MANIFEST.json')), json.load(open('/root/.vp/MANIFEST.schema.json')))
es=json.load(open('/root/.vp/EVIDENCE.schema.json'))
for f in sorted(glob.glob('evidence/*.json')):
    jsonschema.validate(json.load(open(f)), es)
print('schemas ok:', len(glob.glob('evidence/*.json')), 'evidence files')
PY
