#!/bin/bash
# tools/devall.sh [dir] — development helper: every property's quick check with the dev binary (FC, default /tmp/fc-dev)
# in control mode (nothing written) on dir (default /repo), 5 at a time; prints one line per property.
D=${1:-/repo}; FC=${FC:-/tmp/fc-dev}
export GOFLAGS=-mod=mod GOPROXY=off GOSUMDB=off GOTOOLCHAIN=local GOWORK=off
$FC -list | tr ' ' '\n' | grep . | xargs -P 5 -I{} sh -c "o=\$(VERIF_CONTROL=1 VERIF_REPO=$D $FC -property {} -tier quick 2>&1); echo \"{} rc=\$? \$(echo \"\$o\" | grep 'CONTROL-SUMMARY\|CHECKER-ERROR' | tail -1) \$(echo \"\$o\" | grep -c KNOWN-FINDING) known; \$(echo \"\$o\" | grep CONTROL-VIOLATION | cut -c1-220 | head -3 | tr '\n' ' ')\"" | sort
