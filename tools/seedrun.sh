#!/bin/bash
# tools/seedrun.sh <seed-name> — applies the seed to /repo, runs ALL quick checks, prints which properties detect it, reverts.
cd /verif; n=$1; d=seeded/$n
[ -n "$(git -C /repo status --porcelain)" ] && { echo "REPO DIRTY"; exit 3; }
git -C /repo apply $PWD/$d/patch.diff || { echo "$n: PATCH DOES NOT APPLY"; exit 1; }
det=""; 
for p in $(/verif/bin/fundcheck -list); do
  out=$(./run $p quick 2>&1); c=$?
  if [ $c -eq 1 ]; then det="$det $p"; echo "  $p: $(echo "$out" | grep -A1 '^VIOLATION' | grep -v '^VIOLATION\|^--' | head -2 | cut -c1-170 | tr '\n' ';')";
  elif [ $c -ne 0 ]; then echo "  $p: exit=$c $(echo "$out" | grep CHECKER-ERROR | cut -c1-200)"; fi
done
git -C /repo checkout -- . ; git -C /repo clean -fdq; git -C /verif checkout -- evidence 2>/dev/null
echo "$n: detected by [$det ]"
