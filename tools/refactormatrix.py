#!/usr/bin/env python3
"""tools/refactormatrix.py [-j N] [--tests] [name...] — every behaviour-preserving rewrite under /verif/refactors is applied
to its own scratch copy of /repo's committed tree and every property's quick check is run on it (control mode: nothing is
written): all must exit 0. With --tests the pinned test suite is run on the copy too. Scratch copies live under $TMPDIR
(default /var/tmp) and are removed."""
import json, os, subprocess, sys, tempfile, shutil, concurrent.futures as cf
V='/verif'; BIN=os.environ.get('FC',V+'/bin/fundcheck')
args=sys.argv[1:]; jobs=4; tests=False
if args[:1]==['-j']: jobs=int(args[1]); args=args[2:]
if args[:1]==['--tests']: tests=True; args=args[1:]
names=args or sorted(d for d in os.listdir(V+'/refactors') if os.path.isfile(f'{V}/refactors/{d}/patch.diff'))
props=subprocess.run([BIN,'-list'],capture_output=True,text=True).stdout.split()
env=dict(os.environ,GOFLAGS='-mod=mod',GOPROXY='off',GOSUMDB='off',GOTOOLCHAIN='local',GOWORK='off',VERIF_CONTROL='1')
def run(name):
    tmp=tempfile.mkdtemp(prefix='refmx-',dir=os.environ.get('TMPDIR','/var/tmp'))
    try:
        subprocess.run('git -C /repo archive HEAD | tar -x -C '+tmp,shell=True,check=True)
        ap=subprocess.run(['git','apply','--whitespace=nowarn',f'{V}/refactors/{name}/patch.diff'],cwd=tmp,capture_output=True,text=True)
        if ap.returncode!=0: return name,None,'patch does not apply: '+ap.stderr.strip()[:200],''
        t=''
        if tests:
            r=subprocess.run([V+'/tools/baseline.sh',tmp],capture_output=True,text=True)
            t=(r.stdout.strip().splitlines() or ['?'])[0]
        bad=[]
        # one process, every property on the once-loaded program (-all): sections end with "ALL-RESULT <id> rc=<n>"
        r=subprocess.run([BIN,'-all'],env=dict(env,VERIF_REPO=tmp),capture_output=True,text=True)
        cur=[]; seen=0
        for l in r.stdout.splitlines():
            if l.startswith('ALL-RESULT '):
                _,pid,rcs=l.split(); code=int(rcs.split('=')[1]); seen+=1
                if code!=0:
                    lines=[x for x in cur if x.startswith('CONTROL-VIOLATION') or x.startswith('CHECKER-ERROR')]
                    bad.append(f'{pid}(exit={code}: '+' ;; '.join(x[:260] for x in lines[:3])+')')
                cur=[]
            else: cur.append(l)
        if seen!=len(props): bad.append('not every property reported: '+(r.stdout.strip().splitlines() or ['?'])[-1][:200])
        return name,bad,'',t
    finally:
        shutil.rmtree(tmp,ignore_errors=True)
with cf.ThreadPoolExecutor(jobs) as ex:
    res=list(ex.map(run,names))
rc=0
for name,bad,err,t in res:
    if bad is None: print(f'{name:36s} {err}'); rc=1; continue
    if bad: rc=1
    print(f'{name:36s} tests[{t}] '+('all checks silent' if not bad else 'FALSE ALARMS: '+' | '.join(bad)))
sys.exit(rc)
