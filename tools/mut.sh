#!/bin/bash
# tools/mut.sh <prop> <file> <python-replace-old> <python-replace-new>  — development aid: apply a textual mutation to /repo,
# build, run the check, revert. Prints the verdict.
prop=$1; f=/repo/$2
[ -n "$(git -C /repo status --porcelain)" ] && { echo "repo dirty"; exit 3; }
python3 - "$f" "$3" "$4" <<'PY'
import sys
p,old,new=sys.argv[1:4]
s=open(p).read()
assert s.count(old)>=1, "pattern not found"
s=s.replace(old,new,1)
open(p,'w').write(s)
PY
[ $? -ne 0 ] && { git -C /repo checkout -- .; exit 2; }
(cd /repo && GOFLAGS=-mod=mod GOPROXY=off go build ./x/... 2>&1 | head -5)
cd /verif && ./run $prop quick 2>&1 | grep -A3 "^VIOLATION\|CHECKER-ERROR" | grep -v "^  obligation" | cut -c1-420 | head -${5:-12}
./run $prop quick >/dev/null 2>&1; echo "exit=$?"
git -C /repo checkout -- .
