#!/usr/bin/env python3
"""tools/gen_ruletable.py — the per-property rule table of DESIGN.md II.2 from the evidence files of the last run."""
import json, glob, os
def stats(o, out):
    if isinstance(o, dict):
        if 'confirmed_floor' in o and 'name' in o: out.append(o)
        for v in o.values(): stats(v, out)
    elif isinstance(o, list):
        for v in o: stats(v, out)
print('| id | rules (obligations recorded for this property; +n = instances found but not needed for it) |')
print('|---|---|')
for f in sorted(glob.glob('/verif/evidence/C*.json')):
    rs=[]; stats(json.load(open(f)), rs)
    seen=set(); parts=[]
    for r in rs:
        if r['name'] in seen: continue
        seen.add(r['name'])
        extra=r.get('instances_not_needed_for_this_property',0)
        parts.append('%s (%d%s)'%(r['name'], r['instances'], ' +%d'%extra if extra else ''))
    print('| %s | %s |'%(os.path.basename(f)[:-5], ', '.join(parts)))
