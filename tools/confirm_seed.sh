#!/bin/bash
# tools/confirm_seed.sh <Cxx> <A|B> [round-suffix, e.g. c]  — confirms a sub-agent's seeded change in a scratch worktree (never in /repo):
# patch applies, builds, existing suite passes with it, demo test fails with it and passes without. On success the
# change is stored as /verif/seeded/<Cxx>-agent-<A|B>/.
set -u
P=$1; V=$2; R=${3:-}; SRC=/tmp/wt-$P$R/RESULT/$V; WT=/tmp/wt-confirm; TAG=$(echo "$R" | tr a-z A-Z)$V
export GOFLAGS=-mod=mod GOPROXY=off GOSUMDB=off GOTOOLCHAIN=local
[ -f $SRC/patch.diff ] || { echo "$P-$V: no patch"; exit 1; }
[ -d $WT ] || git -C /repo worktree add -q $WT HEAD
git -C $WT checkout -q --detach $(git -C /repo rev-parse HEAD) 2>/dev/null; git -C $WT checkout -- . ; git -C $WT clean -fdq
place=$(grep -m1 -o 'place at: *[^ ]*' $SRC/demo_test.go | sed 's/place at: *//')
run=$(grep -m1 '// run:' $SRC/demo_test.go | sed 's|// run: *||')
[ -z "$place" ] && { echo "$P-$V: demo has no 'place at'"; exit 1; }
cp $SRC/demo_test.go $WT/$place
clean=$(cd $WT && eval "$run -count=1" 2>&1 | tail -3 | tr '\n' ' ')
git -C $WT apply $SRC/patch.diff || { echo "$P-$V: patch does not apply"; exit 1; }
(cd $WT && go build ./... ) || { echo "$P-$V: does not build"; exit 1; }
mut=$(cd $WT && eval "$run -count=1" 2>&1 | tail -3 | tr '\n' ' ')
rm $WT/$place
suite=$(/verif/tools/baseline.sh $WT 2>&1 | head -1)
git -C $WT checkout -- . ; git -C $WT clean -fdq
okc=$(echo "$clean" | grep -c '^ok\|ok  ')
failm=$(echo "$mut" | grep -c 'FAIL')
echo "$P-$V: clean=[$(echo $clean | cut -c1-80)] mutated=[$(echo $mut | cut -c1-80)] suite=[$suite]"
if [ "$okc" -ge 1 ] && [ "$failm" -ge 1 ] && [ "$suite" = "passed 186 failed 0" ]; then
  d=/verif/seeded/$P-agent-$TAG; mkdir -p $d
  cp $SRC/patch.diff $d/patch.diff; cp $SRC/demo_test.go $d/demo_test.go; cp $SRC/README.md $d/README.md
  python3 - "$d" "$P" "$TAG" "$place" "$run" <<'PY'
import json,sys,re
d,p,v,place,run=sys.argv[1:6]
readme=open(d+'/README.md').read()
json.dump({"name":"%s-agent-%s"%(p,v),"property":p,"origin":"independent sub-agent given only the property text and a scratch worktree",
 "needs_to_manifest":"see README.md (written by the sub-agent)","demo":{"place_at":place,"run":run},
 "confirmed":"tools/confirm_seed.sh %s %s: patch applies to HEAD, builds, existing 186 tests pass with it, demo test passes on the clean tree and fails with the patch"%(p,v),
 "detected_by":[], "not_detected_by":[]}, open(d+'/meta.json','w'), indent=1)
PY
  echo "   -> stored $d"
else echo "   -> NOT CONFIRMED"; exit 1; fi
