#!/bin/bash
# tools/all.sh [--seeds]: runs every implemented quick check on /repo's current tree (expects exit 0), optionally all seeds.
cd /verif; rc=0
for p in $(/verif/bin/fundcheck -list); do
  out=$(./run $p quick 2>&1); c=$?
  echo "$out" | tail -1 | cut -c1-160
  [ $c -ne 0 ] && { rc=1; echo "   ^^^ exit=$c"; }
done
[ "${1:-}" = "--seeds" ] && { tools/seedtest.sh || rc=1; }
exit $rc
