#!/usr/bin/env python3
"""tools/gen_seedtable.py — prints (markdown) the table of DESIGN.md II.5 from /verif/seeded/*/meta.json: per seeded change
its property, whether that property's check reports it, the rules that fire there, and the other properties that fire."""
import json, os, re
V='/verif/seeded'
def origin(n):
    if n.startswith('revert-'): return 'revert of a fix'
    m=re.match(r'C\d\d-agent-([A-Z]+)$',n)
    if m:
        t=m.group(1)
        return {'A':'agent round 1','B':'agent round 1'}.get(t, 'agent round '+{'C':'C','D':'D'}.get(t[0],'?'))
    return 'own'
rows=[]
for n in sorted(os.listdir(V)):
    mp=f'{V}/{n}/meta.json'
    if not os.path.isfile(mp): continue
    m=json.load(open(mp)); p=m['property']; det=m.get('detected_by',[])
    rules=m.get('violated_rules',{}).get(p,[])
    own='yes' if p in det else ('**no**' if det else '**NO (none)**')
    rows.append((n,p,origin(n),own,', '.join(rules) or '—',' '.join(x for x in det if x!=p) or '—'))
print('| seeded change | property | origin | reported by its property | rules that fire there | also reported by |')
print('|---|---|---|---|---|---|')
for r in rows: print('| '+' | '.join(r)+' |')
tot=len(rows); ok=sum(1 for r in rows if r[3]=='yes')
print(f'\n{tot} seeded changes, {ok} reported by the check of the property they were written against.')
