#!/bin/bash
# tools/refactortest.sh [name...] — behaviour-preserving rewrites under /verif/refactors must keep the existing tests green
# AND must not make any check raise an alarm.
cd /verif
names=("$@"); [ ${#names[@]} -eq 0 ] && names=($(ls refactors))
rc=0
for n in "${names[@]}"; do
  [ -n "$(git -C /repo status --porcelain)" ] && { echo "REPO DIRTY"; exit 3; }
  git -C /repo apply $PWD/refactors/$n/patch.diff || { echo "$n: PATCH DOES NOT APPLY"; rc=1; continue; }
  t=$(tools/baseline.sh 2>&1 | head -1)
  bad=""
  for p in $(/verif/bin/fundcheck -list); do
    out=$(./run $p quick 2>&1); c=$?
    [ $c -ne 0 ] && bad="$bad $p(exit=$c: $(echo "$out" | grep -A2 '^VIOLATION\|CHECKER-ERROR' | grep -v obligation | head -3 | tr '\n' ' ' | cut -c1-300))"
  done
  git -C /repo checkout -- . ; git -C /repo clean -fdq
  if [ -z "$bad" ]; then echo "$n: tests [$t] — all checks silent"; else echo "$n: tests [$t] — FALSE ALARMS:$bad"; rc=1; fi
done
git -C /verif checkout -- evidence 2>/dev/null
exit $rc
