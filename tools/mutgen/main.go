// mutgen — development aid: enumerates small syntactic mutants of one Go source file and writes mutant number N.
//
//	mutgen -file F -list            prints "N<TAB>line<TAB>kind<TAB>description" for every mutant
//	mutgen -file F -n N -out G      writes the file with mutant N applied to G
//
// Mutant kinds: relational operator boundary/negation swaps (binary operators and cosmossdk.io/math style comparison
// methods), negated if conditions, deleted expression/assign statements that are calls, deleted `if err := f(); err != nil`
// guards, swapped adjacent call arguments of identical spelling type is not checked (the compiler rejects the rest).
package main

import (
	"bytes"
	"flag"
	"fmt"
	"go/ast"
	"go/format"
	"go/parser"
	"go/token"
	"os"
)

type mutant struct {
	line  int
	kind  string
	desc  string
	apply func()
	undo  func()
}

var relSwap = map[token.Token][]token.Token{
	token.LSS: {token.LEQ, token.GEQ}, token.LEQ: {token.LSS, token.GTR}, token.GTR: {token.GEQ, token.LEQ}, token.GEQ: {token.GTR, token.LSS},
	token.EQL: {token.NEQ}, token.NEQ: {token.EQL}, token.LAND: {token.LOR}, token.LOR: {token.LAND},
}
var methSwap = map[string][]string{
	"GT": {"GTE", "LTE"}, "GTE": {"GT", "LT"}, "LT": {"LTE", "GTE"}, "LTE": {"LT", "GT"},
	"IsPositive": {"IsZero"}, "IsZero": {"IsPositive"}, "IsNegative": {"IsPositive"},
	"After": {"Before"}, "Before": {"After"}, "Equal": {"GT"},
	"Ceil": {"TruncateDec"}, "QuoTruncate": {"Quo", "QuoRoundUp"}, "MulTruncate": {"Mul"}, "TruncateInt": {"RoundInt"},
	"Add": {"Sub"}, "Sub": {"Add"}, "MinInt": {"MaxInt"},
}

func main() {
	file := flag.String("file", "", "source file")
	list := flag.Bool("list", false, "list mutants")
	n := flag.Int("n", -1, "mutant number")
	out := flag.String("out", "", "output file")
	flag.Parse()
	fset := token.NewFileSet()
	f, err := parser.ParseFile(fset, *file, nil, parser.ParseComments)
	if err != nil {
		fmt.Fprintln(os.Stderr, err)
		os.Exit(2)
	}
	var ms []mutant
	line := func(p token.Pos) int { return fset.Position(p).Line }
	ast.Inspect(f, func(nd ast.Node) bool {
		switch x := nd.(type) {
		case *ast.BinaryExpr:
			for _, to := range relSwap[x.Op] {
				x, from, to := x, x.Op, to
				ms = append(ms, mutant{line(x.OpPos), "binop", fmt.Sprintf("%s -> %s", from, to), func() { x.Op = to }, func() { x.Op = from }})
			}
		case *ast.CallExpr:
			if sel, ok := x.Fun.(*ast.SelectorExpr); ok {
				for _, to := range methSwap[sel.Sel.Name] {
					sel, from, to := sel, sel.Sel.Name, to
					ms = append(ms, mutant{line(sel.Sel.Pos()), "method", fmt.Sprintf(".%s -> .%s", from, to), func() { sel.Sel.Name = to }, func() { sel.Sel.Name = from }})
				}
			}
			if len(x.Args) >= 2 {
				for i := 0; i+1 < len(x.Args); i++ {
					x, i := x, i
					ms = append(ms, mutant{line(x.Args[i].Pos()), "swapargs", fmt.Sprintf("swap arguments %d and %d", i, i+1),
						func() { x.Args[i], x.Args[i+1] = x.Args[i+1], x.Args[i] }, func() { x.Args[i], x.Args[i+1] = x.Args[i+1], x.Args[i] }})
				}
			}
		case *ast.IfStmt:
			x0, c := x, x.Cond
			ms = append(ms, mutant{line(x.Cond.Pos()), "negate", "negate if condition", func() { x0.Cond = &ast.UnaryExpr{Op: token.NOT, X: &ast.ParenExpr{X: c}} }, func() { x0.Cond = c }})
		case *ast.BlockStmt:
			for i, st := range x.List {
				del := false
				switch s := st.(type) {
				case *ast.ExprStmt:
					_, del = s.X.(*ast.CallExpr)
				case *ast.AssignStmt:
					if len(s.Rhs) == 1 && s.Tok == token.ASSIGN {
						del = true
					}
				case *ast.IfStmt:
					// if err := f(); err != nil { return … }  /  if cond { return/continue/break }
					if len(s.Body.List) == 1 && s.Else == nil {
						switch s.Body.List[0].(type) {
						case *ast.ReturnStmt, *ast.BranchStmt:
							del = true
						}
					}
				case *ast.IncDecStmt:
					del = true
				}
				if del {
					x, i, st := x, i, st
					ms = append(ms, mutant{line(st.Pos()), "delete", "delete statement", func() { x.List[i] = &ast.EmptyStmt{Semicolon: st.Pos(), Implicit: true} }, func() { x.List[i] = st }})
				}
			}
		}
		return true
	})
	if *list {
		for i, m := range ms {
			fmt.Printf("%d\t%d\t%s\t%s\n", i, m.line, m.kind, m.desc)
		}
		return
	}
	if *n < 0 || *n >= len(ms) {
		fmt.Fprintln(os.Stderr, "no such mutant")
		os.Exit(2)
	}
	ms[*n].apply()
	var buf bytes.Buffer
	if err := format.Node(&buf, fset, f); err != nil {
		fmt.Fprintln(os.Stderr, err)
		os.Exit(2)
	}
	if err := os.WriteFile(*out, buf.Bytes(), 0o644); err != nil {
		fmt.Fprintln(os.Stderr, err)
		os.Exit(2)
	}
}
