#!/usr/bin/env python3
"""Generates /verif/MANIFEST.json from the table below (kept in one place so that
adding a property is one entry). Run: python3 tools/gen_manifest.py"""
import json, os
BASE = "cd /repo && go test -mod=mod -json -vet=off -count=1 -timeout 25m ./..."
TRUST = ("Trusted base: go/packages+go/types+go/ssa (x/tools v0.29.0) resolve the program as the compiler does; "
         "dependency calls (collections, bank, distribution, autocli) are atoms with their documented semantics; SDK message atomicity. ")
CHECKS = {}
def chk(pid, text, note, technique, design):
    CHECKS[pid] = dict(text=text, note=note, technique=technique, design=design)

chk("C20",
    "Structural necessary conditions only: every autocli RpcCommandOptions literal names an existing service method; every positional/flag binding names a protobuf field of that method's request type (exactly the start-up validation of the pinned autocli, whose failure makes cmd/root.go panic); usage placeholders agree with the bound fields in order; no method is skipped except authority-gated UpdateParams; the module is in the app's begin/end/genesis orders and linked into the binary. A static rule is the right level because the quantifier is over every command and binding the source declares, a finite set visible in composite literals.",
    TRUST + "Not decided: depinject resolution, proto registry contents, run-time argument parsing, a node producing blocks.",
    "custom lint over type-checked composite literals + struct tags (go/types constant evaluation)", "DESIGN.md section 4 C20")

chk("C07",
    "Structural necessary conditions on every path of the block hook's call tree: (BB-EXHAUST) for each of the five AuctionStatus constants, with every callee succeeding, abstract exploration over the finite status domain reaches no failure exit or panic; (BB-ERRPROP) for every call site that can return an error, every exit reached after that call failed is itself a failure (never dropped, overwritten by a later loop iteration, or replaced by nil) — 59 call sites; (BB-WIRE) the module's BeginBlock reaches the per-auction processing; (DIV-GUARD) every Dec division's divisor is a positivity-checked price (provenance followed through String()/map key/MustNewDecFromStr) or is guarded by a dominating zero test. Static because the quantifier is over every reachable state and every injected failure: the rule quantifies over all paths instead of sampled states.",
    TRUST + "BB-EXHAUST assumes dependency calls succeed and stored records are well-formed. Not decided: general panic freedom (address parsing, negative coins, bank failures, gas).",
    "abstract path exploration over go/ssa with a finite value domain (nil/non-nil, enum constants) + per-call-site error-propagation obligations + dominance/provenance for divisors", "DESIGN.md section 4 C07")

chk("C17",
    "Structural necessary conditions: (HK-DISPATCH, 10 siblings) each multi-listener method ranges over the whole receiver, invokes the same-named method on every element with its own parameters in order, leaves the loop early only on the element's error and returns it; (HK-WRAP, 10) each keeper wrapper invokes the same-named method of the registered listener exactly once on every non-failing path, with unchanged arguments, and returns its error; (HK-SITE, 10 sites) in each operation the wrapper is called exactly once on every non-failing path, outside loops, before (After…: after) the store write / transfer it announces, and every argument is the corresponding field of the record that is written (value-flow equality of provenance terms); (HK-CHAIN) on all call chains from a hook to a message handler or the block hook a failing callee fails the caller. Sibling cross-checking and path rules quantify over every hook, listener position and operation at once.",
    TRUST + "Not decided: listener behaviour; depinject registration of listeners; 'effects uncommitted' relies on SDK message atomicity once the handler returns the error (which is decided).",
    "sibling cross-check + effect automaton over abstract paths (exactly-once / ordering) + provenance-term equality of hook arguments and written record", "DESIGN.md section 4 C17")

chk("C10",
    "Structural necessary conditions: (AL-DOM) for every bid type the message's own ValidateBasic admits (computed by abstract evaluation of ValidateBasic over the enum's constants), the Bid record write is unreachable when the AllowedBidder lookup keyed by (operated auction id, message bidder) fails; (AL-GUARD) with the testing switch evaluated to false no MsgServer method reaches an AllowedBidder store write (six of them have no call-graph path at all) and neither does the block hook; (SW-OWNER) across every package of the binary's import closure that can name the switch, the only writes are in its own package init, which computes ParseBool of a link-time string whose initialiser parses to false and that nothing else writes; no address-of, no go:linkname; the Makefile's unconditional ldflags do not set the flag. The configuration quantifier (every default build) is exactly what a whole-closure who-may-write rule covers and a test run in one binary cannot.",
    TRUST + "Builds that pass the documented -X testing flag are outside the property's quantifier. Not decided: nothing numeric; the history clause rests on AL-DOM plus the Bid writer table.",
    "who-may-write scan over the import closure + abstract path exploration under a fixed switch / failing lookup (finite domains)", "DESIGN.md section 4 C10")

chk("C14",
    "Structural necessary condition: in every function reachable from the message handlers, block hooks, genesis import/export and listener registration, (MAP-ORDER) each range over a map / maps.Keys result is order-insensitive — no store write, transfer, hook, event or early exit in the loop body (transitively through callees), loop-carried values are commutative accumulations, writes go to other maps under a key derived from the loop key, and any slice that collects elements in iteration order is sorted by a call that dominates every other use; (NONDET-API) no wall clock (except as a telemetry argument), randomness, environment, goroutines, select or floating point. The quantifier 'all iteration orders the runtime may choose' cannot be sampled by tests but is exactly what a dataflow rule over the loop body decides.",
    TRUST + "Not decided: determinism of dependencies; cross-version stability of sort.Slice under SortBids' non-strict comparator (noted).",
    "custom dataflow lint over go/ssa natural loops (loop-carried phi classification, effect summaries, sort-dominance)", "DESIGN.md section 4 C14")

chk("C15",
    "Structural necessary conditions of the round trip: (GEN-COVER) every collection field of the keeper is written in genesis import's call tree and read in export's, or is a counter import re-derives; (GEN-PAIR) every GenesisState list is filled by an unfiltered walk over one collection with an unconditional append of the stored value, and import stores that list's elements into the same collection; (GEN-DUPKEY) for each list the fields Validate builds its duplicate key from equal the record fields that form the store key, derived from the keeper's own Set sites by provenance-term matching; (KV-AGREE) import files each record under the key built from the record's own fields (or sets its id to the key first). One known finding (MatchedBidsLen absent from genesis) is reported as KNOWN-FINDING.",
    TRUST + "Not decided: per-object Validate acceptance of every reachable value; lock-step behavioural equivalence after re-import.",
    "effect/coverage tables over the genesis call trees + provenance-term agreement between validator keys, store keys and records", "DESIGN.md section 4 C15")

chk("C16",
    "Structural necessary conditions: (PUB-MATCHFLAG) the code that persists Bid.IsMatched in the block hook's call tree can write false for records taken from the auction's complete bid list and a computed flag depends on the matching result's matched bids; (PUB-PRICE) abstract exploration of the batch settlement routine: every non-failing path that performs a settlement transfer assigns BatchAuction.MatchedPrice from the matching result's price (or the constant zero, but not on all paths) and then stores the auction; (QRY-KEY) each by-id query reads under the key built from exactly the request's id fields; (QRY-FIELDUSE) every non-pagination request field of every query handler is read and used; (QRY-FILTER) for each string filter of a filtered list query, with only that filter set, the predicate's result set is exactly {attribute equals filter}. Three known findings (auction_id of the three list queries is ignored) print KNOWN-FINDING.",
    TRUST + "Not decided: equality of flags with balance deltas; fixed-price dust bids; that the clearing price itself is right (C03).",
    "writer/provenance analysis of published fields + effect automaton over abstract paths + finite-ordering evaluation of filter predicates", "DESIGN.md section 4 C16")

chk("C03",
    "Narrow structural necessary conditions of the clearing-price rule: (MONO-SEARCH) every sort.Search in the settlement tree has a predicate that, abstractly evaluated under the ordering 'accumulated demand <= supply', returns only true, and under 'demand > supply' (on paths that compare) only false — i.e. it is the monotone 'capped demand fits', which binary search requires; (SEARCH-DIR) the search index maps to ascending prices (index reversal over a list whose sort comparator is descending); (CAP-MIN) each quantity added to a matched amount is MinInt(request, allowance[bidder]) with the allowance map seeded from MaxBidAmount per bidder and decremented by exactly that quantity; (SUPPLY-GUARD) the accumulation is unreachable under 'total+quantity > supply' and the guarded quantity is the accumulated SSA value.",
    TRUST + "Not decided: that the matching arithmetic equals the stated demand function for every order book, ties, allocation amounts (numeric/history clauses).",
    "finite-ordering abstract evaluation of the search predicate + provenance/SSA matching of cap and supply guards", "DESIGN.md section 4 C03")

chk("C08",
    "Structural/finite-ordering conditions: (ST-TRANS) for each of the 8 entry points and each stored status value, abstract exploration finds only constant status writes that form StandBy→Started, Started→Vesting, Started→Finished, Vesting→Finished or StandBy→Cancelled (none from Finished/Cancelled; fresh auctions only StandBy/Started), and each of the five is performed somewhere; (TIME-POL) evaluating the code over every ordering of the compared instants: opening reachable exactly for StartTime ≤ BlockTime (block hook, both creations), any settlement effect exactly for last(EndTimes) ≤ BlockTime, a release transfer exactly for ReleaseTime ≤ BlockTime ∧ ¬Released, creation committed exactly for EndTime ≥ BlockTime; (OPEN-GUARD) Bid record writes by placement/modification only for stored status Started; (FINISH-LAST) Vesting→Finished only when the released instalment's index equals len-1. The boundary instants (exactly at start/end/release) are a finite set of orderings that the evaluator enumerates completely; tests sample a few block times.",
    TRUST + "Not decided: the history-level statement about which block is first; it follows from the ≤ comparison being re-evaluated at each block.",
    "typestate over abstract paths + ORD-EVAL (abstract interpretation over the 3 orderings of each compared pair, product for pairs) + enum evaluation", "DESIGN.md section 4 C08")

chk("C11",
    "Finite-case evaluation of the bid-modifying operation: the Bid record write is reachable exactly in the accepting cases of each precondition — auction lookup error, stored status (only Started), auction type (only Batch), bid lookup error under the message's (auction id, bid id), stored bidder = message bidder, message price ≥ MinBidPrice, stored denom = message denom, and all 9 orderings of (new price ? old price) × (new amount ? old amount) with accept set {≥}×{≥} minus {(=,=)}; every tracked comparison must actually be evaluated on some path (vacuity control). (MB-FIELDS) the written value is the loaded record with exactly Price and Coin replaced by the message's, under the key rebuilt from its own ids. (NO-DELETE) no Remove/Clear on Bid/Auction in non-test code (with a positive control on the scanner) and no message handler reaches a per-bidder refund out of a paying escrow.",
    TRUST + "Not decided: equality of the summed charged differences and the final required reservation as numbers (structural reason decided under C01/C04).",
    "ORD-EVAL / ENUM-EVAL: abstract interpretation of the handler over finite orderings and enum values + provenance of the written record", "DESIGN.md section 4 C11")
chk("C12",
    "Finite-case evaluation of the cancel operation: any cancellation effect (refund transfer, status write, auction store) is reachable exactly when the auction lookup succeeds, stored auctioneer = message auctioneer and stored status = StandBy. (CN-EFFECT) every non-failing path performs a transfer, assigns a zero coin to the fixed-price remainder, writes Cancelled and then stores the auction; the transfer's payer is the stored auction's selling escrow, its payee the stored auctioneer and its amount NewCoin(d, SpendableCoins(payer).AmountOf(d)) with d the stored selling denomination (drain-to-empty provenance); the record stored is the loaded one under its own id. Permanence of Cancelled is ST-TRANS (C08).",
    TRUST + "Not decided: balances as numbers; bank semantics.",
    "ORD-EVAL / ENUM-EVAL + effect automaton over abstract paths + provenance terms of the transfer operands", "DESIGN.md section 4 C12")
chk("C13",
    "Structural/finite-case conditions: (EXT-APPEND) the only non-constructor writer of EndTimes stores append(current EndTimes, last(current).AddDate(0,0,Params.ExtendedPeriod)) on the same auction, and creation passes the one-element list [msg.EndTime]; (EXT-BOUND) with MaxExtendedRound+1 = len(EndTimes) no EndTimes write is reachable in the settlement routine (with rounds left it is) and batch creation commits only for MaxExtendedRound ≤ the constant limit; (EXT-RULE) over (last = 0 | > 0) × (drop <,=,> rate) with rounds left, extension is reachable exactly for 'last = 0 or drop ≥ rate' and a settlement transfer exactly otherwise, and the compared quantity is 1 − Dec(current length)/Dec(stored last length); (EXT-ORDER) the stored last length is read before any write of it on every path; no message handler writes it.",
    TRUST + "Not decided: 18-decimal rounding of cur/last; order-book evolution between end times.",
    "ORD-EVAL over the decision's finite case split + writer table + provenance shape of the appended end time and the compared ratio", "DESIGN.md section 4 C13")

chk("C09",
    "Structural necessary conditions: (VEST-SHARE) the amount stored for an instalment is TruncateInt(MulTruncate(Dec(total), weight)) — rounding direction FLOOR by the operator table — with total the very coin swept from the paying escrow into the vesting escrow (the escrow's whole balance of the paying denomination) and weight and release time taken from the same schedule entry that keys the record; (VEST-REM) the alternative stored amount is the loop-carried remainder R (R0 = swept total, R' = R − stored amount), selected on the true edge of index == len(schedules)−1 for the index that selects the entry; (VEST-ONCE) every transfer out of the vesting escrow pays the iterated record's own PayingCoin to the auctioneer and, on every path, is followed before the loop continues or the function succeeds by writing that record back unchanged except Released=true under the key rebuilt from its own fields (and Released=true is stored only after a transfer); (VEST-WRITERS) the queue is written only by settlement (Released=false), release (true) and genesis import, never from a message handler. Release timing is TIME-POL/FINISH-LAST under C08.",
    TRUST + "Not decided: Σ instalments = proceeds as a number (VEST-REM is its structural reason); schedule validity arithmetic.",
    "rounding-direction analysis over provenance terms + loop-carried remainder recognition + pairing automaton over abstract paths", "DESIGN.md section 4 C09")

chk("C04",
    "Structural necessary conditions: (RD-DIR) every Dec→Int conversion of the module (6 today) is classified by its operator skeleton — division by a price (quantity given) must round FLOOR, multiplication by a price (amount charged/reserved) CEIL or a difference of ceilings, weight shares FLOOR — with an operator table over the resolved cosmossdk.io/math callees; (RD-SIB) the modification's charged difference is ceil(msg amount×msg price) − ceil(stored amount×stored price) with exactly the operators of the bid's to-paying conversion, and the reservation rebuilt at settlement uses that same conversion, so differences telescope; (UNI-PRICE) in the matching routine every payment multiplier and quantity divisor is the single match-price parameter, which the result publishes; (INCL-GUARD) under 'level price < match price' no accumulation is reachable (and under '>' it is); (REFUND-PROV) each bidder's refund starts as the whole rebuilt reservation (over the auction's complete bid list, per bidder) and for matched bidders becomes reservation − payment of the same bidder.",
    TRUST + "Not decided: the numeric bounds (< 1 unit per matched bid, ≥ price×quantity) for all 18-decimal prices; they follow from the directions only qualitatively.",
    "rounding-direction abstract domain over provenance terms + operator-skeleton sibling comparison + ORD-EVAL for the inclusion guard + map-update provenance", "DESIGN.md section 4 C04")

chk("C01",
    "Structural necessary conditions of the escrow equalities (not the equalities as numbers): (ESC-ROLE) every transfer/fee reachable from the 8 entry points, explored in the entry point's context so that helpers' address parameters are bound, has an attributed payer and payee (escrow of an identified auction, stored auctioneer, bidder, message signer) and the pair is in the confirmed per-entry table within one auction — no other code debits or credits an escrow; (CREDIT-RECORD) creation credits exactly the SellingCoin it stores (= initial remainder); placement credits, per admitted bid type, the bid's own to-paying conversion of the stored coin and price or the stored worth coin; modification credits (msg coin − stored coin) or the difference of the two ceilings; directions CEIL/CEIL-DIFF/EXACT only; (PAIR-RESERVE) per admitted bid type every non-failing placement reserves exactly once before the Bid write (fixed price: also subtracts the remainder and stores the auction); modification reserves iff the difference coin is positive and always rewrites the record; (DRAIN) unsold return, sweep and cancel refund send exactly NewCoin(d, SpendableCoins(escrow).AmountOf(d)) in the escrow's own denomination; (VEST-*) shared with C09.",
    TRUST + "Not decided: the numerical equalities for all prices/amounts/interleavings; bank behaviour; third-party deposits. The module's own >= invariants are unregistered (noted).",
    "effect/role attribution over abstract paths from the entry points + provenance-term agreement of credited and recorded amounts + counting automaton (reserve ⇔ record) + rounding directions", "DESIGN.md section 4 C01")
chk("C02",
    "Structural necessary conditions: (ESC-ROLE) as in C01 — in particular the only debits of a user account are the two fee payments and the two reservations, each from the message signer; (BANK-METHODS) outside the simulation package only SendCoins/InputOutputCoins/SpendableCoins are invoked on the bank keeper; (SETTLE-SEQ) for a Started auction of either type every non-failing path of block processing either moves nothing or performs exactly once, in order, allocation ≺ unsold return ≺ refund (batch) ≺ sweep ≺ status advance (region events for the per-bidder loops; the automaton is reset per iterated auction); (PAIR-FEE) creation and placement pay Params' configured fee from the signer exactly once before the record is written; (MSG-PROP) in the call trees of all message handlers (91 call sites) every exit reached after a callee failed is itself a failure.",
    TRUST + "Not decided: per-participant amounts; that bank's InputOutputCoins conserves coins (bank v0.50.8, trusted).",
    "role attribution + ordered-steps automaton over abstract paths with region events + per-call-site error propagation", "DESIGN.md section 4 C02")

PENDING = {}  # property -> reason (kept current as checks are added)
ALL = ["C%02d" % i for i in range(1, 21)]
for p in ALL:
    if p not in CHECKS:
        PENDING[p] = "check not implemented yet in this revision of /verif (static rule planned in DESIGN.md section 4); not claimed until it runs clean on the unchanged tree"

m = {
 "version": 1,
 "setup_cmd": "cd /verif/checker && GOFLAGS=-mod=mod GOPROXY=off GOSUMDB=off GOTOOLCHAIN=local GOWORK=off go build -o /verif/bin/fundcheck .",
 "hooks": {"guard": "verif", "enable": "none needed: the analysis reads /repo's source, no instrumentation is compiled in",
           "baseline_off_cmd": BASE, "source_commits": [], "add_only": True},
 "engines": [{"name": "fundcheck", "path": "/verif/checker", "serves_properties": sorted(CHECKS),
              "kind_free_text": "repository-specific static analyser: go/packages + go/types + go/ssa over /repo's working tree; term/provenance abstraction, abstract path exploration over finite orderings, effect automata, ownership tables"}],
 "checks": [],
 "notes": "Technique family: static analysis only. Every command analyses /repo's current working tree from source; nothing in /repo is executed. Exit 0 = all obligations discharged (KNOWN-FINDING lines for listed findings), 1 = VIOLATION, 2 = CHECKER-ERROR (no verdict). Fixes to genuine defects are 'fix:' commits in /repo recorded in /verif/known_findings.json.",
 "not_applicable": [{"property_id": p, "reason": PENDING[p]} for p in sorted(PENDING)],
}
for p in sorted(CHECKS):
    c = CHECKS[p]
    m["checks"].append({
        "property_id": p, "quick_cmd": "./run %s quick" % p, "thorough_cmd": "./run %s thorough" % p,
        "evidence_file": "/verif/evidence/%s.json" % p, "replay_cmd_template": "./run --replay {path}",
        "engine": "fundcheck",
        "level_claimed": {"category": "other", "text": c["text"], "design_ref": c["design"]},
        "level_note": c["note"], "technique": c["technique"]})
json.dump(m, open(os.path.join(os.path.dirname(__file__), "..", "MANIFEST.json"), "w"), indent=1)
print("checks:", sorted(CHECKS), "pending:", len(PENDING))
