#!/bin/bash
# tools/mutdev.sh <prop> <file-relative-to-repo> <sed-expression> — development helper: one textual mutation on a scratch
# copy of HEAD, dev binary (FC) in control mode; prints the violations (expects some).
p=$1; f=$2; e=$3; FC=${FC:-/tmp/fc-dev}
d=$(mktemp -d /var/tmp/mut-XXXXXX); git -C /repo archive HEAD | tar -x -C $d
cp $d/$f $d/$f.orig; sed -i "$e" $d/$f
if cmp -s $d/$f $d/$f.orig; then echo "mutation did not change $f"; rm -rf $d; exit 2; fi
rm $d/$f.orig
export GOFLAGS=-mod=mod GOPROXY=off GOSUMDB=off GOTOOLCHAIN=local GOWORK=off
(cd $d && go build ./... 2>&1 | head -3)
VERIF_CONTROL=1 VERIF_REPO=$d $FC -property $p -tier quick | grep 'CONTROL-\|CHECKER' | cut -c1-${W:-260}
rm -rf $d
