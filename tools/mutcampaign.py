#!/usr/bin/env python3
"""tools/mutcampaign.py [-j N] [--kinds k1,k2] file... — development aid: for every syntactic mutant (tools/mutgen) of the
given files (relative to /repo) on per-worker scratch copies of /repo's HEAD: build, run the pinned test suite, and for
the mutants that survive the tests run every property's check in control mode (FC -all). One TSV line per mutant on
stdout: file, n, line, kind, desc, stage (nobuild|killed-by-tests|DETECTED props|SURVIVED). Scratch copies are removed."""
import os, subprocess, sys, tempfile, shutil, concurrent.futures as cf, threading, queue
FC=os.environ.get('FC','/tmp/fc-all'); MUTGEN=os.environ.get('MUTGEN','/tmp/mutgen')
args=sys.argv[1:]; jobs=6; kinds=None
while args and args[0].startswith('-'):
    if args[0]=='-j': jobs=int(args[1]); args=args[2:]
    elif args[0]=='--kinds': kinds=set(args[1].split(',')); args=args[2:]
env=dict(os.environ,GOFLAGS='-mod=mod',GOPROXY='off',GOSUMDB='off',GOTOOLCHAIN='local',GOWORK='off')
work=[]
for f in args:
    out=subprocess.run([MUTGEN,'-file','/repo/'+f,'-list'],capture_output=True,text=True).stdout
    for l in out.splitlines():
        n,line,kind,desc=l.split('\t')
        if kinds and kind not in kinds: continue
        work.append((f,int(n),line,kind,desc))
pool=queue.Queue()
dirs=[]
for i in range(jobs):
    d=tempfile.mkdtemp(prefix='mutc-',dir='/var/tmp'); dirs.append(d)
    subprocess.run('git -C /repo archive HEAD | tar -x -C '+d,shell=True,check=True); pool.put(d)
lock=threading.Lock()
def one(w):
    f,n,line,kind,desc=w
    d=pool.get()
    try:
        orig=open(d+'/'+f).read()
        r=subprocess.run([MUTGEN,'-file','/repo/'+f,'-n',str(n),'-out',d+'/'+f],capture_output=True,text=True)
        if r.returncode!=0: return w,'nogen',''
        try:
            if open(d+'/'+f).read()==orig: return w,'same',''
            b=subprocess.run(['go','build','./...'],cwd=d,env=env,capture_output=True,text=True)
            if b.returncode!=0: return w,'nobuild',''
            t=subprocess.run(['go','test','-vet=off','-count=1','-timeout','10m','./...'],cwd=d,env=env,capture_output=True,text=True)
            if t.returncode!=0: return w,'killed-by-tests',''
            c=subprocess.run([FC,'-all'],env=dict(env,VERIF_CONTROL='1',VERIF_REPO=d),capture_output=True,text=True)
            det=[l.split()[1] for l in c.stdout.splitlines() if l.startswith('ALL-RESULT') and l.endswith('rc=1')]
            err=[l.split()[1] for l in c.stdout.splitlines() if l.startswith('ALL-RESULT') and l.endswith('rc=2')]
            rules=sorted({l.split()[1].split(':')[0] for l in c.stdout.splitlines() if l.startswith('CONTROL-VIOLATION ')})
            if det: return w,'DETECTED',' '.join(det)+' ['+','.join(rules)+']'
            if err: return w,'CHECKER-ERROR',' '.join(err)
            return w,'SURVIVED',''
        finally:
            open(d+'/'+f,'w').write(orig)
    finally:
        pool.put(d)
with cf.ThreadPoolExecutor(jobs) as ex:
    for w,stage,info in ex.map(one,work):
        print('\t'.join([w[0],str(w[1]),w[2],w[3],w[4],stage,info]),flush=True)
for d in dirs: shutil.rmtree(d,ignore_errors=True)
