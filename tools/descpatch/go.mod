module descpatch

go 1.22

require google.golang.org/protobuf v1.34.2
