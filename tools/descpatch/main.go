// descpatch removes one option value from named fields in the file descriptors embedded in generated Go code
// (gogoproto: gzipped `fileDescriptor_*`; protoc-gen-go-pulsar: raw `file_*_rawDesc`), re-serialising the descriptor
// exactly as the generators do (proto.Marshal of the FileDescriptorProto; gzip BestCompression for gogoproto).
// It was used once, to produce the generated-code half of the "fix:" commit that drops
// (amino.encoding) = "legacy_coins" from non-repeated Coin fields, because no protobuf generator can run in the
// sandbox. It first checks that re-serialising the unmodified descriptor reproduces the committed bytes.
//
//	descpatch -file x.pb.go -mode gz|raw -strip legacy_coins Msg.field [Msg.field ...]
package main

import (
	"bytes"
	"compress/gzip"
	"flag"
	"fmt"
	"io"
	"os"
	"regexp"
	"strconv"
	"strings"

	"google.golang.org/protobuf/encoding/protowire"
	"google.golang.org/protobuf/proto"
	"google.golang.org/protobuf/types/descriptorpb"
)

func main() {
	file := flag.String("file", "", "generated Go file")
	mode := flag.String("mode", "gz", "gz (gogoproto) or raw (pulsar)")
	strip := flag.String("strip", "legacy_coins", "string option value to remove")
	dry := flag.Bool("n", false, "round-trip check only")
	flag.Parse()
	src, err := os.ReadFile(*file)
	check(err)
	var re *regexp.Regexp
	if *mode == "gz" {
		re = regexp.MustCompile(`(?s)(var fileDescriptor_[0-9a-f]+ = \[\]byte\{\n)(.*?)(\n\}\n)`)
	} else {
		re = regexp.MustCompile(`(?s)(var file_\w+_rawDesc = \[\]byte\{\n)(.*?)(\n\}\n)`)
	}
	loc := re.FindSubmatchIndex(src)
	if loc == nil {
		fatal("descriptor literal not found")
	}
	body := string(src[loc[4]:loc[5]])
	var orig []byte
	for _, tok := range regexp.MustCompile(`0x[0-9a-f]{2}`).FindAllString(body, -1) {
		v, _ := strconv.ParseUint(tok[2:], 16, 8)
		orig = append(orig, byte(v))
	}
	raw := orig
	if *mode == "gz" {
		zr, err := gzip.NewReader(bytes.NewReader(orig))
		check(err)
		raw, err = io.ReadAll(zr)
		check(err)
	}
	fd := &descriptorpb.FileDescriptorProto{}
	check(proto.Unmarshal(raw, fd))
	// byte-level rewrite with nothing to remove must be the identity
	if id := rewriteFile(raw, nil, "\x00", new(int)); !bytes.Equal(id, raw) {
		fatal("identity rewrite differs; refusing to patch")
	}
	fmt.Printf("%s: %d descriptor bytes (%d messages)\n", *file, len(raw), len(fd.MessageType))
	if *mode == "gz" {
		same := bytes.Equal(gz(raw), orig)
		fmt.Printf("  gzip re-compression identical: %v\n", same)
		if !same {
			fatal("gzip settings differ from the generator's; refusing to patch")
		}
	}
	if *dry {
		return
	}
	n := 0
	patched := rewriteFile(raw, flag.Args(), *strip, &n)
	if n != flag.NArg() {
		fatal(fmt.Sprintf("removed %d options for %d targets", n, flag.NArg()))
	}
	// the patched descriptor parses, and differs from the original only in the removed options
	fd2 := &descriptorpb.FileDescriptorProto{}
	check(proto.Unmarshal(patched, fd2))
	for _, m := range fd.MessageType {
		for _, f := range m.Field {
			for _, tgt := range flag.Args() {
				if tgt == m.GetName()+"."+f.GetName() {
					f.Options.ProtoReflect().SetUnknown(dropValue(f.Options.ProtoReflect().GetUnknown(), *strip, new(int)))
				}
			}
		}
	}
	if !proto.Equal(fd, fd2) {
		fatal("patched descriptor differs from the original in more than the removed options")
	}
	outb := patched
	var sb strings.Builder
	if *mode == "gz" {
		outb = gz(patched)
		fmt.Fprintf(&sb, "\t// %d bytes of a gzipped FileDescriptorProto\n", len(outb))
	}
	for i := 0; i < len(outb); i += 16 {
		sb.WriteString("\t")
		end := i + 16
		if end > len(outb) {
			end = len(outb)
		}
		for j := i; j < end; j++ {
			if j > i {
				sb.WriteString(" ")
			}
			fmt.Fprintf(&sb, "0x%02x,", outb[j])
		}
		if end < len(outb) {
			sb.WriteString("\n")
		}
	}
	res := append([]byte{}, src[:loc[4]]...)
	res = append(res, sb.String()...)
	res = append(res, src[loc[5]:]...)
	check(os.WriteFile(*file, res, 0o644))
	fmt.Printf("  wrote %s (%d -> %d descriptor bytes)\n", *file, len(raw), len(patched))
}

// records calls f for every top-level record of a serialised message and concatenates what f returns.
func records(b []byte, f func(num protowire.Number, typ protowire.Type, rec, val []byte) []byte) []byte {
	var out []byte
	for len(b) > 0 {
		num, typ, tl := protowire.ConsumeTag(b)
		if tl < 0 {
			fatal("bad tag")
		}
		vl := protowire.ConsumeFieldValue(num, typ, b[tl:])
		if vl < 0 {
			fatal("bad value")
		}
		var val []byte
		if typ == protowire.BytesType {
			val, _ = protowire.ConsumeBytes(b[tl:])
		}
		out = append(out, f(num, typ, b[:tl+vl], val)...)
		b = b[tl+vl:]
	}
	return out
}

func nameOf(b []byte) string {
	name := ""
	records(b, func(num protowire.Number, typ protowire.Type, rec, val []byte) []byte {
		if num == 1 && typ == protowire.BytesType && name == "" {
			name = string(val)
		}
		return nil
	})
	return name
}

func wrap(num protowire.Number, val []byte) []byte {
	return protowire.AppendBytes(protowire.AppendTag(nil, num, protowire.BytesType), val)
}

func dropValue(opts []byte, strip string, n *int) []byte {
	return records(opts, func(num protowire.Number, typ protowire.Type, rec, val []byte) []byte {
		if typ == protowire.BytesType && string(val) == strip && num > 1000 {
			*n++
			return nil
		}
		return rec
	})
}

// rewriteFile: FileDescriptorProto.message_type(4) -> DescriptorProto.field(2) -> FieldDescriptorProto.options(8).
func rewriteFile(raw []byte, targets []string, strip string, n *int) []byte {
	want := map[string]bool{}
	for _, t := range targets {
		want[t] = true
	}
	return records(raw, func(num protowire.Number, typ protowire.Type, rec, val []byte) []byte {
		if num != 4 || typ != protowire.BytesType {
			return rec
		}
		msg := nameOf(val)
		return wrap(4, records(val, func(num protowire.Number, typ protowire.Type, rec, fval []byte) []byte {
			if num != 2 || typ != protowire.BytesType || !want[msg+"."+nameOf(fval)] {
				return rec
			}
			return wrap(2, records(fval, func(num protowire.Number, typ protowire.Type, rec, oval []byte) []byte {
				if num != 8 || typ != protowire.BytesType {
					return rec
				}
				return wrap(8, dropValue(oval, strip, n))
			}))
		}))
	})
}

func gz(b []byte) []byte {
	var buf bytes.Buffer
	w, _ := gzip.NewWriterLevel(&buf, gzip.BestCompression)
	w.Write(b)
	w.Close()
	return buf.Bytes()
}

func check(err error) {
	if err != nil {
		fatal(err.Error())
	}
}

func fatal(s string) {
	fmt.Fprintln(os.Stderr, "descpatch:", s)
	os.Exit(2)
}
